//! C04 — compact integers: correspondence cases + implementation-side oracle.
use crate::common::*;
use parity_scale_codec::{Compact, CompactLen, Decode, Encode, IoReader};
use std::panic::catch_unwind;

#[derive(Clone, Debug, PartialEq)]
enum IRes {
	Ok(u128, usize),
	Err,
	Panic,
}
impl IRes {
	fn coq(&self) -> String {
		match self {
			IRes::Ok(v, c) => format!("(IOk {v} {c})"),
			IRes::Err => "IErr".into(),
			IRes::Panic => "IPanic".into(),
		}
	}
}

macro_rules! width_fns {
	($t:ty, $enc:ident, $dec:ident, $len:ident) => {
		/// the other entry points of the same value: using_encoded (Compact and CompactRef),
		/// CompactRef::encode, size_hint, encoded_size
		fn $len(v: u128) -> Option<(Vec<u8>, Vec<u8>, Vec<u8>, usize, usize)> {
			let v = v as $t;
			catch_unwind(|| {
				(
					Compact(v).using_encoded(|s| s.to_vec()),
					parity_scale_codec::CompactRef(&v).using_encoded(|s| s.to_vec()),
					parity_scale_codec::CompactRef(&v).encode(),
					Compact(v).size_hint(),
					Compact(v).encoded_size(),
				)
			})
			.ok()
		}
		fn $enc(v: u128) -> Option<(Vec<u8>, usize)> {
			let v = v as $t;
			catch_unwind(|| (Compact(v).encode(), <Compact<$t> as CompactLen<$t>>::compact_len(&v))).ok()
		}
		fn $dec(inp: &[u8], known: bool) -> IRes {
			let r = catch_unwind(|| {
				if known {
					let mut s = inp;
					<Compact<$t>>::decode(&mut s).map(|c| (c.0 as u128, inp.len() - s.len())).ok()
				} else {
					let mut cur = std::io::Cursor::new(inp);
					let r = {
						let mut rd = IoReader(&mut cur);
						<Compact<$t>>::decode(&mut rd).map(|c| c.0 as u128).ok()
					};
					r.map(|v| (v, cur.position() as usize))
				}
			});
			match r {
				Ok(Some((v, c))) => IRes::Ok(v, c),
				Ok(None) => IRes::Err,
				Err(_) => IRes::Panic,
			}
		}
	};
}
width_fns!(u8, enc8, dec8, len8);
width_fns!(u16, enc16, dec16, len16);
width_fns!(u32, enc32, dec32, len32);
width_fns!(u64, enc64, dec64, len64);
width_fns!(u128, enc128, dec128, len128);

fn enc_w(b: u32, v: u128) -> Option<(Vec<u8>, usize)> {
	match b {
		1 => enc8(v),
		2 => enc16(v),
		4 => enc32(v),
		8 => enc64(v),
		_ => enc128(v),
	}
}
fn others_w(b: u32, v: u128) -> Option<(Vec<u8>, Vec<u8>, Vec<u8>, usize, usize)> {
	match b {
		1 => len8(v),
		2 => len16(v),
		4 => len32(v),
		8 => len64(v),
		_ => len128(v),
	}
}
fn dec_w(b: u32, inp: &[u8], known: bool) -> IRes {
	match b {
		1 => dec8(inp, known),
		2 => dec16(inp, known),
		4 => dec32(inp, known),
		8 => dec64(inp, known),
		_ => dec128(inp, known),
	}
}
fn fits(b: u32, v: u128) -> bool {
	b >= 16 || v < (1u128 << (8 * b))
}
/// the SCALE length of the canonical form, computed independently of the crate
fn spec_len(v: u128) -> usize {
	if v < 1 << 6 {
		1
	} else if v < 1 << 14 {
		2
	} else if v < 1 << 30 {
		4
	} else {
		1 + ((128 - v.leading_zeros() as usize) + 7) / 8
	}
}

pub struct Ctx {
	pub cases: Cases,
	pub oracle: Oracle,
	pub stats: Stats,
}

fn enc_case(cx: &mut Ctx, b: u32, v: u128) {
	if !fits(b, v) {
		return;
	}
	let r = enc_w(b, v);
	cx.stats.bump(&format!("enc/u{}", 8 * b));
	match r {
		None => {
			cx.oracle.check(false, "enc-panic", || format!("enc\t{b}\t{v}"));
			cx.cases.push(format!("(KEnc {b} {v} \"\" 0)"), format!("enc\t{b}\t{v}"), true);
		},
		Some((bytes, clen)) => {
			let rp = format!("enc\t{b}\t{v}");
			cx.cases.push(format!("(KEnc {b} {v} \"{}\" {clen})", hex(&bytes)), rp.clone(), v >= 64);
			cx.stats.sample(format!("KEnc u{} {v} -> {} compact_len={clen}", 8 * b, hex(&bytes)));
			// oracle on the implementation alone
			cx.oracle.check(bytes.len() == spec_len(v), "enc-not-shortest", || rp.clone());
			cx.oracle.check(clen == bytes.len(), "compact-len-mismatch", || rp.clone());
			match others_w(b, v) {
				Some((u1, u2, r, hint, size)) => {
					cx.oracle.check(u1 == bytes && u2 == bytes && r == bytes, "compact-entry-points-differ", || format!("{rp}\tusing_encoded={} ref.using_encoded={} ref.encode={}", hex(&u1), hex(&u2), hex(&r)));
					cx.oracle.check(size == bytes.len() && hint == bytes.len(), "compact-len-mismatch", || format!("{rp}\tsize_hint={hint} encoded_size={size}"));
				},
				None => cx.oracle.check(false, "enc-panic", || rp.clone()),
			}
			for known in [true, false] {
				cx.oracle.check(dec_w(b, &bytes, known) == IRes::Ok(v, bytes.len()), "roundtrip", || rp.clone());
			}
			for b2 in [1u32, 2, 4, 8, 16] {
				if b2 != b && fits(b2, v) {
					let other = enc_w(b2, v).map(|x| x.0);
					cx.oracle.check(other.as_ref() == Some(&bytes), "width-compat", || format!("{rp}\tvs-width\t{b2}"));
				}
			}
		},
	}
}

fn dec_case(cx: &mut Ctx, b: u32, inp: &[u8], known: bool, family: &str) {
	let r = dec_w(b, inp, known);
	let rp = format!("dec\t{b}\t{}\t{}", known as u8, hex(inp));
	let nontrivial = !inp.is_empty();
	cx.stats.bump(&format!("dec/u{}/{}/{}", 8 * b, family, match r {
		IRes::Ok(..) => "ok",
		IRes::Err => "err",
		IRes::Panic => "panic",
	}));
	if cx.cases.push(
		format!("(KDec {b} {} \"{}\" {})", if known { "true" } else { "false" }, hex(inp), r.coq()),
		rp.clone(),
		nontrivial,
	) {
		cx.stats.sample(format!("KDec u{} known={known} {} -> {:?}", 8 * b, hex(inp), r));
	}
	match &r {
		IRes::Panic => cx.oracle.check(false, "dec-panic", || rp.clone()),
		IRes::Ok(v, c) => {
			// accepted => canonical form of a value that fits
			let canon = enc_w(16, *v).map(|x| x.0);
			let ok = fits(b, *v) && *c <= inp.len() && canon.as_deref() == Some(&inp[..*c]) && *c == spec_len(*v);
			cx.oracle.check(ok, "accepted-noncanonical", || rp.clone());
		},
		IRes::Err => {
			// rejected => must not start with the canonical form of a fitting value:
			// try to find such a value from the prefix
			if let IRes::Ok(v, c) = dec128(inp, true) {
				let canon = enc128(v).map(|x| x.0);
				if fits(b, v) && canon.as_deref() == Some(&inp[..c]) && c == spec_len(v) {
					cx.oracle.check(false, "rejected-canonical", || rp.clone());
				}
			}
		},
	}
	// slice and reader must agree (also part of C08, cheap here)
	let r2 = dec_w(b, inp, !known);
	cx.oracle.check(r == r2, "known-vs-unknown", || rp.clone());
}

fn boundaries() -> Vec<u128> {
	let mut v = vec![0u128, 1, 63, 64, 255, 256, 16383, 16384, 65535, 65536, (1 << 30) - 1, 1 << 30, u32::MAX as u128, 1 << 32];
	for k in 3..16 {
		v.push((1u128 << (8 * k)) - 1);
		v.push(1u128 << (8 * k));
	}
	v.push(u64::MAX as u128);
	v.push(u128::MAX);
	v
}

pub fn run(args: &Args) {
	quiet_panics();
	let mut cx = Ctx {
		cases: Cases::new("Require Import Scale.Bytes Scale.Hex Scale.CorrC04.", "c04case", "c04_check"),
		oracle: Oracle::new(),
		stats: Stats::new(),
	};
	let widths = [1u32, 2, 4, 8, 16];
	if let Some(line) = &args.only {
		let f: Vec<&str> = line.split('\t').collect();
		match f[0] {
			"enc" => enc_case(&mut cx, f[1].parse().unwrap(), f[2].parse().unwrap()),
			_ => dec_case(&mut cx, f[1].parse().unwrap(), &unhex(f[3]), f[2] == "1", "replay"),
		}
	} else {
		let mut rng = Rng::new(args.seed);
		let t = args.thorough;
		// ---- encode ----
		for v in 0..256u128 {
			for &b in &widths {
				enc_case(&mut cx, b, v);
			}
		}
		if t {
			for v in 256..65536u128 {
				enc_case(&mut cx, 2, v);
			}
		}
		let span: i128 = if t { 4096 } else { 48 };
		for base in boundaries() {
			for d in -span..=span {
				let v = (base as i128).wrapping_add(d) as u128;
				for &b in &widths {
					enc_case(&mut cx, b, v);
				}
			}
		}
		// at most two non-zero byte lanes
		let lane_vals: &[u8] = if t { &[1, 0x3f, 0x40, 0x7f, 0x80, 0xff] } else { &[1, 0x40, 0xff] };
		for l1 in 0..16u32 {
			for l2 in l1..16u32 {
				for &a in lane_vals {
					for &c in lane_vals {
						let v = ((a as u128) << (8 * l1)) | ((c as u128) << (8 * l2));
						for &b in &[4u32, 8, 16] {
							enc_case(&mut cx, b, v);
						}
					}
				}
			}
		}
		for _ in 0..(if t { 60000 } else { 1500 }) {
			let b = *rng.pick(&widths);
			let v = rng.biased(8 * b);
			enc_case(&mut cx, b, v);
		}
		// ---- decode ----
		// exhaustive short strings through the 8/16-bit decoders
		for &b in &[1u32, 2] {
			dec_case(&mut cx, b, &[], true, "exh0");
			for x in 0..=255u8 {
				dec_case(&mut cx, b, &[x], true, "exh1");
			}
			let seconds: Vec<u8> = if t { (0..=255).collect() } else { vec![0, 1, 2, 3, 4, 0x3f, 0x40, 0x7f, 0x80, 0xfc, 0xfd, 0xfe, 0xff] };
			for x in 0..=255u8 {
				for &y in &seconds {
					dec_case(&mut cx, b, &[x, y], true, "exh2");
				}
			}
		}
		// 3/4-byte strings for mode 2 (u16 and wider): boundaries of the payload
		for &b in &[2u32, 4, 8, 16] {
			for x in (0..=255u8).filter(|x| x % 4 == 2) {
				for tail in [[0u8, 0, 0], [0xff, 0, 0], [0, 1, 0], [0xff, 0xff, 0], [0, 0, 1], [0xff, 0xff, 0xff], [0, 0, 0x40]] {
					let s = [x, tail[0], tail[1], tail[2]];
					dec_case(&mut cx, b, &s, true, "mode2");
					dec_case(&mut cx, b, &s[..3], false, "mode2-trunc");
				}
			}
		}
		// big-integer mode: tag byte x top byte x length
		let tops: &[u8] = if t { &[0, 1, 0x3f, 0x40, 0x7f, 0x80, 0xff] } else { &[0, 1, 0x40, 0xff] };
		for &b in &[4u32, 8, 16] {
			for tag in (0..=255u8).filter(|x| x % 4 == 3) {
				let n = (tag >> 2) as usize + 4;
				if n > 20 && !t && tag != 255 {
					continue;
				}
				for &top in tops {
					for dl in [-1i32, 0, 1] {
						let len = (n as i32 + dl).max(0) as usize;
						let mut s = vec![tag];
						let mut body = rng.bytes(len);
						if len >= n {
							body[n - 1] = top;
						}
						if rng.chance(1, 3) {
							for x in body.iter_mut().take(n.saturating_sub(1)) {
								*x = 0;
							}
						}
						s.extend(body);
						dec_case(&mut cx, b, &s, rng.chance(1, 2), "big");
					}
				}
			}
		}
		// valid encodings with suffix, truncations, mutations, random
		for _ in 0..(if t { 40000 } else { 1500 }) {
			let b = *rng.pick(&widths);
			let bv = *rng.pick(&widths);
			let v = rng.biased(8 * bv);
			let mut s = enc128(v).unwrap().0;
			match rng.below(6) {
				0 => {
					let k = rng.below(4) as usize;
					s.extend(rng.bytes(k))
				},
				1 => {
					let k = rng.below(s.len() as u64) as usize;
					s.truncate(k)
				},
				2 => {
					let k = rng.below(s.len() as u64) as usize;
					s[k] ^= 1 << rng.below(8)
				},
				3 => {
					// non-minimal: re-encode in a wider mode
					if v < 1 << 14 && rng.chance(1, 2) {
						s = (((v as u32) << 2) | 2).to_le_bytes().to_vec();
					} else if v < (1u128 << 64) {
						let n = rng.range(4, 12) as usize;
						let mut x = vec![(((n - 4) << 2) | 3) as u8];
						x.extend(&v.to_le_bytes()[..n]);
						s = x;
					}
				},
				4 => {
					let k = rng.range(1, 18) as usize;
					s = rng.bytes(k)
				},
				_ => {},
			}
			dec_case(&mut cx, b, &s, rng.chance(1, 2), "mut");
		}
	}
	let rule = "encode: every u8 value under all five widths, class boundaries +-span, all values with <=2 non-zero byte lanes (lane values from a fixed set), seeded boundary-biased values; thorough adds every u16 value. decode: every byte string of length <=1 and every 2-byte string (second byte from a boundary set; all in thorough) through the 8/16-bit decoders, mode-2 payload boundaries, every big-mode tag byte x top byte x length-1/0/+1, seeded valid/extended/truncated/bit-flipped/non-minimal/random strings; slice and IoReader inputs. non-trivial = non-empty input / value >= 64; duplicates dropped by hash of the case term";
	cx.cases.write(&args.out, "c04", args.shards);
	cx.oracle.write(&args.out);
	cx.stats.write(&args.out, cx.cases.len(), cx.cases.nontrivial, cx.cases.dups, cx.oracle.checks, rule);
}
