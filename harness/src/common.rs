//! Shared plumbing: PRNG, hex, Coq shard writer, oracle log, statistics.
use std::collections::{BTreeMap, HashSet};
use std::fmt::Write as _;
use std::fs;
use std::io::Write as _;
use std::path::{Path, PathBuf};

#[derive(Clone)]
pub struct Rng {
	pub s: u64,
	/// bias integers to their maximum (used by the C13 oracle)
	pub maxbias: bool,
	/// bias sequence lengths to the preallocation window (used by the C09 hostile family)
	pub bigbias: bool,
}
impl Rng {
	pub fn new(seed: u64) -> Self {
		Rng { s: seed.wrapping_mul(0x9E3779B97F4A7C15) ^ 0xD1B54A32D192ED03, maxbias: false, bigbias: false }
	}
	pub fn next(&mut self) -> u64 {
		self.s = self.s.wrapping_add(0x9E3779B97F4A7C15);
		let mut z = self.s;
		z = (z ^ (z >> 30)).wrapping_mul(0xBF58476D1CE4E5B9);
		z = (z ^ (z >> 27)).wrapping_mul(0x94D049BB133111EB);
		z ^ (z >> 31)
	}
	pub fn below(&mut self, n: u64) -> u64 {
		if n == 0 {
			0
		} else {
			self.next() % n
		}
	}
	pub fn range(&mut self, lo: u64, hi: u64) -> u64 {
		lo + self.below(hi - lo + 1)
	}
	pub fn chance(&mut self, num: u64, den: u64) -> bool {
		self.below(den) < num
	}
	pub fn u128(&mut self) -> u128 {
		((self.next() as u128) << 64) | self.next() as u128
	}
	pub fn byte(&mut self) -> u8 {
		self.next() as u8
	}
	pub fn bytes(&mut self, n: usize) -> Vec<u8> {
		(0..n).map(|_| self.byte()).collect()
	}
	pub fn pick<'a, T>(&mut self, xs: &'a [T]) -> &'a T {
		&xs[self.below(xs.len() as u64) as usize]
	}
	/// boundary-biased value below 2^bits
	pub fn biased(&mut self, bits: u32) -> u128 {
		let mask: u128 = if bits >= 128 { u128::MAX } else { (1u128 << bits) - 1 };
		if self.maxbias && self.chance(3, 4) {
			return mask;
		}
		let r = match self.below(10) {
			0 => 0,
			1 => mask,
			2 => {
				// around a power of two
				let k = self.below(bits as u64 + 1) as u32;
				let base = if k >= 128 { u128::MAX } else { 1u128 << k };
				let d = self.below(9) as i128 - 4;
				(base as i128).wrapping_add(d) as u128
			},
			3 => {
				// around a class boundary of the compact format
				let b = *self.pick(&[1u128 << 6, 1 << 14, 1 << 30, 1 << 32, 1 << 56, 1 << 64, 1 << 120]);
				let d = self.below(5) as i128 - 2;
				(b as i128).wrapping_add(d) as u128
			},
			4 => self.below(300) as u128,
			5 => {
				// few non-zero byte lanes
				let mut v = 0u128;
				for _ in 0..=self.below(2) {
					let lane = self.below(((bits + 7) / 8) as u64) as u32;
					v |= (self.byte() as u128) << (8 * lane);
				}
				v
			},
			6 => {
				let k = self.below(bits as u64 + 1) as u32;
				if k == 0 {
					0
				} else {
					self.u128() & (if k >= 128 { u128::MAX } else { (1u128 << k) - 1 })
				}
			},
			_ => self.u128(),
		};
		r & mask
	}
}

pub fn hex(bs: &[u8]) -> String {
	let mut s = String::with_capacity(bs.len() * 2);
	for b in bs {
		write!(s, "{:02x}", b).unwrap();
	}
	s
}
/// a Coq `list byte` literal (much cheaper for coqc to read than a string literal)
pub fn blist(bs: &[u8]) -> String {
	let mut s = String::with_capacity(bs.len() * 4 + 2);
	s.push('[');
	for (i, b) in bs.iter().enumerate() {
		if i > 0 {
			s.push(';');
		}
		write!(s, "x{:02x}", b).unwrap();
	}
	s.push(']');
	s
}
pub fn unhex(s: &str) -> Vec<u8> {
	let s = s.as_bytes();
	(0..s.len() / 2)
		.map(|i| u8::from_str_radix(std::str::from_utf8(&s[2 * i..2 * i + 2]).unwrap(), 16).unwrap())
		.collect()
}
pub fn json_str(s: &str) -> String {
	let mut o = String::from("\"");
	for c in s.chars() {
		match c {
			'"' => o.push_str("\\\""),
			'\\' => o.push_str("\\\\"),
			'\n' => o.push_str("\\n"),
			'\t' => o.push_str("\\t"),
			c if (c as u32) < 0x20 => write!(o, "\\u{:04x}", c as u32).unwrap(),
			c => o.push(c),
		}
	}
	o.push('"');
	o
}

/// Collects correspondence cases (Coq terms) and writes them as shard files for coqc.
pub struct Cases {
	pub header: String,   // Require lines
	pub case_ty: String,  // Coq type of a case
	pub checker: String,  // Coq checker function
	pub terms: Vec<String>,
	pub replay: Vec<String>, // one replay line per case (what the harness needs to re-run it)
	seen: HashSet<u64>,
	pub nontrivial: usize,
	pub dups: usize,
	pub bytes: usize,
	pub max_total: usize,
	pub max_case: usize,
	pub skipped_big: usize,
	/// share of the literal budget one registry type may use (0 = no quota), and where it started
	pub quota: usize,
	pub mark: usize,
}
fn fnv(s: &str) -> u64 {
	let mut h = 0xcbf29ce484222325u64;
	for b in s.bytes() {
		h ^= b as u64;
		h = h.wrapping_mul(0x100000001b3);
	}
	h
}
impl Cases {
	pub fn new(header: &str, case_ty: &str, checker: &str) -> Self {
		Cases {
			header: header.into(),
			case_ty: case_ty.into(),
			checker: checker.into(),
			terms: vec![],
			replay: vec![],
			seen: HashSet::new(),
			nontrivial: 0,
			dups: 0,
			bytes: 0,
			max_total: 24 << 20,
			max_case: 1 << 20,
			skipped_big: 0,
			quota: 0,
			mark: 0,
		}
	}
	/// returns false if the case was a duplicate
	pub fn push(&mut self, term: String, replay: String, nontrivial: bool) -> bool {
		if !self.seen.insert(fnv(&term)) {
			self.dups += 1;
			return false;
		}
		// coqc reads ~30 KB of literal per millisecond: keep the whole run within budget
		if term.len() > self.max_case || self.bytes + term.len() > self.max_total || (self.quota > 0 && self.bytes - self.mark + term.len() > self.quota) {
			self.skipped_big += 1;
			return false;
		}
		self.bytes += term.len();
		if nontrivial {
			self.nontrivial += 1;
		}
		self.terms.push(term);
		self.replay.push(replay);
		true
	}
	pub fn len(&self) -> usize {
		self.terms.len()
	}
	/// a new registry type starts: it gets its own share of the budget
	pub fn begin_type(&mut self) {
		self.mark = self.bytes;
	}
	pub fn write(&self, dir: &Path, prefix: &str, shards: usize) {
		let n = self.terms.len();
		// a shard of more than ~2.5 MB of literal costs coqc more than 1 GB: add shards rather than
		// grow them (16 of them are evaluated at a time); names carry two digits
		let shards = shards.max(self.bytes / (5 << 19) + 1).min(96);
		let shards = shards.max(1).min(n.max(1));
		// balance shards by size: deal cases round-robin in decreasing size order
		let mut order: Vec<usize> = (0..n).collect();
		order.sort_by_key(|&i| std::cmp::Reverse(self.terms[i].len()));
		let mut buckets: Vec<Vec<usize>> = vec![vec![]; shards];
		let mut load = vec![0usize; shards];
		for i in order {
			let s = (0..shards).min_by_key(|&s| load[s]).unwrap();
			load[s] += self.terms[i].len() + 200;
			buckets[s].push(i);
		}
		let mut index = fs::File::create(dir.join(format!("{prefix}_index.tsv"))).unwrap();
		for s in 0..shards {
			let ids = &buckets[s];
			let lo = 0;
			let hi = ids.len();
			let mut f = fs::File::create(dir.join(format!("{prefix}_{s:02}.v"))).unwrap();
			writeln!(f, "{}", self.header).unwrap();
			writeln!(f, "Open Scope string_scope.").unwrap();
			let mut chunks = vec![];
			let mut i = lo;
			let mut c = 0;
			while i < hi {
				let j = (i + 100).min(hi);
				writeln!(f, "Definition cs{c} : list {} := [", self.case_ty).unwrap();
				for k in i..j {
					writeln!(f, "  {}{}", self.terms[ids[k]], if k + 1 < j { ";" } else { "" }).unwrap();
					writeln!(index, "{prefix}_{s:02}\t{}\t{}", k - lo, self.replay[ids[k]]).unwrap();
				}
				writeln!(f, "].").unwrap();
				chunks.push(format!("cs{c}"));
				c += 1;
				i = j;
			}
			if chunks.is_empty() {
				chunks.push("[]".into());
			}
			writeln!(f, "Definition cases : list {} := {}.", self.case_ty, chunks.join(" ++ ")).unwrap();
			writeln!(f, "Eval vm_compute in (failures {} cases).", self.checker).unwrap();
		}
	}
}

/// Property-oracle failures found on the implementation itself.
pub struct Oracle {
	pub fails: Vec<(String, String)>, // (class, description json)
	pub checks: u64,
}
impl Oracle {
	pub fn new() -> Self {
		Oracle { fails: vec![], checks: 0 }
	}
	pub fn check(&mut self, ok: bool, class: &str, desc: impl FnOnce() -> String) {
		self.checks += 1;
		if !ok && self.fails.len() < 200 {
			self.fails.push((class.to_string(), desc()));
		}
	}
	pub fn write(&self, dir: &Path) {
		let mut f = fs::File::create(dir.join("oracle.tsv")).unwrap();
		for (c, d) in &self.fails {
			writeln!(f, "{c}\t{d}").unwrap();
		}
	}
}

pub struct Stats {
	pub counters: BTreeMap<String, u64>,
	pub samples: Vec<String>,
}
impl Stats {
	pub fn new() -> Self {
		Stats { counters: BTreeMap::new(), samples: vec![] }
	}
	pub fn bump(&mut self, k: &str) {
		*self.counters.entry(k.to_string()).or_insert(0) += 1;
	}
	pub fn add(&mut self, k: &str, n: u64) {
		*self.counters.entry(k.to_string()).or_insert(0) += n;
	}
	pub fn sample(&mut self, s: String) {
		if self.samples.len() < 12 {
			self.samples.push(s);
		}
	}
	pub fn write(&self, dir: &Path, evaluations: usize, nontrivial: usize, dups: usize, oracle_checks: u64, rule: &str) {
		let mut s = String::from("{");
		write!(s, "\"evaluations\": {evaluations}, \"distinct_nontrivial\": {nontrivial}, \"duplicates_dropped\": {dups}, \"oracle_checks\": {oracle_checks}, \"rule\": {}, ", json_str(rule)).unwrap();
		s.push_str("\"distribution\": {");
		let mut first = true;
		for (k, v) in &self.counters {
			if !first {
				s.push_str(", ");
			}
			first = false;
			write!(s, "{}: {}", json_str(k), v).unwrap();
		}
		s.push_str("}, \"samples\": [");
		for (i, x) in self.samples.iter().enumerate() {
			if i > 0 {
				s.push_str(", ");
			}
			s.push_str(&json_str(x));
		}
		s.push_str("]}");
		fs::write(dir.join("stats.json"), s).unwrap();
	}
}

pub struct Args {
	pub seed: u64,
	pub thorough: bool,
	pub out: PathBuf,
	pub only: Option<String>,
	pub shards: usize,
}
impl Args {
	pub fn parse(args: &[String]) -> Args {
		let mut a = Args { seed: 1, thorough: false, out: PathBuf::from("."), only: None, shards: 16 };
		let mut i = 0;
		while i < args.len() {
			match args[i].as_str() {
				"--seed" => {
					a.seed = args[i + 1].parse().unwrap_or(1);
					i += 1
				},
				"--tier" => {
					a.thorough = args[i + 1] == "thorough";
					i += 1
				},
				"--out" => {
					a.out = PathBuf::from(&args[i + 1]);
					i += 1
				},
				"--only" => {
					a.only = Some(args[i + 1].clone());
					i += 1
				},
				"--only-file" => {
					a.only = Some(fs::read_to_string(&args[i + 1]).unwrap().trim_end_matches('\n').to_string());
					i += 1
				},
				"--shards" => {
					a.shards = args[i + 1].parse().unwrap_or(16);
					i += 1
				},
				_ => {},
			}
			i += 1;
		}
		fs::create_dir_all(&a.out).unwrap();
		a
	}
}

pub fn quiet_panics() {
	std::panic::set_hook(Box::new(|_| {}));
}
