//! The type universe of the harness: every registry type describes itself as a
//! model descriptor (Coq `ty`), generates boundary-biased values, renders values
//! as Coq `val` terms and provides the measures the property oracles need.
use crate::common::*;
#[cfg(not(feature = "no-opt"))]
use bitvec::prelude::{BitVec, Lsb0, Msb0};
use parity_scale_codec::{Compact, Decode, DecodeWithMemTracking, Encode, MaxEncodedLen, OptionBool};
use std::collections::{BTreeMap, BTreeSet, BinaryHeap, LinkedList, VecDeque};
use std::marker::PhantomData;
use std::mem::size_of;
use std::rc::Rc;
use std::sync::Arc;
use std::time::Duration;

pub trait Uni: Sized {
	fn desc() -> String;
	fn gen(r: &mut Rng, d: u32) -> Self;
	/// canonical form (what a decode yields; heaps sorted)
	fn val(&self) -> String;
	/// iteration-order form (what encode sees)
	fn val_enc(&self) -> String {
		self.val()
	}
	fn same(&self, o: &Self) -> bool;
	/// Some(bytes) for the twelve TYPE_INFO primitives
	fn prim() -> Option<u32> {
		None
	}
	fn lebytes(&self, _out: &mut Vec<u8>) {
		unreachable!()
	}
	/// container nesting depth as the depth limiter counts it
	fn depth(&self) -> u32 {
		0
	}
	/// bytes of decoded data held on the heap
	fn payload(&self) -> u128 {
		0
	}
	/// structural order of `val` agrees with `Ord` (may be a BTree key)
	fn key_ok() -> bool {
		false
	}
	/// minimum encoded length of any value of the type
	fn min_wire() -> usize;
	/// bytes of memory a decode may hold per input byte consumed (element size over minimum
	/// wire length, maximised over the element types stored by containers), and the fixed
	/// allowance (boxes, first chunks) a decode may reserve before reading anything
	fn mem_rate() -> usize {
		1
	}
	fn mem_allow() -> usize {
		0
	}
	/// some container inside the type stores elements (or boxes values) that may occupy no
	/// input: its allocation follows the claimed count, not the input (known finding F4)
	fn zero_wire_container() -> bool {
		false
	}
	/// a sequence whose elements may occupy no input at all: a hostile count is then not
	/// bounded by the input (known finding F4), so the harness caps the count it feeds
	fn zst_seq() -> bool {
		false
	}
}

fn len_for(r: &mut Rng, d: u32, esz: usize) -> usize {
	if d >= 2 {
		return r.below(3) as usize;
	}
	if d == 1 {
		return match r.below(12) {
			0 | 1 | 2 => 0,
			3 => 63 + r.below(3) as usize,
			_ => r.below(5) as usize,
		};
	}
	if r.chance(1, 48) || (r.bigbias && r.chance(2, 3)) {
		// straddle the 16 KiB preallocation window
		let per = if esz == 0 { 16384 } else { (16384 / esz).max(1) };
		let k = r.range(1, 2) as usize;
		let base = per * k;
		return (base as i64 + r.below(5) as i64 - 2).max(0) as usize;
	}
	match r.below(10) {
		0 | 1 => 0,
		2 => 1,
		3 => 2,
		4 => 63 + r.below(3) as usize,
		5 if r.chance(1, 6) => 16383 + r.below(3) as usize,
		_ => r.below(12) as usize,
	}
}

macro_rules! prim_uni {
	($($t:ty, $b:expr, $key:expr);*) => {$(
		impl Uni for $t {
			fn desc() -> String { format!("(TPrim {})", $b) }
			fn gen(r: &mut Rng, _d: u32) -> Self { r.biased(8 * $b) as $t }
			fn val(&self) -> String {
				let mut v = vec![]; self.lebytes(&mut v);
				let mut x = 0u128; for (i, b) in v.iter().enumerate() { x |= (*b as u128) << (8 * i); }
				format!("(VN {})", x)
			}
			fn same(&self, o: &Self) -> bool { self.to_le_bytes() == o.to_le_bytes() }
			fn prim() -> Option<u32> { Some($b) }
			fn lebytes(&self, out: &mut Vec<u8>) { out.extend_from_slice(&self.to_le_bytes()) }
			fn key_ok() -> bool { $key }
			fn min_wire() -> usize { $b }
		}
	)*};
}
prim_uni!(u8, 1, true; u16, 2, true; u32, 4, true; u64, 8, true; u128, 16, true;
	i8, 1, false; i16, 2, false; i32, 4, false; i64, 8, false; i128, 16, false);

macro_rules! float_uni {
	($($t:ty, $b:expr, $u:ty);*) => {$(
		impl Uni for $t {
			fn desc() -> String { format!("(TPrim {})", $b) }
			fn gen(r: &mut Rng, _d: u32) -> Self { <$t>::from_bits(r.biased(8 * $b) as $u) }
			fn val(&self) -> String { format!("(VN {})", self.to_bits()) }
			fn same(&self, o: &Self) -> bool { self.to_bits() == o.to_bits() }
			fn prim() -> Option<u32> { Some($b) }
			fn lebytes(&self, out: &mut Vec<u8>) { out.extend_from_slice(&self.to_le_bytes()) }
			fn min_wire() -> usize { $b }
		}
	)*};
}
float_uni!(f32, 4, u32; f64, 8, u64);

impl Uni for bool {
	fn desc() -> String {
		"TBool".into()
	}
	fn gen(r: &mut Rng, _d: u32) -> Self {
		r.chance(1, 2)
	}
	fn val(&self) -> String {
		format!("(VBool {})", self)
	}
	fn same(&self, o: &Self) -> bool {
		self == o
	}
	fn key_ok() -> bool {
		true
	}
	fn min_wire() -> usize {
		1
	}
}
impl Uni for () {
	fn desc() -> String {
		"TUnit".into()
	}
	fn gen(_: &mut Rng, _d: u32) -> Self {}
	fn val(&self) -> String {
		"VUnit".into()
	}
	fn same(&self, _: &Self) -> bool {
		true
	}
	fn key_ok() -> bool {
		true
	}
	fn min_wire() -> usize {
		0
	}
}
impl<T> Uni for PhantomData<T> {
	fn desc() -> String {
		"TUnit".into()
	}
	fn gen(_: &mut Rng, _d: u32) -> Self {
		PhantomData
	}
	fn val(&self) -> String {
		"VUnit".into()
	}
	fn same(&self, _: &Self) -> bool {
		true
	}
	fn min_wire() -> usize {
		0
	}
}

macro_rules! compact_uni {
	($($t:ty, $b:expr);*) => {$(
		impl Uni for Compact<$t> {
			fn desc() -> String { format!("(TCompact {})", $b) }
			fn gen(r: &mut Rng, _d: u32) -> Self { Compact(r.biased(8 * $b) as $t) }
			fn val(&self) -> String { format!("(VN {})", self.0) }
			fn same(&self, o: &Self) -> bool { self.0 == o.0 }
			fn key_ok() -> bool { true }
			fn min_wire() -> usize { 1 }
		}
	)*};
}
compact_uni!(u8, 1; u16, 2; u32, 4; u64, 8; u128, 16);

macro_rules! nz_uni {
	($($t:ty, $p:ty, $b:expr);*) => {$(
		impl Uni for $t {
			fn desc() -> String { format!("(TNonZero {})", $b) }
			fn gen(r: &mut Rng, d: u32) -> Self {
				loop { if let Some(x) = <$t>::new(<$p as Uni>::gen(r, d)) { return x; } }
			}
			fn val(&self) -> String { self.get().val() }
			fn same(&self, o: &Self) -> bool { self == o }
			fn min_wire() -> usize { $b }
		}
	)*};
}
nz_uni!(std::num::NonZeroU8, u8, 1; std::num::NonZeroU16, u16, 2; std::num::NonZeroU32, u32, 4;
	std::num::NonZeroU64, u64, 8; std::num::NonZeroU128, u128, 16;
	std::num::NonZeroI8, i8, 1; std::num::NonZeroI16, i16, 2; std::num::NonZeroI32, i32, 4;
	std::num::NonZeroI64, i64, 8; std::num::NonZeroI128, i128, 16);

impl<T: Uni> Uni for Option<T> {
	fn desc() -> String {
		format!("(TOption {})", T::desc())
	}
	fn gen(r: &mut Rng, d: u32) -> Self {
		if r.chance(1, 3) {
			None
		} else {
			Some(T::gen(r, d + 1))
		}
	}
	fn val(&self) -> String {
		match self {
			None => "VNone".into(),
			Some(x) => format!("(VSome {})", x.val()),
		}
	}
	fn val_enc(&self) -> String {
		match self {
			None => "VNone".into(),
			Some(x) => format!("(VSome {})", x.val_enc()),
		}
	}
	fn same(&self, o: &Self) -> bool {
		match (self, o) {
			(None, None) => true,
			(Some(a), Some(b)) => a.same(b),
			_ => false,
		}
	}
	fn depth(&self) -> u32 {
		self.as_ref().map_or(0, |x| x.depth())
	}
	fn payload(&self) -> u128 {
		self.as_ref().map_or(0, |x| x.payload())
	}
	fn key_ok() -> bool {
		T::key_ok()
	}
	fn mem_rate() -> usize {
		T::mem_rate()
	}
	fn mem_allow() -> usize {
		T::mem_allow()
	}
	fn zero_wire_container() -> bool {
		T::zero_wire_container()
	}
	fn min_wire() -> usize {
		1
	}
}
impl<T: Uni, E: Uni> Uni for Result<T, E> {
	fn desc() -> String {
		format!("(TResult {} {})", T::desc(), E::desc())
	}
	fn gen(r: &mut Rng, d: u32) -> Self {
		if r.chance(1, 2) {
			Ok(T::gen(r, d + 1))
		} else {
			Err(E::gen(r, d + 1))
		}
	}
	fn val(&self) -> String {
		match self {
			Ok(x) => format!("(VOk {})", x.val()),
			Err(x) => format!("(VErr {})", x.val()),
		}
	}
	fn val_enc(&self) -> String {
		match self {
			Ok(x) => format!("(VOk {})", x.val_enc()),
			Err(x) => format!("(VErr {})", x.val_enc()),
		}
	}
	fn same(&self, o: &Self) -> bool {
		match (self, o) {
			(Ok(a), Ok(b)) => a.same(b),
			(Err(a), Err(b)) => a.same(b),
			_ => false,
		}
	}
	fn depth(&self) -> u32 {
		match self {
			Ok(x) => x.depth(),
			Err(x) => x.depth(),
		}
	}
	fn payload(&self) -> u128 {
		match self {
			Ok(x) => x.payload(),
			Err(x) => x.payload(),
		}
	}
	fn key_ok() -> bool {
		T::key_ok() && E::key_ok()
	}
	fn mem_rate() -> usize {
		T::mem_rate().max(E::mem_rate())
	}
	fn mem_allow() -> usize {
		T::mem_allow().max(E::mem_allow())
	}
	fn zero_wire_container() -> bool {
		T::zero_wire_container() || E::zero_wire_container()
	}
	fn min_wire() -> usize {
		1
	}
}
impl Uni for OptionBool {
	fn desc() -> String {
		"TOptionBool".into()
	}
	fn gen(r: &mut Rng, _d: u32) -> Self {
		OptionBool(match r.below(3) {
			0 => None,
			1 => Some(true),
			_ => Some(false),
		})
	}
	fn val(&self) -> String {
		match self.0 {
			None => "VNone".into(),
			Some(b) => format!("(VSome (VBool {}))", b),
		}
	}
	fn same(&self, o: &Self) -> bool {
		self == o
	}
	fn min_wire() -> usize {
		1
	}
}

fn seq_val<'a, T: Uni + 'a>(it: impl Iterator<Item = &'a T>, enc: bool) -> String {
	if let Some(b) = T::prim() {
		let mut bytes = vec![];
		for x in it {
			x.lebytes(&mut bytes);
		}
		if b == 1 {
			format!("(vbytes {})", blist(&bytes))
		} else {
			format!("(vwords {} {})", b, blist(&bytes))
		}
	} else {
		let items: Vec<String> = it.map(|x| if enc { x.val_enc() } else { x.val() }).collect();
		format!("(VSeq [{}])", items.join("; "))
	}
}
fn all_same<'a, T: Uni + 'a>(a: impl Iterator<Item = &'a T>, b: impl Iterator<Item = &'a T>) -> bool {
	let a: Vec<&T> = a.collect();
	let b: Vec<&T> = b.collect();
	a.len() == b.len() && a.iter().zip(b.iter()).all(|(x, y)| x.same(y))
}
/// depth contribution of a sequence whose elements are decoded one by one
fn seq_depth<'a, T: Uni + 'a>(it: impl Iterator<Item = &'a T>) -> u32 {
	if T::prim().is_some() {
		0
	} else {
		1 + it.map(|x| x.depth()).max().unwrap_or(0)
	}
}

impl<T: Uni> Uni for Vec<T> {
	fn desc() -> String {
		format!("(TColl CVec {} {})", size_of::<T>(), T::desc())
	}
	fn gen(r: &mut Rng, d: u32) -> Self {
		let n = len_for(r, d, size_of::<T>().max(T::min_wire()));
		(0..n).map(|_| T::gen(r, d + 1)).collect()
	}
	fn val(&self) -> String {
		seq_val(self.iter(), false)
	}
	fn val_enc(&self) -> String {
		seq_val(self.iter(), true)
	}
	fn same(&self, o: &Self) -> bool {
		all_same(self.iter(), o.iter())
	}
	fn depth(&self) -> u32 {
		seq_depth(self.iter())
	}
	fn payload(&self) -> u128 {
		(self.len() * size_of::<T>()) as u128 + self.iter().map(|x| x.payload()).sum::<u128>()
	}
	fn key_ok() -> bool {
		T::key_ok()
	}
	fn mem_rate() -> usize {
		let per = if T::min_wire() == 0 { size_of::<T>() } else { (size_of::<T>() + T::min_wire() - 1) / T::min_wire() };
		per.max(1) + T::mem_rate() + T::mem_allow()
	}
	fn mem_allow() -> usize {
		16384 + T::mem_allow()
	}
	fn zst_seq() -> bool {
		T::min_wire() == 0
	}
	fn zero_wire_container() -> bool {
		T::min_wire() == 0 || T::zero_wire_container()
	}
	fn min_wire() -> usize {
		1
	}
}
impl<T: Uni> Uni for VecDeque<T> {
	fn desc() -> String {
		format!("(TColl CVec {} {})", size_of::<T>(), T::desc())
	}
	fn gen(r: &mut Rng, d: u32) -> Self {
		let v = Vec::<T>::gen(r, d);
		let mut q = VecDeque::with_capacity(v.len() + 3);
		// produce wrapped ring buffers: push part to the front
		let split = r.below(v.len() as u64 + 1) as usize;
		let mut v = v;
		let back: Vec<T> = v.drain(split..).collect();
		for x in v.into_iter().rev() {
			q.push_front(x);
		}
		for x in back {
			q.push_back(x);
		}
		q
	}
	fn val(&self) -> String {
		seq_val(self.iter(), false)
	}
	fn val_enc(&self) -> String {
		seq_val(self.iter(), true)
	}
	fn same(&self, o: &Self) -> bool {
		all_same(self.iter(), o.iter())
	}
	fn depth(&self) -> u32 {
		seq_depth(self.iter())
	}
	fn payload(&self) -> u128 {
		(self.len() * size_of::<T>()) as u128 + self.iter().map(|x| x.payload()).sum::<u128>()
	}
	fn mem_rate() -> usize {
		let per = if T::min_wire() == 0 { size_of::<T>() } else { (size_of::<T>() + T::min_wire() - 1) / T::min_wire() };
		per.max(1) + T::mem_rate() + T::mem_allow()
	}
	fn mem_allow() -> usize {
		16384 + T::mem_allow()
	}
	fn zst_seq() -> bool {
		T::min_wire() == 0
	}
	fn zero_wire_container() -> bool {
		T::min_wire() == 0 || T::zero_wire_container()
	}
	fn min_wire() -> usize {
		1
	}
}
impl<T: Uni + Ord> Uni for BinaryHeap<T> {
	fn desc() -> String {
		format!("(TColl CHeap {} {})", size_of::<T>(), T::desc())
	}
	fn gen(r: &mut Rng, d: u32) -> Self {
		Vec::<T>::gen(r, d.max(1)).into()
	}
	fn val(&self) -> String {
		let mut v: Vec<&T> = self.iter().collect();
		v.sort();
		seq_val(v.into_iter(), false)
	}
	fn val_enc(&self) -> String {
		seq_val(self.iter(), true)
	}
	fn same(&self, o: &Self) -> bool {
		let mut a: Vec<&T> = self.iter().collect();
		let mut b: Vec<&T> = o.iter().collect();
		a.sort();
		b.sort();
		a.len() == b.len() && a.iter().zip(b.iter()).all(|(x, y)| x.same(y))
	}
	fn depth(&self) -> u32 {
		seq_depth(self.iter())
	}
	fn payload(&self) -> u128 {
		(self.len() * size_of::<T>()) as u128 + self.iter().map(|x| x.payload()).sum::<u128>()
	}
	fn mem_rate() -> usize {
		let per = if T::min_wire() == 0 { size_of::<T>() } else { (size_of::<T>() + T::min_wire() - 1) / T::min_wire() };
		per.max(1) + T::mem_rate() + T::mem_allow()
	}
	fn mem_allow() -> usize {
		16384 + T::mem_allow()
	}
	fn zst_seq() -> bool {
		T::min_wire() == 0
	}
	fn zero_wire_container() -> bool {
		T::min_wire() == 0 || T::zero_wire_container()
	}
	fn min_wire() -> usize {
		1
	}
}
impl<T: Uni> Uni for LinkedList<T> {
	fn desc() -> String {
		format!("(TColl CList {} {})", size_of::<(usize, usize, T)>(), T::desc())
	}
	fn gen(r: &mut Rng, d: u32) -> Self {
		let n = len_for(r, d.max(1), 8);
		(0..n).map(|_| T::gen(r, d + 1)).collect()
	}
	fn val(&self) -> String {
		let items: Vec<String> = self.iter().map(|x| x.val()).collect();
		format!("(VSeq [{}])", items.join("; "))
	}
	fn val_enc(&self) -> String {
		let items: Vec<String> = self.iter().map(|x| x.val_enc()).collect();
		format!("(VSeq [{}])", items.join("; "))
	}
	fn same(&self, o: &Self) -> bool {
		all_same(self.iter(), o.iter())
	}
	fn depth(&self) -> u32 {
		1 + self.iter().map(|x| x.depth()).max().unwrap_or(0)
	}
	fn payload(&self) -> u128 {
		(self.len() * size_of::<T>()) as u128 + self.iter().map(|x| x.payload()).sum::<u128>()
	}
	fn mem_rate() -> usize {
		let node = size_of::<(usize, usize, T)>();
		let per = if T::min_wire() == 0 { node } else { (node + T::min_wire() - 1) / T::min_wire() };
		per + T::mem_rate() + T::mem_allow()
	}
	fn mem_allow() -> usize {
		64 + T::mem_allow()
	}
	fn zst_seq() -> bool {
		T::min_wire() == 0
	}
	fn zero_wire_container() -> bool {
		T::min_wire() == 0 || T::zero_wire_container()
	}
	fn min_wire() -> usize {
		1
	}
}
impl<T: Uni + Ord> Uni for BTreeSet<T> {
	fn desc() -> String {
		assert!(T::key_ok());
		format!("(TColl CSet {} {})", size_of::<(usize, u16, u16, [T; 11])>(), T::desc())
	}
	fn gen(r: &mut Rng, d: u32) -> Self {
		let n = len_for(r, d.max(1), 8);
		(0..n).map(|_| T::gen(r, d + 1)).collect()
	}
	fn val(&self) -> String {
		let items: Vec<String> = self.iter().map(|x| x.val()).collect();
		format!("(VSeq [{}])", items.join("; "))
	}
	fn same(&self, o: &Self) -> bool {
		all_same(self.iter(), o.iter())
	}
	fn depth(&self) -> u32 {
		1 + self.iter().map(|x| x.depth()).max().unwrap_or(0)
	}
	fn payload(&self) -> u128 {
		(self.len() * size_of::<T>()) as u128 + self.iter().map(|x| x.payload()).sum::<u128>()
	}
	fn mem_rate() -> usize {
		let leaf = size_of::<(usize, u16, u16, [T; 11])>() + 96;
		(leaf / 4 + 32) / T::min_wire().max(1) + T::mem_rate() + T::mem_allow()
	}
	fn mem_allow() -> usize {
		size_of::<(usize, u16, u16, [T; 11])>() + 96 + T::mem_allow()
	}
	fn zero_wire_container() -> bool {
		T::min_wire() == 0 || T::zero_wire_container()
	}
	fn min_wire() -> usize {
		1
	}
}
impl<K: Uni + Ord, V: Uni> Uni for BTreeMap<K, V> {
	fn desc() -> String {
		assert!(K::key_ok());
		format!(
			"(TColl CMap {} (TPair {} (TPair {} TUnit)))",
			size_of::<(usize, u16, u16, [(K, V); 11])>(),
			K::desc(),
			V::desc()
		)
	}
	fn gen(r: &mut Rng, d: u32) -> Self {
		let n = len_for(r, d.max(1), 8);
		(0..n).map(|_| (K::gen(r, d + 1), V::gen(r, d + 1))).collect()
	}
	fn val(&self) -> String {
		let items: Vec<String> =
			self.iter().map(|(k, v)| format!("(VPair {} (VPair {} VUnit))", k.val(), v.val())).collect();
		format!("(VSeq [{}])", items.join("; "))
	}
	fn val_enc(&self) -> String {
		let items: Vec<String> = self
			.iter()
			.map(|(k, v)| format!("(VPair {} (VPair {} VUnit))", k.val_enc(), v.val_enc()))
			.collect();
		format!("(VSeq [{}])", items.join("; "))
	}
	fn same(&self, o: &Self) -> bool {
		self.len() == o.len() && self.iter().zip(o.iter()).all(|((a, b), (c, d))| a.same(c) && b.same(d))
	}
	fn depth(&self) -> u32 {
		1 + self.iter().map(|(k, v)| k.depth().max(v.depth())).max().unwrap_or(0)
	}
	fn payload(&self) -> u128 {
		(self.len() * size_of::<(K, V)>()) as u128 + self.iter().map(|(k, v)| k.payload() + v.payload()).sum::<u128>()
	}
	fn mem_rate() -> usize {
		let leaf = size_of::<(usize, u16, u16, [(K, V); 11])>() + 96;
		(leaf / 4 + 32) / (K::min_wire() + V::min_wire()).max(1) + K::mem_rate() + V::mem_rate() + K::mem_allow() + V::mem_allow()
	}
	fn mem_allow() -> usize {
		size_of::<(usize, u16, u16, [(K, V); 11])>() + 96 + K::mem_allow() + V::mem_allow()
	}
	fn zero_wire_container() -> bool {
		K::min_wire() + V::min_wire() == 0 || K::zero_wire_container() || V::zero_wire_container()
	}
	fn min_wire() -> usize {
		1
	}
}

impl<T: Uni, const N: usize> Uni for [T; N] {
	fn desc() -> String {
		format!("(TArray {} {})", N, T::desc())
	}
	fn gen(r: &mut Rng, d: u32) -> Self {
		std::array::from_fn(|_| T::gen(r, d + 1))
	}
	fn val(&self) -> String {
		seq_val(self.iter(), false)
	}
	fn val_enc(&self) -> String {
		seq_val(self.iter(), true)
	}
	fn same(&self, o: &Self) -> bool {
		all_same(self.iter(), o.iter())
	}
	fn depth(&self) -> u32 {
		self.iter().map(|x| x.depth()).max().unwrap_or(0)
	}
	fn payload(&self) -> u128 {
		self.iter().map(|x| x.payload()).sum()
	}
	fn key_ok() -> bool {
		T::key_ok()
	}
	fn mem_rate() -> usize {
		T::mem_rate()
	}
	fn mem_allow() -> usize {
		N * T::mem_allow()
	}
	fn zero_wire_container() -> bool {
		T::zero_wire_container()
	}
	fn min_wire() -> usize {
		N * T::min_wire()
	}
}

impl Uni for String {
	fn desc() -> String {
		"TStr".into()
	}
	fn gen(r: &mut Rng, d: u32) -> Self {
		let n = len_for(r, d, 1);
		let mut s = String::new();
		let alphabet = ['a', 'Z', '0', ' ', '\u{7f}', '\u{80}', 'é', '\u{7ff}', '\u{800}', '€', '\u{d7ff}', '\u{e000}', '\u{ffff}', '\u{10000}', '😀', '\u{10ffff}', '\0'];
		while s.len() < n {
			s.push(*r.pick(&alphabet));
		}
		s
	}
	fn val(&self) -> String {
		format!("(vbytes {})", blist(self.as_bytes()))
	}
	fn same(&self, o: &Self) -> bool {
		self == o
	}
	fn payload(&self) -> u128 {
		self.len() as u128
	}
	fn key_ok() -> bool {
		true
	}
	fn mem_rate() -> usize {
		2
	}
	fn mem_allow() -> usize {
		16384
	}
	fn min_wire() -> usize {
		1
	}
}

macro_rules! box_uni {
	($($p:ident),*) => {$(
		impl<T: Uni> Uni for $p<T> {
			fn desc() -> String { format!("(TBox {} {})", size_of::<T>(), T::desc()) }
			fn gen(r: &mut Rng, d: u32) -> Self { $p::new(T::gen(r, d + 1)) }
			fn val(&self) -> String { (**self).val() }
			fn val_enc(&self) -> String { (**self).val_enc() }
			fn same(&self, o: &Self) -> bool { (**self).same(&**o) }
			fn depth(&self) -> u32 { 1 + (**self).depth() }
			fn payload(&self) -> u128 { size_of::<T>() as u128 + (**self).payload() }
			fn key_ok() -> bool { T::key_ok() }
			fn mem_rate() -> usize { T::mem_rate() }
			fn zero_wire_container() -> bool { T::zero_wire_container() }
			fn mem_allow() -> usize { size_of::<T>() + 64 + T::mem_allow() }
			fn min_wire() -> usize { T::min_wire() }
		}
	)*};
}
box_uni!(Box, Rc, Arc);

impl Uni for Duration {
	fn desc() -> String {
		"TDuration".into()
	}
	fn gen(r: &mut Rng, _d: u32) -> Self {
		let n = match r.below(4) {
			0 => 0,
			1 => 999_999_999,
			_ => r.below(1_000_000_000) as u32,
		};
		Duration::new(r.biased(64) as u64, n)
	}
	fn val(&self) -> String {
		format!("(VPair (VN {}) (VPair (VN {}) VUnit))", self.as_secs(), self.subsec_nanos())
	}
	fn same(&self, o: &Self) -> bool {
		self == o
	}
	fn min_wire() -> usize {
		12
	}
}
impl<T: Uni> Uni for std::ops::Range<T> {
	fn desc() -> String {
		format!("(TPair {} (TPair {} TUnit))", T::desc(), T::desc())
	}
	fn gen(r: &mut Rng, d: u32) -> Self {
		T::gen(r, d + 1)..T::gen(r, d + 1)
	}
	fn val(&self) -> String {
		format!("(VPair {} (VPair {} VUnit))", self.start.val(), self.end.val())
	}
	fn same(&self, o: &Self) -> bool {
		self.start.same(&o.start) && self.end.same(&o.end)
	}
	fn mem_rate() -> usize {
		T::mem_rate()
	}
	fn mem_allow() -> usize {
		2 * T::mem_allow()
	}
	fn min_wire() -> usize {
		2 * T::min_wire()
	}
}
impl<T: Uni> Uni for std::ops::RangeInclusive<T> {
	fn desc() -> String {
		format!("(TPair {} (TPair {} TUnit))", T::desc(), T::desc())
	}
	fn gen(r: &mut Rng, d: u32) -> Self {
		T::gen(r, d + 1)..=T::gen(r, d + 1)
	}
	fn val(&self) -> String {
		format!("(VPair {} (VPair {} VUnit))", self.start().val(), self.end().val())
	}
	fn same(&self, o: &Self) -> bool {
		self.start().same(o.start()) && self.end().same(o.end())
	}
	fn mem_rate() -> usize {
		T::mem_rate()
	}
	fn mem_allow() -> usize {
		2 * T::mem_allow()
	}
	fn min_wire() -> usize {
		2 * T::min_wire()
	}
}

#[cfg(not(feature = "no-opt"))]
mod optional {
	use super::*;
macro_rules! bits_uni {
	($($t:ty, $b:expr);*) => {$(
		impl Uni for BitVec<$t, Lsb0> {
			fn desc() -> String { format!("(TBits {} false)", $b) }
			fn gen(r: &mut Rng, d: u32) -> Self { gen_bits(r, d, |n| BitVec::<$t, Lsb0>::repeat(false, n), |v, i, b| v.set(i, b), |v, k| { let mut w = v.split_off(k); std::mem::swap(v, &mut w); }, |v, n| v.truncate(n)) }
			fn val(&self) -> String { bits_val(self.len(), self.iter().map(|b| *b)) }
			fn same(&self, o: &Self) -> bool { self == o }
			fn payload(&self) -> u128 { ((self.len() + 8 * $b - 1) / (8 * $b) * $b) as u128 }
			fn mem_rate() -> usize { 2 }
			fn mem_allow() -> usize { 16384 }
			fn min_wire() -> usize { 1 }
		}
		impl Uni for BitVec<$t, Msb0> {
			fn desc() -> String { format!("(TBits {} true)", $b) }
			fn gen(r: &mut Rng, d: u32) -> Self { gen_bits(r, d, |n| BitVec::<$t, Msb0>::repeat(false, n), |v, i, b| v.set(i, b), |v, k| { let mut w = v.split_off(k); std::mem::swap(v, &mut w); }, |v, n| v.truncate(n)) }
			fn val(&self) -> String { bits_val(self.len(), self.iter().map(|b| *b)) }
			fn same(&self, o: &Self) -> bool { self == o }
			fn payload(&self) -> u128 { ((self.len() + 8 * $b - 1) / (8 * $b) * $b) as u128 }
			fn mem_rate() -> usize { 2 }
			fn mem_allow() -> usize { 16384 }
			fn min_wire() -> usize { 1 }
		}
	)*};
}
fn bits_val(n: usize, it: impl Iterator<Item = bool>) -> String {
	let mut bytes = vec![0u8; (n + 7) / 8];
	for (i, b) in it.enumerate() {
		if b {
			bytes[i / 8] |= 1 << (i % 8);
		}
	}
	format!("(vbitsn {} {})", n, blist(&bytes))
}
fn gen_bits<V>(r: &mut Rng, d: u32, mk: impl Fn(usize) -> V, set: impl Fn(&mut V, usize, bool), drop_front: impl Fn(&mut V, usize), trunc: impl Fn(&mut V, usize)) -> V {
	let n = match r.below(8) {
		0 => 0,
		1 => r.range(1, 9) as usize,
		2 => *r.pick(&[15usize, 16, 17, 31, 32, 33, 63, 64, 65, 127, 128, 129]),
		3 if d == 0 => 8 * 16384 + r.below(3) as usize - 1,
		_ => r.below(140) as usize,
	};
	// build with a head offset and dirty dead bits: allocate k extra bits in front and t behind,
	// set them at random, then drop the front ones and truncate the rear ones (the storage words
	// keep whatever the dropped bits held; a third of the values start at bit 0 of their store)
	let k = if r.chance(1, 3) { 0 } else { r.below(20) as usize };
	let t = r.below(12) as usize;
	let mut v = mk(n + k + t);
	for i in 0..n + k + t {
		set(&mut v, i, r.chance(1, 2));
	}
	drop_front(&mut v, k);
	trunc(&mut v, n);
	v
}
bits_uni!(u8, 1; u16, 2; u32, 4; u64, 8);
/// BitBox: the same wire format through its own Decode impl
impl Uni for bitvec::boxed::BitBox<u8, Msb0> {
	fn desc() -> String { <BitVec<u8, Msb0> as Uni>::desc() }
	fn gen(r: &mut Rng, d: u32) -> Self { <BitVec<u8, Msb0> as Uni>::gen(r, d).into_boxed_bitslice() }
	fn val(&self) -> String { bits_val(self.len(), self.iter().map(|b| *b)) }
	fn same(&self, o: &Self) -> bool { self == o }
	fn payload(&self) -> u128 { ((self.len() + 7) / 8) as u128 }
	fn mem_rate() -> usize { 3 }
	fn mem_allow() -> usize { 16384 }
	fn min_wire() -> usize { 1 }
}
impl Uni for bitvec::boxed::BitBox<u32, Lsb0> {
	fn desc() -> String { <BitVec<u32, Lsb0> as Uni>::desc() }
	fn gen(r: &mut Rng, d: u32) -> Self { <BitVec<u32, Lsb0> as Uni>::gen(r, d).into_boxed_bitslice() }
	fn val(&self) -> String { bits_val(self.len(), self.iter().map(|b| *b)) }
	fn same(&self, o: &Self) -> bool { self == o }
	fn payload(&self) -> u128 { ((self.len() + 31) / 32 * 4) as u128 }
	fn mem_rate() -> usize { 3 }
	fn mem_allow() -> usize { 16384 }
	fn min_wire() -> usize { 1 }
}

impl Uni for bytes::Bytes {
	fn desc() -> String {
		"(TColl CVec 1 (TPrim 1))".into()
	}
	fn gen(r: &mut Rng, d: u32) -> Self {
		bytes::Bytes::from(Vec::<u8>::gen(r, d))
	}
	fn val(&self) -> String {
		format!("(vbytes {})", blist(self))
	}
	fn same(&self, o: &Self) -> bool {
		self == o
	}
	fn payload(&self) -> u128 {
		self.len() as u128
	}
	fn mem_rate() -> usize {
		3
	}
	fn mem_allow() -> usize {
		16384 + 128
	}
	fn min_wire() -> usize {
		1
	}
}

}

// tuples: right-nested pairs ending in TUnit
macro_rules! tuple_uni {
	($(($($n:ident $i:tt),+));*) => {$(
		impl<$($n: Uni),+> Uni for ($($n,)+) {
			fn desc() -> String {
				let parts: Vec<String> = vec![$($n::desc()),+];
				nest("TPair", "TUnit", &parts)
			}
			fn gen(r: &mut Rng, d: u32) -> Self { ($($n::gen(r, d + 1),)+) }
			fn val(&self) -> String { nest("VPair", "VUnit", &[$(self.$i.val()),+]) }
			fn val_enc(&self) -> String { nest("VPair", "VUnit", &[$(self.$i.val_enc()),+]) }
			fn same(&self, o: &Self) -> bool { true $(&& self.$i.same(&o.$i))+ }
			fn depth(&self) -> u32 { 0 $(.max(self.$i.depth()))+ }
			fn payload(&self) -> u128 { 0 $(+ self.$i.payload())+ }
			fn key_ok() -> bool { true $(&& $n::key_ok())+ }
			fn mem_rate() -> usize { 0 $(.max($n::mem_rate()))+ }
			fn zero_wire_container() -> bool { false $(|| $n::zero_wire_container())+ }
			fn mem_allow() -> usize { 0 $(+ $n::mem_allow())+ }
			fn min_wire() -> usize { 0 $(+ $n::min_wire())+ }
		}
	)*};
}
pub fn nest(c: &str, nil: &str, parts: &[String]) -> String {
	let mut s = nil.to_string();
	for p in parts.iter().rev() {
		s = format!("({c} {p} {s})");
	}
	s
}
tuple_uni!((A 0); (A 0, B 1); (A 0, B 1, C 2); (A 0, B 1, C 2, D 3); (A 0, B 1, C 2, D 3, E 4);
	(A 0, B 1, C 2, D 3, E 4, F 5, G 6, H 7, I 8, J 9, K 10, L 11, M 12, N 13, O 14, P 15, Q 16, R 17));

// ------------------------------------------------------------------ derived types
#[derive(Encode, Decode, DecodeWithMemTracking, MaxEncodedLen, Debug, PartialEq, Clone)]
pub struct S1 {
	pub a: u8,
	pub b: u32,
}
#[derive(Encode, Decode, DecodeWithMemTracking, Debug, PartialEq, Clone)]
pub struct S2(pub Vec<u16>, pub Option<bool>);
#[derive(Encode, Decode, DecodeWithMemTracking, MaxEncodedLen, Debug, PartialEq, Clone)]
pub struct UnitS;
#[derive(Encode, Decode, DecodeWithMemTracking, MaxEncodedLen, Debug, PartialEq, Clone)]
pub struct Nt(pub u32);
#[derive(Encode, Decode, DecodeWithMemTracking, Debug, PartialEq, Clone)]
pub struct Cp {
	#[codec(compact)]
	pub a: u64,
	pub b: u8,
	#[codec(compact)]
	pub c: u16,
}
#[derive(Encode, Decode, DecodeWithMemTracking, MaxEncodedLen, Debug, PartialEq, Clone)]
pub struct Sk {
	pub a: u16,
	#[codec(skip)]
	pub s: u32,
	pub b: bool,
}
#[derive(Encode, Decode, DecodeWithMemTracking, Debug, PartialEq, Clone)]
pub enum E1 {
	A,
	B(u8),
	C { x: u16, y: Vec<u8> },
	#[codec(index = 9)]
	D(S1),
	#[codec(skip)]
	#[allow(dead_code)]
	Z,
	E(Box<u64>),
}
#[derive(Encode, Decode, DecodeWithMemTracking, MaxEncodedLen, Debug, PartialEq, Clone, Copy)]
pub enum Disc {
	A = 3,
	B = 7,
	C,
	#[codec(index = 200)]
	D = 1,
}
#[derive(Encode, Decode, DecodeWithMemTracking, MaxEncodedLen, Debug, PartialEq, Clone)]
pub struct G<T> {
	pub t: T,
	pub n: u8,
}
#[derive(Encode, Decode, DecodeWithMemTracking, MaxEncodedLen, Debug, PartialEq, Clone)]
#[repr(transparent)]
pub struct Tr(pub [u16; 3]);

/// transparent newtypes whose field has an attribute: the in-place `decode_into` generated for
/// `#[repr(transparent)]` must not be used for them (only reachable through Box / arrays)
#[derive(Encode, Decode, DecodeWithMemTracking, Debug, PartialEq, Clone)]
#[repr(transparent)]
pub struct TrC(#[codec(compact)] pub u64, pub PhantomData<u8>);
#[derive(Encode, Decode, DecodeWithMemTracking, Debug, PartialEq, Clone)]
#[repr(transparent)]
pub struct TrK(#[codec(compact)] pub u32);
#[derive(Encode, Decode, DecodeWithMemTracking, Debug, PartialEq, Clone)]
#[repr(transparent)]
pub struct TrP(pub PhantomData<u16>, pub [u8; 3], #[codec(skip)] pub ());
/// every field skipped: a type that occupies memory but no wire bytes
#[derive(Encode, Decode, DecodeWithMemTracking, Debug, PartialEq, Clone, Default)]
pub struct AllSk {
	#[codec(skip)]
	pub a: u32,
	#[codec(skip)]
	pub b: u8,
}
impl Uni for TrC {
	fn desc() -> String {
		nest("TPair", "TUnit", &["(TCompact 8)".into(), "TUnit".into()])
	}
	fn gen(r: &mut Rng, d: u32) -> Self {
		TrC(u64::gen(r, d), PhantomData)
	}
	fn val(&self) -> String {
		nest("VPair", "VUnit", &[format!("(VN {})", self.0), "VUnit".into()])
	}
	fn same(&self, o: &Self) -> bool {
		self == o
	}
	fn min_wire() -> usize {
		1
	}
}
impl Uni for TrK {
	fn desc() -> String {
		nest("TPair", "TUnit", &["(TCompact 4)".into()])
	}
	fn gen(r: &mut Rng, d: u32) -> Self {
		TrK(u32::gen(r, d))
	}
	fn val(&self) -> String {
		nest("VPair", "VUnit", &[format!("(VN {})", self.0)])
	}
	fn same(&self, o: &Self) -> bool {
		self == o
	}
	fn min_wire() -> usize {
		1
	}
}
impl Uni for TrP {
	fn desc() -> String {
		nest("TPair", "TUnit", &["TUnit".into(), <[u8; 3]>::desc()])
	}
	fn gen(r: &mut Rng, d: u32) -> Self {
		TrP(PhantomData, Uni::gen(r, d), ())
	}
	fn val(&self) -> String {
		nest("VPair", "VUnit", &["VUnit".into(), self.1.val()])
	}
	fn same(&self, o: &Self) -> bool {
		self == o
	}
	fn min_wire() -> usize {
		3
	}
}
/// a zero-sized type whose encoding is one byte (single-variant enum), alone and as the last
/// field of a transparent newtype; enums with exactly one encodable variant
#[derive(Encode, Decode, DecodeWithMemTracking, MaxEncodedLen, Debug, PartialEq, Clone, Copy, Default)]
pub enum Unit1 {
	#[default]
	#[codec(index = 9)]
	Only,
}
#[derive(Encode, Decode, DecodeWithMemTracking, MaxEncodedLen, Debug, PartialEq, Clone)]
#[repr(transparent)]
pub struct TrE(pub u16, pub Unit1);
#[derive(Encode, Decode, DecodeWithMemTracking, MaxEncodedLen, Debug, PartialEq, Clone)]
pub enum OneV {
	A(u32, u8),
}
#[derive(Encode, Decode, DecodeWithMemTracking, MaxEncodedLen, Debug, PartialEq, Clone)]
pub enum OneSk {
	// skipped variants do not count for the implicit index: B is variant 0 on the wire
	#[codec(skip)]
	S(u64),
	B(u16),
}
/// a transparent newtype whose only field is zero-sized in memory but not on the wire
#[derive(Encode, Decode, DecodeWithMemTracking, MaxEncodedLen, Debug, PartialEq, Clone)]
#[repr(transparent)]
pub struct TrU(pub Unit1);
impl Uni for TrU {
	fn desc() -> String {
		nest("TPair", "TUnit", &[Unit1::desc()])
	}
	fn gen(_: &mut Rng, _: u32) -> Self {
		TrU(Unit1::Only)
	}
	fn val(&self) -> String {
		nest("VPair", "VUnit", &[self.0.val()])
	}
	fn same(&self, o: &Self) -> bool {
		self == o
	}
	fn min_wire() -> usize {
		1
	}
}
impl Uni for Unit1 {
	fn desc() -> String {
		"(TEnum (VsCons 9 TUnit VsNil))".into()
	}
	fn gen(_: &mut Rng, _: u32) -> Self {
		Unit1::Only
	}
	fn val(&self) -> String {
		"(VVar 0 VUnit)".into()
	}
	fn same(&self, o: &Self) -> bool {
		self == o
	}
	fn min_wire() -> usize {
		1
	}
}
impl Uni for TrE {
	fn desc() -> String {
		nest("TPair", "TUnit", &[u16::desc(), Unit1::desc()])
	}
	fn gen(r: &mut Rng, d: u32) -> Self {
		TrE(u16::gen(r, d), Unit1::Only)
	}
	fn val(&self) -> String {
		nest("VPair", "VUnit", &[self.0.val(), self.1.val()])
	}
	fn same(&self, o: &Self) -> bool {
		self == o
	}
	fn min_wire() -> usize {
		3
	}
}
impl Uni for OneV {
	fn desc() -> String {
		format!("(TEnum (VsCons 0 {} VsNil))", nest("TPair", "TUnit", &[u32::desc(), u8::desc()]))
	}
	fn gen(r: &mut Rng, d: u32) -> Self {
		OneV::A(u32::gen(r, d), u8::gen(r, d))
	}
	fn val(&self) -> String {
		let OneV::A(a, b) = self;
		format!("(VVar 0 {})", nest("VPair", "VUnit", &[a.val(), b.val()]))
	}
	fn same(&self, o: &Self) -> bool {
		self == o
	}
	fn min_wire() -> usize {
		6
	}
}
impl Uni for OneSk {
	fn desc() -> String {
		format!("(TEnum (VsCons 0 {} VsNil))", nest("TPair", "TUnit", &[u16::desc()]))
	}
	fn gen(r: &mut Rng, d: u32) -> Self {
		OneSk::B(u16::gen(r, d))
	}
	fn val(&self) -> String {
		match self {
			OneSk::B(a) => format!("(VVar 0 {})", nest("VPair", "VUnit", &[a.val()])),
			OneSk::S(_) => "(VVar 99 VUnit)".into(),
		}
	}
	fn same(&self, o: &Self) -> bool {
		self == o
	}
	fn min_wire() -> usize {
		3
	}
}
/// one encoded primitive field next to a skipped field that occupies memory: the derive's
/// single-field forwarding applies, the memory image is NOT the encoding
#[derive(Encode, Decode, DecodeWithMemTracking, MaxEncodedLen, Debug, PartialEq, Clone)]
pub struct SkP {
	pub a: u32,
	#[codec(skip)]
	pub junk: u64,
}
/// struct-like variants whose explicit index differs from their position
#[derive(Encode, Decode, DecodeWithMemTracking, MaxEncodedLen, Debug, PartialEq, Clone)]
pub enum EN {
	#[codec(index = 4)]
	P { a: u8 },
	Q,
	#[codec(index = 0)]
	R { b: u16, c: bool },
}
impl Uni for EN {
	fn desc() -> String {
		format!(
			"(TEnum (VsCons 4 {} (VsCons 1 TUnit (VsCons 0 {} VsNil))))",
			nest("TPair", "TUnit", &[u8::desc()]),
			nest("TPair", "TUnit", &[u16::desc(), bool::desc()])
		)
	}
	fn gen(r: &mut Rng, d: u32) -> Self {
		match r.below(3) {
			0 => EN::P { a: u8::gen(r, d) },
			1 => EN::Q,
			_ => EN::R { b: u16::gen(r, d), c: bool::gen(r, d) },
		}
	}
	fn val(&self) -> String {
		match self {
			EN::P { a } => format!("(VVar 0 {})", nest("VPair", "VUnit", &[a.val()])),
			EN::Q => "(VVar 1 VUnit)".into(),
			EN::R { b, c } => format!("(VVar 2 {})", nest("VPair", "VUnit", &[b.val(), c.val()])),
		}
	}
	fn same(&self, o: &Self) -> bool {
		self == o
	}
	fn min_wire() -> usize {
		1
	}
}
/// a field-less enum with a skipped variant before positional ones
#[derive(Encode, Decode, DecodeWithMemTracking, MaxEncodedLen, Debug, PartialEq, Clone, Copy)]
pub enum FS {
	A,
	#[codec(skip)]
	#[allow(dead_code)]
	S,
	B,
	#[codec(index = 0x10)]
	H,
	C,
}
impl Uni for FS {
	fn desc() -> String {
		"(TEnum (VsCons 0 TUnit (VsCons 1 TUnit (VsCons 16 TUnit (VsCons 3 TUnit VsNil)))))".into()
	}
	fn gen(r: &mut Rng, _d: u32) -> Self {
		*r.pick(&[FS::A, FS::B, FS::H, FS::C])
	}
	fn val(&self) -> String {
		format!("(VVar {} VUnit)", match self {
			FS::A => 0,
			FS::B => 1,
			FS::H => 2,
			FS::C => 3,
			FS::S => 99,
		})
	}
	fn same(&self, o: &Self) -> bool {
		self == o
	}
	fn min_wire() -> usize {
		1
	}
}
impl Uni for SkP {
	fn desc() -> String {
		nest("TPair", "TUnit", &[u32::desc()])
	}
	fn gen(r: &mut Rng, d: u32) -> Self {
		// the skipped field holds anything: it must not reach the wire (decode resets it)
		SkP { a: u32::gen(r, d), junk: r.next() | 1 }
	}
	fn val(&self) -> String {
		nest("VPair", "VUnit", &[self.a.val()])
	}
	fn same(&self, o: &Self) -> bool {
		self.a == o.a
	}
	fn min_wire() -> usize {
		4
	}
}
impl Uni for AllSk {
	fn desc() -> String {
		"TUnit".into()
	}
	fn gen(_: &mut Rng, _: u32) -> Self {
		AllSk::default()
	}
	fn val(&self) -> String {
		"VUnit".into()
	}
	fn same(&self, o: &Self) -> bool {
		self == o
	}
	fn min_wire() -> usize {
		0
	}
}
impl Uni for S1 {
	fn desc() -> String {
		nest("TPair", "TUnit", &[u8::desc(), u32::desc()])
	}
	fn gen(r: &mut Rng, d: u32) -> Self {
		S1 { a: u8::gen(r, d), b: u32::gen(r, d) }
	}
	fn val(&self) -> String {
		nest("VPair", "VUnit", &[self.a.val(), self.b.val()])
	}
	fn same(&self, o: &Self) -> bool {
		self == o
	}
	fn key_ok() -> bool {
		false
	}
	fn min_wire() -> usize {
		5
	}
}
impl Uni for S2 {
	fn desc() -> String {
		nest("TPair", "TUnit", &[Vec::<u16>::desc(), Option::<bool>::desc()])
	}
	fn gen(r: &mut Rng, d: u32) -> Self {
		S2(Uni::gen(r, d + 1), Uni::gen(r, d + 1))
	}
	fn val(&self) -> String {
		nest("VPair", "VUnit", &[self.0.val(), self.1.val()])
	}
	fn same(&self, o: &Self) -> bool {
		self == o
	}
	fn depth(&self) -> u32 {
		self.0.depth()
	}
	fn payload(&self) -> u128 {
		self.0.payload()
	}
	fn mem_rate() -> usize {
		Vec::<u16>::mem_rate()
	}
	fn mem_allow() -> usize {
		Vec::<u16>::mem_allow()
	}
	fn min_wire() -> usize {
		2
	}
}
impl Uni for UnitS {
	fn desc() -> String {
		"TUnit".into()
	}
	fn gen(_: &mut Rng, _: u32) -> Self {
		UnitS
	}
	fn val(&self) -> String {
		"VUnit".into()
	}
	fn same(&self, _: &Self) -> bool {
		true
	}
	fn min_wire() -> usize {
		0
	}
}
impl Uni for Nt {
	fn desc() -> String {
		nest("TPair", "TUnit", &[u32::desc()])
	}
	fn gen(r: &mut Rng, d: u32) -> Self {
		Nt(u32::gen(r, d))
	}
	fn val(&self) -> String {
		nest("VPair", "VUnit", &[self.0.val()])
	}
	fn same(&self, o: &Self) -> bool {
		self == o
	}
	fn min_wire() -> usize {
		4
	}
}
impl Uni for Cp {
	fn desc() -> String {
		nest("TPair", "TUnit", &["(TCompact 8)".into(), u8::desc(), "(TCompact 2)".into()])
	}
	fn gen(r: &mut Rng, d: u32) -> Self {
		Cp { a: u64::gen(r, d), b: u8::gen(r, d), c: u16::gen(r, d) }
	}
	fn val(&self) -> String {
		nest("VPair", "VUnit", &[format!("(VN {})", self.a), self.b.val(), format!("(VN {})", self.c)])
	}
	fn same(&self, o: &Self) -> bool {
		self == o
	}
	fn min_wire() -> usize {
		3
	}
}
impl Uni for Sk {
	fn desc() -> String {
		nest("TPair", "TUnit", &[u16::desc(), bool::desc()])
	}
	fn gen(r: &mut Rng, d: u32) -> Self {
		// skipped field at its default so that round trips compare equal
		Sk { a: u16::gen(r, d), s: 0, b: bool::gen(r, d) }
	}
	fn val(&self) -> String {
		nest("VPair", "VUnit", &[self.a.val(), self.b.val()])
	}
	fn same(&self, o: &Self) -> bool {
		self == o
	}
	fn min_wire() -> usize {
		3
	}
}
impl Uni for E1 {
	fn desc() -> String {
		let vs = [
			(0, "TUnit".to_string()),
			(1, nest("TPair", "TUnit", &[u8::desc()])),
			(2, nest("TPair", "TUnit", &[u16::desc(), Vec::<u8>::desc()])),
			(9, nest("TPair", "TUnit", &[S1::desc()])),
			(4, nest("TPair", "TUnit", &[Box::<u64>::desc()])),
		];
		let mut s = "VsNil".to_string();
		for (i, t) in vs.iter().rev() {
			s = format!("(VsCons {i} {t} {s})");
		}
		format!("(TEnum {s})")
	}
	fn gen(r: &mut Rng, d: u32) -> Self {
		match r.below(5) {
			0 => E1::A,
			1 => E1::B(u8::gen(r, d)),
			2 => E1::C { x: u16::gen(r, d), y: Uni::gen(r, d + 1) },
			3 => E1::D(S1::gen(r, d)),
			_ => E1::E(Uni::gen(r, d)),
		}
	}
	fn val(&self) -> String {
		match self {
			E1::A => "(VVar 0 VUnit)".into(),
			E1::B(x) => format!("(VVar 1 {})", nest("VPair", "VUnit", &[x.val()])),
			E1::C { x, y } => format!("(VVar 2 {})", nest("VPair", "VUnit", &[x.val(), y.val()])),
			E1::D(s) => format!("(VVar 3 {})", nest("VPair", "VUnit", &[s.val()])),
			E1::Z => "(VVar 99 VUnit)".into(),
			E1::E(b) => format!("(VVar 4 {})", nest("VPair", "VUnit", &[b.val()])),
		}
	}
	fn same(&self, o: &Self) -> bool {
		self == o
	}
	fn depth(&self) -> u32 {
		match self {
			E1::E(_) => 1,
			_ => 0,
		}
	}
	fn payload(&self) -> u128 {
		match self {
			E1::C { y, .. } => y.payload(),
			E1::E(b) => b.payload(),
			_ => 0,
		}
	}
	fn mem_rate() -> usize {
		Vec::<u8>::mem_rate()
	}
	fn mem_allow() -> usize {
		Vec::<u8>::mem_allow() + 128
	}
	fn min_wire() -> usize {
		1
	}
}
impl Uni for Disc {
	fn desc() -> String {
		"(TEnum (VsCons 3 TUnit (VsCons 7 TUnit (VsCons 2 TUnit (VsCons 200 TUnit VsNil)))))".into()
	}
	fn gen(r: &mut Rng, _d: u32) -> Self {
		*r.pick(&[Disc::A, Disc::B, Disc::C, Disc::D])
	}
	fn val(&self) -> String {
		format!("(VVar {} VUnit)", match self {
			Disc::A => 0,
			Disc::B => 1,
			Disc::C => 2,
			Disc::D => 3,
		})
	}
	fn same(&self, o: &Self) -> bool {
		self == o
	}
	fn min_wire() -> usize {
		1
	}
}
impl<T: Uni> Uni for G<T> {
	fn desc() -> String {
		nest("TPair", "TUnit", &[T::desc(), u8::desc()])
	}
	fn gen(r: &mut Rng, d: u32) -> Self {
		G { t: T::gen(r, d + 1), n: u8::gen(r, d) }
	}
	fn val(&self) -> String {
		nest("VPair", "VUnit", &[self.t.val(), self.n.val()])
	}
	fn val_enc(&self) -> String {
		nest("VPair", "VUnit", &[self.t.val_enc(), self.n.val()])
	}
	fn same(&self, o: &Self) -> bool {
		self.t.same(&o.t) && self.n == o.n
	}
	fn depth(&self) -> u32 {
		self.t.depth()
	}
	fn payload(&self) -> u128 {
		self.t.payload()
	}
	fn mem_rate() -> usize {
		T::mem_rate()
	}
	fn mem_allow() -> usize {
		T::mem_allow()
	}
	fn zero_wire_container() -> bool {
		T::zero_wire_container()
	}
	fn min_wire() -> usize {
		T::min_wire() + 1
	}
}
impl Uni for Tr {
	fn desc() -> String {
		nest("TPair", "TUnit", &[<[u16; 3]>::desc()])
	}
	fn gen(r: &mut Rng, d: u32) -> Self {
		Tr(Uni::gen(r, d))
	}
	fn val(&self) -> String {
		nest("VPair", "VUnit", &[self.0.val()])
	}
	fn same(&self, o: &Self) -> bool {
		self == o
	}
	fn min_wire() -> usize {
		6
	}
}
