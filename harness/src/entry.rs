//! C07 — the default methods of the `Encode` trait: hand-written impls overriding every non-empty
//! subset of {encode_to, encode, using_encoded} (with and without an encoded_size override), with
//! consistent and with deliberately different byte strings per override, so that the call graph of
//! the defaults is observed; the model is `Entry.resolve`.
use crate::common::*;
use parity_scale_codec::{Encode, Output};
use std::panic::{catch_unwind, AssertUnwindSafe};

pub struct D {
	pub to: Vec<Vec<u8>>,
	pub enc: Vec<u8>,
	pub us: Vec<u8>,
	pub size: usize,
}

macro_rules! m_to {
	() => {
		fn encode_to<W: Output + ?Sized>(&self, dest: &mut W) {
			for w in &self.0.to {
				dest.write(w);
			}
		}
	};
}
macro_rules! m_enc {
	() => {
		fn encode(&self) -> Vec<u8> {
			self.0.enc.clone()
		}
	};
}
macro_rules! m_us {
	() => {
		fn using_encoded<R, F: FnOnce(&[u8]) -> R>(&self, f: F) -> R {
			f(&self.0.us)
		}
	};
}
macro_rules! m_sz {
	() => {
		fn encoded_size(&self) -> usize {
			self.0.size
		}
	};
}
macro_rules! ety {
	($name:ident; $($m:ident),*) => {
		pub struct $name(pub D);
		impl Encode for $name {
			$( $m!(); )*
		}
	};
}
ety!(T1; m_to);
ety!(T2; m_enc);
ety!(T3; m_to, m_enc);
ety!(T4; m_us);
ety!(T5; m_to, m_us);
ety!(T6; m_enc, m_us);
ety!(T7; m_to, m_enc, m_us);
ety!(S1; m_to, m_sz);
ety!(S2; m_enc, m_sz);
ety!(S3; m_to, m_enc, m_sz);
ety!(S4; m_us, m_sz);
ety!(S5; m_to, m_us, m_sz);
ety!(S6; m_enc, m_us, m_sz);
ety!(S7; m_to, m_enc, m_us, m_sz);

fn opt_bytes(on: bool, b: &[u8]) -> String {
	if on {
		format!("(Some {})", blist(b))
	} else {
		"None".into()
	}
}

fn observe<T: Encode>(cases: &mut Cases, oracle: &mut Oracle, stats: &mut Stats, name: &str, mask: u32, sz: bool, x: &T, d: &D, consistent: bool) {
	let r = catch_unwind(AssertUnwindSafe(|| {
		let enc = x.encode();
		let mut to = vec![];
		x.encode_to(&mut to);
		let us = x.using_encoded(|s| s.to_vec());
		let size = x.encoded_size();
		(enc, to, us, size)
	}));
	stats.bump(&format!("entry/{}{}", name, if consistent { "/consistent" } else { "/distinct" }));
	let Ok((enc, to, us, size)) = r else {
		oracle.check(false, "entry-point-panic", || name.to_string());
		return;
	};
	if consistent {
		oracle.check(enc == to && to == us && size == enc.len(), "entry-points-differ", || {
			format!("{name}: encode={} encode_to={} using_encoded={} encoded_size={size}", hex(&enc), hex(&to), hex(&us))
		});
	}
	let ws = format!("[{}]", d.to.iter().map(|w| blist(w)).collect::<Vec<_>>().join("; "));
	let term = format!(
		"(KEntry {{| o_encode_to := {}; o_encode := {}; o_using := {}; o_size := {} |}} {} {} {} {})",
		if mask & 1 != 0 { format!("(Some {ws})") } else { "None".into() },
		opt_bytes(mask & 2 != 0, &d.enc),
		opt_bytes(mask & 4 != 0, &d.us),
		if sz { format!("(Some {})", d.size) } else { "None".into() },
		blist(&enc),
		blist(&to),
		blist(&us),
		size
	);
	cases.push(term, format!("{name}\tentry"), true);
}

pub fn run(seed: u64, thorough: bool, out: &std::path::Path, oracle: &mut Oracle, stats: &mut Stats) -> (usize, usize) {
	let mut rng = Rng::new(seed ^ 0x07e);
	let mut cases = Cases::new("Require Import Scale.Bytes Scale.Hex Scale.Entry.", "ecase", "e_check");
	let rounds = if thorough { 200 } else { 12 };
	for round in 0..rounds {
		let consistent = round % 2 == 0;
		let n1 = rng.below(6) as usize;
		let base = rng.bytes(n1);
		let data = |rng: &mut Rng| -> D {
			if consistent {
				// one byte string, written in up to three pieces
				let k = if base.is_empty() { 0 } else { rng.below(base.len() as u64 + 1) as usize };
				D { to: vec![base[..k].to_vec(), vec![], base[k..].to_vec()], enc: base.clone(), us: base.clone(), size: base.len() }
			} else {
				let (a, b, c) = (rng.below(5) as usize, rng.below(5) as usize, rng.below(5) as usize);
				D { to: vec![rng.bytes(a), rng.bytes(1)], enc: rng.bytes(b + 2), us: rng.bytes(c + 3), size: 40 + rng.below(9) as usize }
			}
		};
		macro_rules! go {
			($t:ident, $mask:expr, $sz:expr) => {{
				let d = data(&mut rng);
				let d2 = D { to: d.to.clone(), enc: d.enc.clone(), us: d.us.clone(), size: d.size };
				let x = $t(d);
				observe(&mut cases, oracle, stats, stringify!($t), $mask, $sz, &x, &d2, consistent);
			}};
		}
		go!(T1, 1, false);
		go!(T2, 2, false);
		go!(T3, 3, false);
		go!(T4, 4, false);
		go!(T5, 5, false);
		go!(T6, 6, false);
		go!(T7, 7, false);
		go!(S1, 1, true);
		go!(S2, 2, true);
		go!(S3, 3, true);
		go!(S4, 4, true);
		go!(S5, 5, true);
		go!(S6, 6, true);
		go!(S7, 7, true);
	}
	cases.write(out, "c07e", 1);
	(cases.len(), cases.nontrivial)
}
