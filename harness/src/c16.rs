//! C16 — every EncodeLike family, used through the trait bound: `A: EncodeLike<B>` must
//! produce bytes that decode as B to the corresponding value (and, for the aliases that
//! stand for a value, byte-for-byte its encoding).
use crate::common::*;
use crate::registry::*;
use crate::universe::Uni;
use parity_scale_codec::{CompactRef, Decode, Encode, EncodeLike, Ref};
use std::borrow::Cow;
use std::panic::{catch_unwind, AssertUnwindSafe};

pub struct Cx {
	pub rng: Rng,
	pub cases: Cases,
	pub oracle: Oracle,
	pub stats: Stats,
}

/// A encodes like B: bytes equal B's own encoding, and decode as B gives `b`
fn like<A: Encode + EncodeLike<B>, B: Encode + Decode + Uni>(cx: &mut Cx, fam: &str, a: &A, b: &B, same_bytes: bool) {
	cx.stats.bump(&format!("family/{fam}"));
	let r = catch_unwind(AssertUnwindSafe(|| {
		let ea = a.encode();
		let eb = b.encode();
		let mut rest = &ea[..];
		// the target's decoder must take all of what A produced, and nothing else
		let d = B::decode(&mut rest).ok().filter(|_| rest.is_empty());
		// ... also when they arrive in a shared buffer
		let d = match (d, parity_scale_codec::decode_from_bytes::<B>(bytes::Bytes::from(ea.clone())).ok()) {
			(Some(x), Some(y)) if y.same(&x) => Some(x),
			_ => None,
		};
		(ea, eb, d, entry_points(a))
	}));
	match r {
		Err(_) => cx.oracle.check(false, "encode-like-panic", || fam.to_string()),
		Ok((ea, eb, d, (ua, ta, sz))) => {
			let rp = || format!("{fam}\ta={}\tb={}", hex(&ea[..ea.len().min(80)]), hex(&eb[..eb.len().min(80)]));
			// whichever way A's bytes are obtained, they are these bytes
			cx.oracle.check(ua == ea && ta == ea && sz == ea.len(), "encode-like-bytes-differ/entry-point", || {
				format!("{fam}\tencode={}\tusing_encoded={}\tencode_to={}\tencoded_size={sz}", hex(&ea[..ea.len().min(80)]), hex(&ua[..ua.len().min(80)]), hex(&ta[..ta.len().min(80)]))
			});
			if same_bytes {
				cx.oracle.check(ea == eb, "encode-like-bytes-differ", rp);
			}
			cx.oracle.check(d.as_ref().map_or(false, |x| x.same(b)), "encode-like-does-not-decode-as-target", rp);
			// correspondence: the bytes A produced are the model's encoding of the target value
			let term = format!("(GEnc {} {} {})", B::desc(), b.val_enc(), blist(if same_bytes { &ea } else { &eb }));
			if cx.cases.push(term, fam.to_string(), !ea.is_empty()) && ea.len() < 40 {
				cx.stats.sample(format!("{fam}: A encodes to {} ; as target value {}", hex(&ea), b.val()));
			}
		},
	}
}
/// targets that cannot be decoded (references): compare with the target value's own bytes
fn like_enc<A: Encode + EncodeLike<B>, B: Encode>(cx: &mut Cx, fam: &str, a: &A, b: &B) {
	cx.stats.bump(&format!("family/{fam}"));
	let r = catch_unwind(AssertUnwindSafe(|| (a.encode(), b.encode(), entry_points(a))));
	match r {
		Err(_) => cx.oracle.check(false, "encode-like-panic", || fam.to_string()),
		Ok((ea, eb, (ua, ta, sz))) => {
			cx.oracle.check(ea == eb, "encode-like-bytes-differ", || format!("{fam}\ta={}\tb={}", hex(&ea[..ea.len().min(80)]), hex(&eb[..eb.len().min(80)])));
			cx.oracle.check(ua == eb && ta == eb && sz == eb.len(), "encode-like-bytes-differ/entry-point", || {
				format!("{fam}\tb={}\tusing_encoded={}\tencode_to={}\tencoded_size={sz}", hex(&eb[..eb.len().min(80)]), hex(&ua[..ua.len().min(80)]), hex(&ta[..ta.len().min(80)]))
			});
		},
	}
}
/// A's bytes through the other entry points of Encode
fn entry_points<A: Encode>(a: &A) -> (Vec<u8>, Vec<u8>, usize) {
	let ua = a.using_encoded(|s| s.to_vec());
	let mut ta = vec![];
	a.encode_to(&mut ta);
	(ua, ta, a.encoded_size())
}

fn round<T: Uni + Encode + Decode + Clone + EncodeLike + Ord + 'static>(cx: &mut Cx, tn: &str) {
	round_holders::<T>(cx, tn);
	round_ord::<T>(cx, tn);
}

/// the families that need no order on the element type: holders, lifting, sequences, lists
fn round_holders<T: Uni + Encode + Decode + Clone + EncodeLike + 'static>(cx: &mut Cx, tn: &str) {
	let x = T::gen(&mut cx.rng, 0);
	let y = T::gen(&mut cx.rng, 0);
	// now and then a sequence spanning several preallocation chunks
	let big = cx.rng.chance(1, 6) && std::mem::size_of::<T>() <= 8;
	cx.rng.bigbias = big;
	let xs: Vec<T> = Vec::<T>::gen(&mut cx.rng, if big { 0 } else { 1 });
	cx.rng.bigbias = false;
	// holders
	like::<Box<T>, T>(cx, &format!("Box<{tn}>->T"), &Box::new(x.clone()), &x, true);
	like::<T, Box<T>>(cx, &format!("{tn}->Box<T>"), &x, &Box::new(x.clone()), true);
	like::<&T, T>(cx, &format!("&{tn}->T"), &&x, &x, true);
	like_enc::<T, &T>(cx, &format!("{tn}->&T"), &x, &&x);
	like::<&&T, T>(cx, &format!("&&{tn}->T"), &&&x, &x, true);
	like_enc::<T, &&T>(cx, &format!("{tn}->&&T"), &x, &&&x);
	{
		let mut m = x.clone();
		let expect = x.clone();
		like::<&mut T, T>(cx, &format!("&mut {tn}->T"), &&mut m, &expect, true);
	}
	like::<Cow<T>, T>(cx, &format!("Cow<{tn}>->T"), &Cow::Borrowed(&x), &x, true);
	like::<Cow<T>, T>(cx, &format!("Cow::Owned<{tn}>->T"), &Cow::Owned(x.clone()), &x, true);
	like_enc::<T, Cow<T>>(cx, &format!("{tn}->Cow<T>"), &x, &Cow::Borrowed(&x));
	like::<Rc<T>, T>(cx, &format!("Rc<{tn}>->T"), &Rc::new(x.clone()), &x, true);
	like::<T, Rc<T>>(cx, &format!("{tn}->Rc<T>"), &x, &Rc::new(x.clone()), true);
	like::<Arc<T>, T>(cx, &format!("Arc<{tn}>->T"), &Arc::new(x.clone()), &x, true);
	like::<T, Arc<T>>(cx, &format!("{tn}->Arc<T>"), &x, &Arc::new(x.clone()), true);
	like::<Ref<&T, T>, T>(cx, &format!("Ref<&{tn},T>->T"), &Ref::from(&&x), &x, true);
	like::<&Ref<Box<T>, T>, T>(cx, &format!("&Ref<Box<{tn}>,T>->T"), &&Ref::from(&Box::new(x.clone())), &x, true);
	// option / result / array / tuple lifting
	like::<Option<&T>, Option<T>>(cx, &format!("Option<&{tn}>->Option<T>"), &Some(&x), &Some(x.clone()), true);
	like::<Option<Box<T>>, Option<T>>(cx, &format!("Option<Box<{tn}>>->Option<T>"), &None, &None, true);
	like::<Result<&T, Box<T>>, Result<T, T>>(cx, &format!("Result<&{tn},Box<T>>->Result<T,T>"), &Ok(&x), &Ok(x.clone()), true);
	like::<Result<&T, Box<T>>, Result<T, T>>(cx, &format!("Result<&{tn},Box<T>>->Result<T,T>/err"), &Err(Box::new(y.clone())), &Err(y.clone()), true);
	like::<[&T; 2], [T; 2]>(cx, &format!("[&{tn};2]->[T;2]"), &[&x, &y], &[x.clone(), y.clone()], true);
	like::<[Box<T>; 3], [T; 3]>(cx, &format!("[Box<{tn}>;3]->[T;3]"), &[Box::new(x.clone()), Box::new(y.clone()), Box::new(x.clone())], &[x.clone(), y.clone(), x.clone()], true);
	like::<(&T,), (T,)>(cx, &format!("(&{tn},)->(T,)"), &(&x,), &(x.clone(),), true);
	like::<(&T, Box<T>), (T, T)>(cx, &format!("(&{tn},Box<T>)->(T,T)"), &(&x, Box::new(y.clone())), &(x.clone(), y.clone()), true);
	like::<(&T, Rc<T>, T), (T, T, T)>(cx, &format!("(&{tn},Rc<T>,T)->(T,T,T)"), &(&x, Rc::new(y.clone()), x.clone()), &(x.clone(), y.clone(), x.clone()), true);
	// sequences
	let refs: Vec<&T> = xs.iter().collect();
	let boxes: Vec<Box<T>> = xs.iter().cloned().map(Box::new).collect();
	let rcs: VecDeque<Rc<T>> = xs.iter().cloned().map(Rc::new).collect();
	let dq: VecDeque<T> = xs.iter().cloned().collect();
	like::<Vec<&T>, Vec<T>>(cx, &format!("Vec<&{tn}>->Vec<T>"), &refs, &xs, true);
	like::<Vec<Box<T>>, Vec<T>>(cx, &format!("Vec<Box<{tn}>>->Vec<T>"), &boxes, &xs, true);
	like_enc::<Vec<&T>, &[T]>(cx, &format!("Vec<&{tn}>->&[T]"), &refs, &&xs[..]);
	like::<&[&T], Vec<T>>(cx, &format!("&[&{tn}]->Vec<T>"), &&refs[..], &xs, true);
	like::<&[Box<T>], Vec<T>>(cx, &format!("&[Box<{tn}>]->Vec<T>"), &&boxes[..], &xs, true);
	like_enc::<VecDeque<Rc<T>>, &[T]>(cx, &format!("VecDeque<Rc<{tn}>>->&[T]"), &rcs, &&xs[..]);
	like::<&[&T], VecDeque<T>>(cx, &format!("&[&{tn}]->VecDeque<T>"), &&refs[..], &dq, true);
	like::<VecDeque<Rc<T>>, Vec<T>>(cx, &format!("VecDeque<Rc<{tn}>>->Vec<T>"), &rcs, &xs, true);
	like::<Vec<Box<T>>, VecDeque<T>>(cx, &format!("Vec<Box<{tn}>>->VecDeque<T>"), &boxes, &dq, true);
	// the other collections and slices of 1-tuples
	let ll: LinkedList<T> = xs.iter().cloned().collect();
	let llr: LinkedList<&T> = xs.iter().collect();
	like::<LinkedList<&T>, LinkedList<T>>(cx, &format!("LinkedList<&{tn}>->LinkedList<T>"), &llr, &ll, true);
	let tup: Vec<(T,)> = xs.iter().cloned().map(|t| (t,)).collect();
	like_enc::<LinkedList<T>, &[(T,)]>(cx, &format!("LinkedList<{tn}>->&[(T,)]"), &ll, &&tup[..]);
	like::<&[(T,)], LinkedList<T>>(cx, &format!("&[({tn},)]->LinkedList<T>"), &&tup[..], &ll, true);
}

/// sets, heaps and maps keyed by the element type
fn round_ord<T: Uni + Encode + Decode + Clone + EncodeLike + Ord + 'static>(cx: &mut Cx, tn: &str) {
	let xs: Vec<T> = Vec::<T>::gen(&mut cx.rng, 1);
	let tup: Vec<(T,)> = xs.iter().cloned().map(|t| (t,)).collect();
	let set: BTreeSet<T> = xs.iter().cloned().collect();
	let setr: BTreeSet<&T> = xs.iter().collect();
	like::<BTreeSet<&T>, BTreeSet<T>>(cx, &format!("BTreeSet<&{tn}>->BTreeSet<T>"), &setr, &set, true);
	let stup: Vec<(T,)> = set.iter().cloned().map(|t| (t,)).collect();
	like_enc::<BTreeSet<T>, &[(T,)]>(cx, &format!("BTreeSet<{tn}>->&[(T,)]"), &set, &&stup[..]);
	// an unsorted slice with duplicates decodes to the set built from it
	like::<&[(T,)], BTreeSet<T>>(cx, &format!("&[({tn},)]->BTreeSet<T>"), &&tup[..], &set, false);
	let heap: BinaryHeap<T> = xs.iter().cloned().collect();
	like::<&[(T,)], BinaryHeap<T>>(cx, &format!("&[({tn},)]->BinaryHeap<T>"), &&tup[..], &heap, false);
	let heapr: BinaryHeap<&T> = xs.iter().collect();
	like::<BinaryHeap<&T>, BinaryHeap<T>>(cx, &format!("BinaryHeap<&{tn}>->BinaryHeap<T>"), &heapr, &heap, false);
	// maps
	let pairs: Vec<(T, u16)> = xs.iter().cloned().enumerate().map(|(i, t)| (t, i as u16)).collect();
	let map: BTreeMap<T, u16> = pairs.iter().cloned().collect();
	let mapr: BTreeMap<&T, &u16> = map.iter().collect();
	like::<BTreeMap<&T, &u16>, BTreeMap<T, u16>>(cx, &format!("BTreeMap<&{tn},&u16>->BTreeMap<T,u16>"), &mapr, &map, true);
	let mpairs: Vec<(T, u16)> = map.iter().map(|(k, v)| (k.clone(), *v)).collect();
	like_enc::<BTreeMap<T, u16>, &[(T, u16)]>(cx, &format!("BTreeMap<{tn},u16>->&[(T,u16)]"), &map, &&mpairs[..]);
	like::<&[(T, u16)], BTreeMap<T, u16>>(cx, &format!("&[({tn},u16)]->BTreeMap<T,u16>"), &&pairs[..], &map, false);
}

pub fn run(args: &Args) {
	quiet_panics();
	let mut cx = Cx {
		rng: Rng::new(args.seed ^ 0x16),
		cases: Cases::new("Require Import Scale.Bytes Scale.Hex Scale.Codec Scale.CorrGen.", "gcase", "g_check"),
		oracle: Oracle::new(),
		stats: Stats::new(),
	};
	let rounds = if args.thorough { 300 } else { 25 };
	for _ in 0..rounds {
		round::<u8>(&mut cx, "u8");
		round::<u32>(&mut cx, "u32");
		round::<u64>(&mut cx, "u64");
		round::<String>(&mut cx, "String");
		round::<Vec<u8>>(&mut cx, "Vec<u8>");
		round::<(u8, u16)>(&mut cx, "(u8,u16)");
		round::<Option<u16>>(&mut cx, "Option<u16>");
		round::<bool>(&mut cx, "bool");
		round::<()>(&mut cx, "()");
		// derived element types (the derive emits the holders' in-place decoding for transparent ones)
		round_holders::<S1>(&mut cx, "S1");
		round_holders::<S2>(&mut cx, "S2");
		round_holders::<Cp>(&mut cx, "Cp");
		round_holders::<Sk>(&mut cx, "Sk");
		round_holders::<E1>(&mut cx, "E1");
		round_holders::<Nt>(&mut cx, "Nt");
		round_holders::<G<u16>>(&mut cx, "G<u16>");
		round_holders::<Tr>(&mut cx, "Tr");
		round_holders::<TrC>(&mut cx, "TrC");
		round_holders::<TrK>(&mut cx, "TrK");
		round_holders::<TrP>(&mut cx, "TrP");
		round_holders::<Unit1>(&mut cx, "Unit1");
		round_holders::<TrE>(&mut cx, "TrE");
		round_holders::<SkP>(&mut cx, "SkP");
		round_holders::<EN>(&mut cx, "EN");
		// strings and byte buffers
		let s = String::gen(&mut cx.rng, 0);
		like::<&str, String>(&mut cx, "&str->String", &&s[..], &s, true);
		like_enc::<String, &str>(&mut cx, "String->&str", &s, &&s[..]);
		let v = Vec::<u8>::gen(&mut cx.rng, 0);
		let b = bytes::Bytes::from(v.clone());
		like_enc::<bytes::Bytes, &[u8]>(&mut cx, "Bytes->&[u8]", &b, &&v[..]);
		like::<bytes::Bytes, Vec<u8>>(&mut cx, "Bytes->Vec<u8>", &b, &v, true);
		like::<&[u8], bytes::Bytes>(&mut cx, "&[u8]->Bytes", &&v[..], &b, true);
		like::<Vec<u8>, bytes::Bytes>(&mut cx, "Vec<u8>->Bytes", &v, &b, true);
		// a byte buffer followed by more data, and buffers inside a sequence
		let n32 = u32::gen(&mut cx.rng, 0);
		like::<(Vec<u8>, u32, u8), (bytes::Bytes, u32, u8)>(&mut cx, "(Vec<u8>,u32,u8)->(Bytes,u32,u8)", &(v.clone(), n32, 7), &(b.clone(), n32, 7), true);
		let vs: Vec<Vec<u8>> = vec![v.clone(), vec![], Vec::<u8>::gen(&mut cx.rng, 1)];
		let bs: Vec<bytes::Bytes> = vs.iter().cloned().map(bytes::Bytes::from).collect();
		let refs: Vec<&[u8]> = vs.iter().map(|x| &x[..]).collect();
		like::<Vec<&[u8]>, Vec<bytes::Bytes>>(&mut cx, "Vec<&[u8]>->Vec<Bytes>", &refs, &bs, true);
		// compact references
		let n = u64::gen(&mut cx.rng, 0);
		cx.oracle.check(CompactRef(&n).encode() == Compact(n).encode(), "compact-ref-differs", || format!("CompactRef<u64> {n}"));
		cx.stats.bump("family/CompactRef<u64>~Compact<u64>");
		let n = u128::gen(&mut cx.rng, 0);
		cx.oracle.check(CompactRef(&n).encode() == Compact(n).encode(), "compact-ref-differs", || format!("CompactRef<u128> {n}"));
		cx.stats.bump("family/CompactRef<u128>~Compact<u128>");
		let n = u16::gen(&mut cx.rng, 0);
		cx.oracle.check(CompactRef(&n).encode() == Compact(n).encode(), "compact-ref-differs", || format!("CompactRef<u16> {n}"));
		cx.stats.bump("family/CompactRef<u16>~Compact<u16>");
		// derived types and the remaining self-alike types
		let e = E1::gen(&mut cx.rng, 0);
		like::<&E1, E1>(&mut cx, "&derived-enum->enum", &&e, &e, true);
		let s2 = S2::gen(&mut cx.rng, 0);
		like::<Box<S2>, S2>(&mut cx, "Box<derived-struct>->struct", &Box::new(s2.clone()), &s2, true);
		let bv = BitVec::<u8, Msb0>::gen(&mut cx.rng, 0);
		like::<&BitVec<u8, Msb0>, BitVec<u8, Msb0>>(&mut cx, "&BitVec->BitVec", &&bv, &bv, true);
		let bb = bv.clone().into_boxed_bitslice();
		cx.oracle.check(bb.encode() == bv.encode(), "bitbox-differs-from-bitvec", || format!("BitBox {}", bv.val()));
		let ga = generic_array::GenericArray::<u16, generic_array::typenum::U3>::clone_from_slice(&[u16::gen(&mut cx.rng, 0), 7, 9]);
		let arr: [u16; 3] = [ga[0], ga[1], ga[2]];
		cx.oracle.check(ga.encode() == arr.encode(), "generic-array-differs-from-array", || format!("GenericArray<u16,U3> {:?}", arr));
		let gd = catch_unwind(AssertUnwindSafe(|| generic_array::GenericArray::<u16, generic_array::typenum::U3>::decode(&mut &arr.encode()[..]).ok()));
		cx.oracle.check(matches!(gd, Ok(Some(ref g)) if g[..] == arr[..]), "generic-array-decode", || format!("GenericArray<u16,U3> {:?}", arr));
		let d = Duration::gen(&mut cx.rng, 0);
		like::<&Duration, Duration>(&mut cx, "&Duration->Duration", &&d, &d, true);
		let ob = OptionBool::gen(&mut cx.rng, 0);
		like::<Box<OptionBool>, OptionBool>(&mut cx, "Box<OptionBool>->OptionBool", &Box::new(ob), &ob, true);
	}
	let rule = "every EncodeLike family of the crate used through the trait bound (holders Box/&/&&/&mut/Cow/Rc/Arc/Ref, Option/Result/array/tuple lifting, Vec/VecDeque/slices, LinkedList/BTreeSet/BinaryHeap/BTreeMap and slices of tuples in both directions, String/&str, Bytes/&[u8]/Vec<u8>, CompactRef, derived types, BitVec/BitBox, GenericArray) over nine primitive/std element types and fifteen derived element types (structs, enum, compact/skipped fields, generic, repr(transparent) with and without compact) with seeded values: the bytes of A vs the encoding of the value it stands for, decoding as B, and the model's encoding of the target value; non-trivial = non-empty bytes";
	cx.cases.write(&args.out, "c16", args.shards);
	cx.oracle.write(&args.out);
	cx.stats.write(&args.out, cx.cases.len(), cx.cases.nontrivial, cx.cases.dups, cx.oracle.checks, rule);
}
