//! Generic engine over the registry, serving the properties stated for "every
//! type" (C01 C02 C03 C07 C08 C09 C11 C12 C14 C18 C19).
use crate::common::*;
use crate::inputs::*;
use crate::universe::Uni;
use parity_scale_codec::{Decode, DecodeAll, DecodeLimit, DecodeWithMemTracking, Encode};
use std::panic::{catch_unwind, AssertUnwindSafe};

#[derive(Clone, Copy, PartialEq, Debug)]
pub enum Mode {
	C01,
	C05,
	C02,
	C03,
	C07,
	C08,
	C09,
	C11,
	C12,
	C14,
	C18,
	C19,
}

pub struct Cx {
	pub mode: Mode,
	pub rng: Rng,
	pub thorough: bool,
	pub cases: Cases,
	pub oracle: Oracle,
	pub stats: Stats,
	pub only: Option<Vec<String>>, // replay: type name + fields
	pub ntypes: usize,
}

pub trait Reg: Uni + Encode + Decode + DecodeWithMemTracking {}
impl<T: Uni + Encode + Decode + DecodeWithMemTracking> Reg for T {}

pub fn encode_guarded<T: Encode>(v: &T) -> Option<Vec<u8>> {
	catch_unwind(AssertUnwindSafe(|| v.encode())).ok()
}

/// byte strings derived from a valid encoding
pub fn mutate(r: &mut Rng, enc: &[u8], other: &[u8]) -> (Vec<u8>, &'static str) {
	let mut s = enc.to_vec();
	match r.below(12) {
		0 => {
			if !s.is_empty() {
				let k = r.below(s.len() as u64) as usize;
				s[k] ^= 1 << r.below(8);
			}
			(s, "bitflip")
		},
		1 => {
			if !s.is_empty() {
				let k = r.below(s.len().min(4) as u64) as usize;
				s[k] = *r.pick(&[0u8, 1, 2, 3, 4, 0x7f, 0x80, 0xfc, 0xfd, 0xfe, 0xff]);
			}
			(s, "boundary-byte")
		},
		2 => {
			let k = r.below(s.len() as u64 + 1) as usize;
			s.truncate(k);
			(s, "truncate")
		},
		3 => {
			let k = r.range(1, 5) as usize;
			let extra = r.bytes(k);
			s.extend(extra);
			(s, "extend")
		},
		4 => {
			// count tampering at the front
			let c: &[u8] = *r.pick(&[
				&[0xfd, 0xff, 0xff, 0xff][..],
				&[0x03, 0xff, 0xff, 0xff, 0xff],
				&[0x03, 0x00, 0x00, 0x00, 0x40],
				&[0xfe, 0xff, 0xff, 0xff],
				&[0x02, 0x00, 0x01, 0x00],
				&[0x01, 0x01],
				&[0x07, 0, 0, 0, 0, 1],
				&[0x04],
				&[0x08],
			]);
			let skip = r.below(2) as usize;
			let mut t = c.to_vec();
			t.extend_from_slice(&s[skip.min(s.len())..]);
			(t, "count-tamper")
		},
		5 => {
			// count tampering somewhere inside
			if s.len() > 1 {
				let k = r.below(s.len() as u64) as usize;
				let c: &[u8] = *r.pick(&[&[0xfd, 0xff, 0xff, 0xff][..], &[0x03, 0xff, 0xff, 0xff, 0xff], &[0xfc], &[0x01, 0x01]]);
				let mut t = s[..k].to_vec();
				t.extend_from_slice(c);
				t.extend_from_slice(&s[k + 1..]);
				s = t;
			}
			(s, "inner-count-tamper")
		},
		6 => {
			let k = r.below(s.len() as u64 + 1) as usize;
			let j = r.below(other.len() as u64 + 1) as usize;
			let mut t = s[..k].to_vec();
			t.extend_from_slice(&other[j..]);
			(t, "splice")
		},
		7 => {
			// increment / decrement the first byte by 4 (compact count +-1)
			if !s.is_empty() {
				s[0] = if r.chance(1, 2) { s[0].wrapping_add(4) } else { s[0].wrapping_sub(4) };
			}
			(s, "count+-1")
		},
		8 => {
			let k = r.below(13) as usize;
			(r.bytes(k), "random")
		},
		9 => {
			if !s.is_empty() {
				s.pop();
			}
			(s, "drop-last")
		},
		10 => {
			// invalid utf8 / tag bytes
			if !s.is_empty() {
				let k = r.below(s.len() as u64) as usize;
				s[k] = *r.pick(&[0xc0u8, 0xc1, 0xf5, 0xff, 0x80, 0xed, 0xe0, 0xf4, 0xa0]);
			}
			(s, "bad-utf8-or-tag")
		},
		_ => (s, "valid"),
	}
}

pub fn b(x: bool) -> &'static str {
	if x {
		"true"
	} else {
		"false"
	}
}

/// zero-wire element sequences: cap the count the implementation is asked to honour
/// a Decode impl that applies a (non-binding) memory limit to the input it is handed
pub struct MemOver<T>(pub T);
impl<T: parity_scale_codec::DecodeWithMemTracking> Decode for MemOver<T> {
	fn decode<I: parity_scale_codec::Input>(input: &mut I) -> Result<Self, parity_scale_codec::Error> {
		use parity_scale_codec::DecodeWithMemLimit;
		T::decode_with_mem_limit(input, usize::MAX).map(MemOver)
	}
}

pub fn safe_input<T: Reg>(inp: &[u8]) -> bool {
	if !T::zst_seq() {
		return true;
	}
	let mut s = inp;
	match <parity_scale_codec::Compact<u32>>::decode(&mut s) {
		Ok(c) => c.0 <= 4096,
		Err(_) => true,
	}
}

pub fn push_dec<T: Reg>(cx: &mut Cx, name: &str, desc: &str, inp: &[u8], known: bool, fam: &str) -> DRes<T> {
	let r: DRes<T> = if known { dec_slice::<T>(inp) } else { dec_rec::<T>(inp, false).0 };
	cx.stats.bump(&format!("dec/{}/{}", fam, r.tag()));
	let term = format!("(GDec {} {} {} {})", desc, b(known), blist(inp), r.coq());
	let rp = format!("{}\tdec\t{}\t{}", name, known as u8, hex(inp));
	if cx.cases.push(term, rp, !inp.is_empty()) && inp.len() < 40 {
		cx.stats.sample(format!("{name}: decode known={known} {} -> {}", hex(inp), r.coq()));
	}
	r
}

pub fn push_run<T: Reg>(cx: &mut Cx, name: &str, desc: &str, inp: &[u8], known: bool, layers: &[Layer], fam: &str) -> RRes<T> {
	let r: RRes<T> = dec_stack::<T>(inp, known, layers);
	cx.stats.bump(&format!("run/{}/{}", fam, r.tag()));
	let ls = format!("[{}]", layers.iter().map(|l| l.coq()).collect::<Vec<_>>().join("; "));
	let term = format!("(GRun {} {} {} {} {})", desc, b(known), ls, blist(inp), r.coq());
	let lrp = layers
		.iter()
		.map(|l| match l {
			Layer::Count => "c".to_string(),
			Layer::Depth(d) => format!("d{d}"),
			Layer::Mem(m) => format!("m{m}"),
		})
		.collect::<Vec<_>>()
		.join(",");
	let rp = format!("{}\trun\t{}\t{}\t{}", name, known as u8, lrp, hex(inp));
	if cx.cases.push(term, rp, !inp.is_empty()) && inp.len() < 40 {
		cx.stats.sample(format!("{name}: decode through {ls} known={known} {} -> {}", hex(inp), r.coq()));
	}
	r
}

pub fn parse_layers(s: &str) -> Vec<Layer> {
	s.split(',')
		.filter(|x| !x.is_empty())
		.map(|x| match &x[..1] {
			"c" => Layer::Count,
			"d" => Layer::Depth(x[1..].parse().unwrap()),
			_ => Layer::Mem(x[1..].parse().unwrap()),
		})
		.collect()
}

/// input strings for a type: valid encodings and their mutations
fn inputs_for<T: Reg>(cx: &mut Cx, n_vals: usize, n_mut: usize) -> Vec<(Vec<u8>, &'static str, Option<T>)> {
	let mut out = vec![];
	let mut prev: Vec<u8> = vec![];
	for _ in 0..n_vals {
		let v = T::gen(&mut cx.rng, 0);
		let Some(enc) = encode_guarded(&v) else { continue };
		for _ in 0..n_mut {
			let (m, fam) = mutate(&mut cx.rng, &enc, &prev);
			if fam != "valid" {
				out.push((m, fam, None));
			}
		}
		prev = enc.clone();
		out.push((enc, "valid", Some(v)));
	}
	out
}

pub fn run_type<T: Reg>(cx: &mut Cx, name: &str) {
	let desc = T::desc();
	// values of more than 8 KB cost the model's evaluator a second each: a couple of cases suffice
	let heavy = T::min_wire() > 8000;
	cx.ntypes += 1;
	cx.cases.begin_type();
	if let Some(only) = cx.only.clone() {
		if only[0] != name {
			return;
		}
		match only[1].as_str() {
			"dec" => {
				let inp = unhex(&only[3]);
				let r = push_dec::<T>(cx, name, &desc, &inp, only[2] == "1", "replay");
				oracles_on_input::<T>(cx, name, &inp, &r);
			},
			"run" => {
				push_run::<T>(cx, name, &desc, &unhex(&only[4]), only[2] == "1", &parse_layers(&only[3]), "replay");
			},
			"enc" | "val" => {
				// value cases are regenerated from (seed, index)
				let seed: u64 = only[2].parse().unwrap();
				let mut r = Rng::new(seed);
				r.bigbias = only.get(3).map_or(false, |x| x == "big");
				let v = T::gen(&mut r, 0);
				let big = r.bigbias;
				value_case::<T>(cx, name, &desc, &v, seed, big);
			},
			"valhex" => {
				if let Ok(v) = T::decode(&mut &unhex(&only[2])[..]) {
					value_case_rp::<T>(cx, name, &desc, &v, format!("{name}\tvalhex\t{}", only[2]));
				}
			},
			"alloc" | "peak" => {
				alloc_case::<T>(cx, name, &desc, &unhex(&only[3]), only[2] == "1");
			},
			_ => {},
		}
		return;
	}
	let t = cx.thorough;
	match cx.mode {
		Mode::C05 => {
			let n = if t { 60 } else { 12 };
			let n = if heavy { 2 } else { n };
			for _ in 0..n {
				let seed = cx.rng.next();
				let mut r = Rng::new(seed);
				let v = T::gen(&mut r, 0);
				let rp = format!("{name}\tval\t{seed}\t-");
				let Some(enc) = encode_guarded(&v) else {
					cx.oracle.check(false, "encode-panic", || rp.clone());
					continue;
				};
				// declared layout: the model's encoding of the descriptor the generator derived from the definition
				cx.cases.push(format!("(GEnc {} {} {})", desc, v.val_enc(), blist(&enc)), rp.clone(), !enc.is_empty());
				if enc.len() < 40 {
					cx.stats.sample(format!("{name}: {} encodes to {}", v.val_enc(), hex(&enc)));
				}
				// decoding inverts it (skipped fields come back as their default: gen() builds them so)
				let k = cx.rng.below(3) as usize;
				let mut inp = enc.clone();
				inp.extend(cx.rng.bytes(k));
				let known = cx.rng.chance(1, 2);
				let r2 = push_dec::<T>(cx, name, &desc, &inp, known, "valid+suffix");
				cx.oracle.check(matches!(&r2, DRes::Ok(w, c) if w.same(&v) && *c == enc.len()), "derived-roundtrip", || rp.clone());
				for _ in 0..3 {
					let (m, fam) = mutate(&mut cx.rng, &enc, &[]);
					if !safe_input::<T>(&m) {
						cx.stats.bump("skipped/zero-wire-hostile-count");
						continue;
					}
					let r3 = push_dec::<T>(cx, name, &desc, &m, true, fam);
					cx.oracle.check(!matches!(r3, DRes::Panic), "decode-panic", || format!("{name}\tdec\t1\t{}", hex(&m)));
				}
			}
			// every possible leading byte (variant index / tag) with a plausible tail
			let tail = encode_guarded(&T::gen(&mut cx.rng, 0)).unwrap_or_default();
			for b0 in 0..=255u8 {
				let mut inp = vec![b0];
				inp.extend_from_slice(&tail[1.min(tail.len())..]);
				inp.extend_from_slice(&[0, 0, 0, 0]);
				if !safe_input::<T>(&inp) {
					cx.stats.bump("skipped/zero-wire-hostile-count");
					continue;
				}
				push_dec::<T>(cx, name, &desc, &inp, true, "every-first-byte");
			}
		},
		Mode::C01 | Mode::C02 | Mode::C07 => {
			let n = if t { 150 } else { 14 };
			let n = if heavy { 2 } else { n };
			for k in 0..n {
				let seed = cx.rng.next();
				let mut r = Rng::new(seed);
				// every property driven by values sees a few collections straddling the 16 KiB window
				r.bigbias = k % 7 == 3;
				let v = T::gen(&mut r, 0);
				value_case::<T>(cx, name, &desc, &v, seed, k % 7 == 3);
			}
			if desc.starts_with("(TCompact") {
				// every class boundary of the compact format that fits the width, +-1
				for (v, enc) in compact_boundaries::<T>() {
					value_case_rp::<T>(cx, name, &desc, &v, format!("{name}\tvalhex\t{}", hex(&enc)));
				}
			}
		},
		Mode::C03 | Mode::C08 | Mode::C14 | Mode::C18 | Mode::C19 => {
			let (nv, nm) = if t { (30, 12) } else { (5, 6) };
			let (nv, nm) = if heavy { (1, 1) } else { (nv, nm) };
			let mut inputs = inputs_for::<T>(cx, nv, nm);
			if desc.starts_with("(TCompact") && matches!(cx.mode, Mode::C03 | Mode::C18 | Mode::C14) {
				// the compact grammar: every length tag of the big-integer mode x boundary top bytes,
				// and the non-canonical forms of the three short modes
				for k in 0..16u8 {
					for top in [0u8, 1, 0x3f, 0x40, 0x7f, 0x80, 0xff] {
						let mut v = vec![0x03 | (k << 2)];
						let n = k as usize + 4;
						for i in 0..n {
							v.push(if i + 1 == n { top } else if cx.rng.chance(1, 2) { 0xff } else { cx.rng.below(256) as u8 });
						}
						inputs.push((v, "compact-grammar", None));
					}
				}
				for v in [vec![0x01u8, 0x00], vec![0xfd, 0x00], vec![0x02, 0x00, 0x00, 0x00], vec![0xfe, 0xff, 0x00, 0x00], vec![0x02, 0x00, 0x01, 0x00], vec![0x03], vec![0x07, 1, 2, 3]] {
					inputs.push((v, "compact-grammar", None));
				}
			}
			if desc.starts_with("(TColl") && matches!(cx.mode, Mode::C03 | Mode::C18 | Mode::C14) {
				// claimed counts whose byte size is a multiple of 2^32 for element sizes 1..16 (a size
				// computed in 32 bits wraps to a small number), in front of a short plausible tail
				let tail = encode_guarded(&T::gen(&mut cx.rng, 0)).unwrap_or_default();
				for c in [&[0x02u8, 0x00, 0x00, 0x40][..], &[0x02, 0x00, 0x00, 0x80], &[0x03, 0x00, 0x00, 0x00, 0x40], &[0x03, 0x00, 0x00, 0x00, 0x80], &[0x03, 0x01, 0x00, 0x00, 0x80], &[0x06, 0x00, 0x00, 0x80]] {
					let mut v = c.to_vec();
					v.extend_from_slice(&tail[1.min(tail.len())..tail.len().min(24)]);
					inputs.push((v, "count-wraps-32", None));
				}
			}
			if desc == "TDuration" {
				// the nanosecond field on and around its bound
				for n in [999_999_999u32, 1_000_000_000, 1_000_000_001, u32::MAX] {
					let mut v = 5u64.to_le_bytes().to_vec();
					v.extend_from_slice(&n.to_le_bytes());
					inputs.push((v, "duration-nanos", None));
				}
			}
			if desc == "TStr" && matches!(cx.mode, Mode::C03 | Mode::C18 | Mode::C14 | Mode::C08) {
				// multi-byte characters straddling every small power-of-two offset (a validator
				// working in blocks must see them whole)
				for block in [16usize, 32, 64, 128, 256, 4096, 16384] {
					for (ch, back) in [("é", 1usize), ("€", 1), ("€", 2), ("😀", 1), ("😀", 2), ("😀", 3)] {
						for k in [1usize, 2] {
							let mut st = "a".repeat(block * k - back);
							st.push_str(ch);
							st.push_str("zz");
							inputs.push((st.encode(), "valid", None));
						}
					}
				}
			}
			for (inp, fam, _) in inputs {
				if inp.len() > 70000 && fam != "valid" && !cx.rng.chance(1, 4) {
					continue;
				}
				if !safe_input::<T>(&inp) {
					cx.stats.bump("skipped/zero-wire-hostile-count");
					continue;
				}
				let known = cx.mode != Mode::C08 || cx.rng.chance(1, 2);
				let r = if cx.mode == Mode::C19 {
					DRes::Err // C19 uses the stack form below
				} else {
					push_dec::<T>(cx, name, &desc, &inp, known, fam)
				};
				if cx.mode == Mode::C19 {
					let known = cx.rng.chance(1, 2);
					let rr = push_run::<T>(cx, name, &desc, &inp, known, &[Layer::Count], fam);
					oracle_c19::<T>(cx, name, &inp, known, &rr);
				} else {
					oracles_on_input::<T>(cx, name, &inp, &r);
				}
			}
			if cx.mode == Mode::C03 && (T::min_wire() <= 1) {
				// exhaustive short strings
				push_dec::<T>(cx, name, &desc, &[], true, "exh0");
				let step = if t { 1 } else { 5 };
				let mut x = 0usize;
				while x < 256 {
					let r = push_dec::<T>(cx, name, &desc, &[x as u8], true, "exh1");
					oracles_on_input::<T>(cx, name, &[x as u8], &r);
					if t && (x < 8 || x % 4 == 1 || x > 250) {
						for y in [0u8, 1, 2, 3, 0x40, 0x80, 0xff] {
							push_dec::<T>(cx, name, &desc, &[x as u8, y], true, "exh2");
						}
					}
					x += step;
				}
			}
		},
		Mode::C11 => {
			let (nv, nm) = if t { (20, 4) } else { (4, 2) };
			let (nv, nm) = if heavy { (1, 1) } else { (nv, nm) };
			let inputs = inputs_for::<T>(cx, nv, nm);
			for (inp, fam, v) in inputs {
				if inp.len() > 40000 || !safe_input::<T>(&inp) {
					continue;
				}
				oracle_c11::<T>(cx, name, &desc, &inp, fam, v);
			}
		},
		Mode::C12 => {
			let (nv, nm) = if t { (20, 4) } else { (4, 2) };
			let (nv, nm) = if heavy { (1, 1) } else { (nv, nm) };
			let inputs = inputs_for::<T>(cx, nv, nm);
			for (inp, fam, v) in inputs {
				if inp.len() > 40000 || !safe_input::<T>(&inp) {
					continue;
				}
				oracle_c12::<T>(cx, name, &desc, &inp, fam, v);
			}
		},
		Mode::C09 => {
			let (nv, nm) = if t { (20, 10) } else { (4, 5) };
			let (nv, nm) = if heavy { (1, 1) } else { (nv, nm) };
			let inputs = inputs_for::<T>(cx, nv, nm);
			let mut all: Vec<Vec<u8>> = inputs.into_iter().map(|x| x.0).collect();
			// hostile family: a maximal / near-maximal count in front of 0, 1, about one chunk and
			// more than one chunk of plausible payload
			cx.rng.bigbias = true;
			for _ in 0..(if t { 6 } else { 2 }) {
				let v = T::gen(&mut cx.rng, 0);
				if let Some(enc) = encode_guarded(&v) {
					if enc.len() > 300_000 {
						continue;
					}
					let mut s = &enc[..];
					if let Ok(_) = <parity_scale_codec::Compact<u32>>::decode(&mut s) {
						let body = s.to_vec();
						// maximal, near-maximal, large and moderate claimed counts (a moderate count times a
						// large element is as hostile as a large count)
						for c in [&[0x03u8, 0xff, 0xff, 0xff, 0xff][..], &[0xfe, 0xff, 0xff, 0xff], &[0x03, 0x00, 0x00, 0x00, 0x08], &[0x02, 0x00, 0x40, 0x00], &[0x02, 0x00, 0x01, 0x00], &[0xfd, 0xff], &[0xa1, 0x0f]] {
							let mut h = c.to_vec();
							h.extend_from_slice(&body);
							all.push(h);
						}
					}
					all.push(enc);
				}
			}
			cx.rng.bigbias = false;
			for inp in all {
				if !safe_input::<T>(&inp) {
					cx.stats.bump("skipped/zero-wire-hostile-count");
					continue;
				}
				let known = cx.rng.chance(1, 2);
				alloc_case::<T>(cx, name, &desc, &inp, known);
			}
		},
	}
}

/// value-driven cases: encode (C01), round trip (C02), entry points (C07)
fn value_case<T: Reg>(cx: &mut Cx, name: &str, desc: &str, v: &T, seed: u64, big: bool) {
	let rp = format!("{name}\tval\t{seed}\t{}", if big { "big" } else { "-" });
	value_case_rp::<T>(cx, name, desc, v, rp)
}

/// the class boundaries of the compact format, as values of a compact type (through its decoder)
fn compact_boundaries<T: Reg>() -> Vec<(T, Vec<u8>)> {
	let mut out = vec![];
	let mut bs: Vec<u128> = vec![0, 1, 2];
	for e in [6u32, 8, 14, 16, 30, 32, 40, 48, 56, 64, 72, 96, 120, 127] {
		let p = 1u128 << e;
		bs.extend([p - 1, p, p + 1]);
	}
	bs.push(u128::MAX);
	for b in bs {
		let enc = parity_scale_codec::Compact(b).encode();
		if let Ok(v) = T::decode(&mut &enc[..]) {
			out.push((v, enc));
		}
	}
	out
}

fn value_case_rp<T: Reg>(cx: &mut Cx, name: &str, desc: &str, v: &T, rp: String) {
	let Some(enc) = encode_guarded(v) else {
		cx.oracle.check(false, "encode-panic", || rp.clone());
		return;
	};
	cx.stats.bump(&format!("val/len<{}", match enc.len() {
		0 => "=0",
		1..=8 => "=8",
		9..=256 => "=256",
		257..=16383 => "16384",
		_ => "big",
	}));
	match cx.mode {
		Mode::C01 => {
			// every entry point must describe the same (specified) byte string
			entry_points::<T>(cx, name, v, &enc, &rp);
			let term = format!("(GEnc {} {} {})", desc, v.val_enc(), blist(&enc));
			if cx.cases.push(term, rp.clone(), !enc.is_empty()) && enc.len() < 40 {
				cx.stats.sample(format!("{name}: {} encodes to {}", v.val_enc(), hex(&enc)));
			}
		},
		Mode::C02 => {
			let k = cx.rng.below(4) as usize;
			let suffix = cx.rng.bytes(k);
			let mut inp = enc.clone();
			inp.extend_from_slice(&suffix);
			let known = cx.rng.chance(3, 4);
			let r = push_dec::<T>(cx, name, desc, &inp, known, "valid+suffix");
			let ok = match &r {
				DRes::Ok(w, c) => w.same(v) && *c == enc.len(),
				_ => false,
			};
			cx.oracle.check(ok, "roundtrip", || format!("{rp}\tsuffix={}", hex(&suffix)));
		},
		Mode::C07 => {
			entry_points::<T>(cx, name, v, &enc, &rp);
			// the bulk decode paths against the value, over inputs with known and unknown length
			// and a reader delivering short chunks (the model decides the same cases)
			for known in [true, false] {
				let r = push_dec::<T>(cx, name, desc, &enc, known, "bulk-roundtrip");
				cx.oracle.check(matches!(&r, DRes::Ok(w, c) if w.same(v) && *c == enc.len()), "bulk-decode-differs", || format!("{rp}\tknown={known}"));
			}
			let r3: DRes<T> = dec_reader(&enc, 4099);
			cx.oracle.check(matches!(&r3, DRes::Ok(w, c) if w.same(v) && *c == enc.len()), "bulk-decode-differs", || format!("{rp}\tioreader-4099"));
			let term = format!("(GEnc {} {} {})", desc, v.val_enc(), blist(&enc));
			cx.cases.push(term, rp.clone(), !enc.is_empty());
		},
		_ => {},
	}
}

struct ByteSink(Vec<u8>, usize);
impl std::io::Write for ByteSink {
	fn write(&mut self, buf: &[u8]) -> std::io::Result<usize> {
		// accept at most `self.1` bytes per call: write_all has to loop
		let n = buf.len().min(self.1.max(1));
		self.0.extend_from_slice(&buf[..n]);
		Ok(n)
	}
	fn flush(&mut self) -> std::io::Result<()> {
		Ok(())
	}
}
struct OutSink(Vec<u8>);
impl parity_scale_codec::Output for OutSink {
	fn write(&mut self, bytes: &[u8]) {
		self.0.extend_from_slice(bytes)
	}
}

fn entry_points<T: Reg>(cx: &mut Cx, _name: &str, v: &T, enc: &[u8], rp: &str) {
	let r = catch_unwind(AssertUnwindSafe(|| {
		let mut a = vec![0xAAu8, 0xBB];
		v.encode_to(&mut a);
		let mut sink = ByteSink(vec![], 1);
		v.encode_to(&mut sink);
		let mut sink3 = ByteSink(vec![], 3);
		v.encode_to(&mut sink3);
		let mut o = OutSink(vec![7]);
		{
			let d: &mut dyn parity_scale_codec::Output = &mut o;
			v.encode_to(d);
		}
		let u = v.using_encoded(|s| s.to_vec());
		let sz = v.encoded_size();
		let hint_ok = true;
		(a, sink.0, sink3.0, o.0, u, sz, hint_ok)
	}));
	match r {
		Err(_) => cx.oracle.check(false, "entry-point-panic", || rp.to_string()),
		Ok((a, s1, s3, o, u, sz, _)) => {
			cx.oracle.check(a[..2] == [0xAA, 0xBB] && &a[2..] == enc, "encode_to(Vec)!=encode", || rp.to_string());
			cx.oracle.check(s1 == enc, "encode_to(io::Write 1-byte)!=encode", || rp.to_string());
			cx.oracle.check(s3 == enc, "encode_to(io::Write 3-byte)!=encode", || rp.to_string());
			cx.oracle.check(o[0] == 7 && &o[1..] == enc, "encode_to(dyn Output)!=encode", || rp.to_string());
			cx.oracle.check(u == enc, "using_encoded!=encode", || rp.to_string());
			cx.oracle.check(sz == enc.len(), "encoded_size!=len", || rp.to_string());
		},
	}
}

/// oracles that need only the implementation, per input string
fn oracles_on_input<T: Reg>(cx: &mut Cx, name: &str, inp: &[u8], r: &DRes<T>) {
	let rp = || format!("{name}\tdec\t1\t{}", hex(inp));
	match cx.mode {
		Mode::C03 => {
			cx.oracle.check(!matches!(r, DRes::Panic), "decode-panic", rp);
			// totality holds for every entry point and input kind: the zero-copy buffer entry point,
			// a reader with short reads, an input of unknown length
			for (k, a) in [("decode_from_bytes", from_bytes::<T>(inp)), ("ioreader-3", dec_reader::<T>(inp, 3)), ("unknown-len", dec_rec::<T>(inp, false).0)] {
				cx.oracle.check(!matches!(a, DRes::Panic), "decode-panic", || format!("{}\tvia={k}", rp()));
				// ... and the accept / reject decision and the value are those of the slice decoder
				cx.oracle.check(r.agrees(&a), "verdict-depends-on-input-kind", || format!("{}\tvia={k}", rp()));
			}
			if let DRes::Ok(v, c) = r {
				// what is accepted re-encodes to a string that decodes to the same value with the
				// same length class (canonical types: to the consumed bytes themselves)
				cx.oracle.check(*c <= inp.len(), "consumed>len", rp);
				if let Some(e) = encode_guarded(v) {
					let again: DRes<T> = dec_slice(&e);
					let ok = matches!(&again, DRes::Ok(w, c2) if w.same(v) && *c2 == e.len());
					cx.oracle.check(ok, "accepted-value-not-reencodable", rp);
				}
			}
		},
		Mode::C08 => {
			// every input implementation gives the same verdict, value and consumption
			let base: DRes<T> = dec_slice(inp);
			let alts: Vec<(&str, DRes<T>)> = vec![
				("ioreader-cursor", dec_reader(inp, usize::MAX)),
				("ioreader-1", dec_reader(inp, 1)),
				("ioreader-3", dec_reader(inp, 3)),
				("ioreader-4097", dec_reader(inp, 4097)),
				("ioreader-eintr", dec_reader_eintr(inp, 2)),
				("unknown-len", dec_rec(inp, false).0),
				("known-len-rec", dec_rec(inp, true).0),
				("from-bytes", from_bytes::<T>(inp)),
			];
			for (k, a) in alts {
				cx.oracle.check(base.agrees(&a), &format!("input-dependence:{k}"), rp);
			}
			for layers in [
				vec![Layer::Count],
				vec![Layer::Mem(usize::MAX)],
				vec![Layer::Depth(u32::MAX)],
				vec![Layer::Count, Layer::Mem(usize::MAX)],
				vec![Layer::Mem(usize::MAX), Layer::Count],
				vec![Layer::Count, Layer::Depth(u32::MAX)],
				vec![Layer::Mem(usize::MAX), Layer::Depth(u32::MAX)],
				vec![Layer::Count, Layer::Mem(usize::MAX), Layer::Depth(u32::MAX)],
				vec![Layer::Mem(usize::MAX), Layer::Count, Layer::Depth(u32::MAX)],
				vec![Layer::Count, Layer::Count, Layer::Mem(usize::MAX)],
			] {
				let known = cx.rng.chance(1, 2);
				let rr: RRes<T> = dec_stack(inp, known, &layers);
				let ok = match (&base, &rr) {
					(DRes::Ok(v, c), RRes::Ok(w, d, _)) => v.same(w) && c == d,
					(DRes::Err, RRes::Err(_)) => true,
					(DRes::Panic, RRes::Panic) => true,
					_ => false,
				};
				cx.oracle.check(ok, "input-dependence:wrapper-stack", || format!("{}\tlayers={:?}", rp(), layers));
			}
			// the other nesting order (memory tracker on top of the depth limiter), reachable when a
			// Decode impl applies its own memory limit to the input it is handed
			{
				use parity_scale_codec::DecodeLimit;
				let r = catch_unwind(AssertUnwindSafe(|| {
					let mut s = inp;
					<MemOver<T>>::decode_with_depth_limit(u32::MAX - 1, &mut s).ok().map(|v| (v.0, inp.len() - s.len()))
				}));
				let ok = match (&base, &r) {
					(DRes::Ok(v, c), Ok(Some((w, d)))) => v.same(w) && c == d,
					(DRes::Err, Ok(None)) => true,
					_ => false,
				};
				cx.oracle.check(ok, "input-dependence:wrapper-stack", || format!("{}\tlayers=mem-limit(max) over depth-limit(max-1)", rp()));
			}
		},
		Mode::C14 => {
			// decode_all <=> decode ok and nothing left
			let all = catch_unwind(AssertUnwindSafe(|| {
				let mut s = inp;
				T::decode_all(&mut s).ok()
			}));
			let alld = catch_unwind(AssertUnwindSafe(|| {
				let mut s = inp;
				T::decode_all_with_depth_limit(u32::MAX, &mut s).ok()
			}));
			let expect = matches!(r, DRes::Ok(_, c) if *c == inp.len());
			match (&all, &alld) {
				(Ok(a), Ok(d)) => {
					cx.oracle.check(a.is_some() == expect, "decode_all-verdict", rp);
					cx.oracle.check(d.is_some() == expect, "decode_all_with_depth_limit-verdict", rp);
					if let (Some(a), DRes::Ok(v, _)) = (a, r) {
						cx.oracle.check(a.same(v), "decode_all-value", rp);
					}
					if let (Some(d), DRes::Ok(v, _)) = (d, r) {
						cx.oracle.check(d.same(v), "decode_all_with_depth_limit-value", rp);
					}
				},
				_ => cx.oracle.check(false, "decode_all-panic", rp),
			}
			// the shared-buffer entry point recovers the same value from the same bytes (a value
			// after a byte buffer must be found where the buffer ended)
			{
				let fb = from_bytes::<T>(inp);
				let same = match (r, &fb) {
					(DRes::Ok(v, _), DRes::Ok(w, _)) => v.same(w),
					(DRes::Err, DRes::Err) => true,
					_ => false,
				};
				cx.oracle.check(same, "decode_from_bytes-disagrees", rp);
			}
			// every strict prefix of a valid encoding fails
			if let DRes::Ok(_, c) = r {
				let cuts: Vec<usize> = if *c <= 40 { (0..*c).collect() } else { vec![0, 1, c / 2, c - 2, c - 1] };
				for k in cuts {
					let p: DRes<T> = dec_slice(&inp[..k]);
					cx.oracle.check(!p.is_ok(), "strict-prefix-accepted", || format!("{}\tcut={k}", rp()));
				}
			}
		},
		Mode::C18 => {
			let sk = catch_unwind(AssertUnwindSafe(|| {
				let mut s = inp;
				T::skip(&mut s).ok().map(|_| inp.len() - s.len())
			}));
			match (sk, r) {
				(Ok(Some(k)), DRes::Ok(_, c)) => cx.oracle.check(k == *c, "skip-advance", rp),
				(Ok(None), DRes::Err) => cx.oracle.check(true, "skip", rp),
				(Err(_), DRes::Panic) => cx.oracle.check(true, "skip", rp),
				_ => cx.oracle.check(false, "skip-verdict", rp),
			}
		},
		_ => {},
	}
}

fn from_bytes<T: Reg>(inp: &[u8]) -> DRes<T> {
	// decode_from_bytes does not report the consumption: measure it by decode_all on the
	// prefix the slice decode consumed
	let base: DRes<T> = dec_slice(inp);
	let r = catch_unwind(AssertUnwindSafe(|| {
		parity_scale_codec::decode_from_bytes::<T>(bytes::Bytes::copy_from_slice(inp)).ok()
	}));
	match (r, base) {
		(Ok(Some(v)), DRes::Ok(_, c)) => DRes::Ok(v, c),
		(Ok(Some(v)), _) => DRes::Ok(v, usize::MAX),
		(Ok(None), _) => DRes::Err,
		(Err(_), _) => DRes::Panic,
	}
}

fn oracle_c19<T: Reg>(cx: &mut Cx, name: &str, inp: &[u8], known: bool, rr: &RRes<T>) {
	let rp = || format!("{name}\trun\t{}\tc\t{}", known as u8, hex(inp));
	// count vs the bytes the wrapped input delivered, success and failure
	let mut rec = Rec::new(inp, known);
	let out = catch_unwind(AssertUnwindSafe(|| {
		let mut c = parity_scale_codec::CountedInput::new(&mut rec);
		let r = T::decode(&mut c).is_ok();
		(r, c.count())
	}));
	match out {
		Ok((ok, count)) => {
			cx.oracle.check(count == rec.read_bytes && count == rec.pos as u64, "count!=delivered", rp);
			if ok {
				if let RRes::Ok(v, c, st) = rr {
					cx.oracle.check(st[0] == *c as u64, "count!=consumed", rp);
					if let Some(e) = encode_guarded(v) {
						// canonical types: equals the encoded length
						let again: DRes<T> = dec_slice(&e);
						if let DRes::Ok(_, c2) = again {
							cx.oracle.check(c2 == e.len(), "count!=encoded-len", rp);
						}
					}
				}
			}
		},
		Err(_) => cx.oracle.check(false, "panic", rp),
	}
	// a history on one counter: the decode (which may fail), then two more reads; the count keeps
	// following what the wrapped input delivered
	{
		let mut rec = Rec::new(inp, known);
		let out = catch_unwind(AssertUnwindSafe(|| {
			let mut c = parity_scale_codec::CountedInput::new(&mut rec);
			let _ = T::decode(&mut c);
			let _ = u8::decode(&mut c);
			let _ = <[u8; 2]>::decode(&mut c);
			c.count()
		}));
		if let Ok(count) = out {
			cx.oracle.check(count == rec.read_bytes && count == rec.pos as u64, "count!=delivered-after-history", rp);
		}
	}
	// the same over the crate's own slice input: count == what the slice gave up, also after a failure
	let mut s = inp;
	let out = catch_unwind(AssertUnwindSafe(|| {
		let mut c = parity_scale_codec::CountedInput::new(&mut s);
		let r = T::decode(&mut c).is_ok();
		(r, c.count())
	}));
	if let Ok((_, count)) = out {
		cx.oracle.check(count == (inp.len() - s.len()) as u64, "count!=slice-consumed", rp);
	}
}

fn oracle_c11<T: Reg>(cx: &mut Cx, name: &str, desc: &str, inp: &[u8], fam: &str, v: Option<T>) {
	let base: DRes<T> = dec_slice(inp);
	let rp = || format!("{name}\tdec\t1\t{}", hex(inp));
	let depth = match (&base, &v) {
		(DRes::Ok(w, _), _) => w.depth(),
		_ => dec_rec::<T>(inp, true).2,
	};
	// the limiter forwards the nesting hooks to the input it wraps: an input with its own guard sees
	// the same nesting as without the limiter
	{
		use parity_scale_codec::DecodeLimit;
		let plain = dec_rec::<T>(inp, true);
		let mut rec = Rec::new(inp, true);
		let lim = catch_unwind(AssertUnwindSafe(|| T::decode_with_depth_limit(depth + 2, &mut rec).is_ok()));
		if let (DRes::Ok(..), Ok(true)) = (&plain.0, &lim) {
			cx.oracle.check(rec.max_depth == plain.2 && rec.depth == 0, "depth-hooks-not-forwarded", || format!("{}\tinner_max_depth={}\twithout_limiter={}", rp(), rec.max_depth, plain.2));
		}
	}
	let mut prev_ok = false;
	let maxl = depth + 2;
	for l in 0..=maxl {
		let known = cx.rng.chance(1, 2);
		let rr = push_run::<T>(cx, name, desc, inp, known, &[Layer::Depth(l)], fam);
		{
			// the entry point over the crate's own slice input: same verdict
			use parity_scale_codec::DecodeLimit;
			let d = catch_unwind(AssertUnwindSafe(|| {
				let mut s = inp;
				T::decode_with_depth_limit(l, &mut s).ok().map(|_| inp.len() - s.len())
			}));
			let same = match (&d, &rr) {
				(Ok(Some(c)), RRes::Ok(_, c2, _)) => c == c2,
				(Ok(None), RRes::Err(_)) => true,
				(Err(_), RRes::Panic) => true,
				_ => false,
			};
			cx.oracle.check(same, "depth-limit-entry-point-disagrees", || format!("{}\tL={l}", rp()));
		}
		match (&base, &rr) {
			(DRes::Ok(w, c), RRes::Ok(x, d, _)) => {
				cx.oracle.check(w.same(x) && c == d, "depth-limit-not-transparent", || format!("{}\tL={l}", rp()));
				cx.oracle.check(l >= depth, "depth-limit-accepts-too-deep", || format!("{}\tL={l}\tdepth={depth}", rp()));
				prev_ok = true;
			},
			(DRes::Ok(..), RRes::Err(_)) => {
				cx.oracle.check(l < depth, "depth-limit-rejects-shallow", || format!("{}\tL={l}\tdepth={depth}", rp()));
				cx.oracle.check(!prev_ok, "depth-limit-not-monotone", || format!("{}\tL={l}", rp()));
			},
			(DRes::Err, RRes::Err(_)) => {},
			(DRes::Err, RRes::Ok(..)) => cx.oracle.check(false, "depth-limit-accepts-what-decode-rejects", || format!("{}\tL={l}", rp())),
			_ => cx.oracle.check(false, "depth-limit-panic", || format!("{}\tL={l}", rp())),
		}
		// the consume-everything variant
		let all = catch_unwind(AssertUnwindSafe(|| {
			let mut s = inp;
			T::decode_all_with_depth_limit(l, &mut s).ok()
		}));
		let expect = matches!(&base, DRes::Ok(_, c) if *c == inp.len()) && l >= depth;
		match all {
			Ok(a) => cx.oracle.check(a.is_some() == expect, "decode_all_with_depth_limit", || format!("{}\tL={l}", rp())),
			Err(_) => cx.oracle.check(false, "depth-limit-panic", || format!("{}\tL={l}", rp())),
		}
	}
}

fn oracle_c12<T: Reg>(cx: &mut Cx, name: &str, desc: &str, inp: &[u8], fam: &str, _v: Option<T>) {
	let base: DRes<T> = dec_slice(inp);
	let rp = || format!("{name}\tdec\t1\t{}", hex(inp));
	// U: tracked usage with an unlimited budget
	let known0 = cx.rng.chance(1, 2);
	let r0 = push_run::<T>(cx, name, desc, inp, known0, &[Layer::Mem(usize::MAX)], fam);
	let u = match &r0 {
		RRes::Ok(_, _, st) | RRes::Err(st) => st[0],
		RRes::Panic => {
			cx.oracle.check(false, "mem-limit-panic", rp);
			return;
		},
	};
	if let (DRes::Ok(w, _), RRes::Ok(..)) = (&base, &r0) {
		let p = w.payload();
		cx.oracle.check(u as u128 >= p, "tracked-usage-below-payload", || format!("{}\tU={u}\tpayload={p}", rp()));
		if p == 0 && w.depth() == 0 {
			cx.oracle.check(u == 0, "usage-nonzero-without-heap", || format!("{}\tU={u}", rp()));
		}
	}
	// the crate's own entry points over its own slice input (the tracker is then the outermost
	// input, as in real use) against the dynamic stack over a known-length input: same usage, same
	// verdict per limit
	{
		use parity_scale_codec::{DecodeWithMemLimit, MemTrackingInput};
		let rk: RRes<T> = dec_stack::<T>(inp, true, &[Layer::Mem(usize::MAX)]);
		let uk = match &rk {
			RRes::Ok(_, _, st) | RRes::Err(st) => st[0],
			RRes::Panic => u64::MAX,
		};
		let direct_u = catch_unwind(AssertUnwindSafe(|| {
			let mut s = inp;
			let mut m = MemTrackingInput::new(&mut s, usize::MAX);
			let ok = T::decode(&mut m).is_ok();
			(ok, m.used_mem() as u64)
		}));
		if let (Ok((ok, du)), true) = (&direct_u, uk != u64::MAX) {
			cx.oracle.check(*du == uk && *ok == matches!(rk, RRes::Ok(..)), "tracked-usage-depends-on-input-stack", || format!("{}\tU(direct)={du}\tU(stack)={uk}", rp()));
		}
		if uk != u64::MAX {
			for l in [0u64, 1, uk / 2, uk.saturating_sub(1), uk, uk + 1] {
				let d = catch_unwind(AssertUnwindSafe(|| {
					let mut s = inp;
					T::decode_with_mem_limit(&mut s, l as usize).is_ok()
				}));
				let st: RRes<T> = dec_stack::<T>(inp, true, &[Layer::Mem(l as usize)]);
				cx.oracle.check(d.is_ok(), "mem-limit-panic", || format!("{}\tL={l}", rp()));
				if let Ok(okd) = d {
					cx.oracle.check(okd == matches!(st, RRes::Ok(..)), "mem-limit-entry-point-disagrees", || format!("{}\tL={l}\tU={uk}\tdecode_with_mem_limit ok={okd}", rp()));
				}
			}
		}
	}
	let limits: Vec<u64> = if u <= 24 || (cx.thorough && u <= 4096) {
		(0..=u + 1).collect()
	} else {
		let mut l = vec![0, 1, u / 2, u - 1, u, u + 1];
		for _ in 0..3 {
			l.push(cx.rng.below(u + 1));
		}
		l
	};
	for l in limits {
		let known = cx.rng.chance(1, 2);
		let rr = push_run::<T>(cx, name, desc, inp, known, &[Layer::Mem(l as usize)], fam);
		match (&base, &rr) {
			(DRes::Ok(w, c), RRes::Ok(x, d, _)) => {
				cx.oracle.check(w.same(x) && c == d, "mem-limit-not-transparent", || format!("{}\tL={l}", rp()));
				cx.oracle.check(!(u > 0 && l <= u), "mem-limit-exceeded-but-ok", || format!("{}\tL={l}\tU={u}", rp()));
			},
			(DRes::Ok(..), RRes::Err(_)) => {
				cx.oracle.check(l <= u, "mem-limit-fails-above-usage", || format!("{}\tL={l}\tU={u}", rp()));
			},
			(DRes::Err, RRes::Err(_)) => {},
			(DRes::Err, RRes::Ok(..)) => cx.oracle.check(false, "mem-limit-accepts-what-decode-rejects", || format!("{}\tL={l}", rp())),
			_ => cx.oracle.check(false, "mem-limit-panic", || format!("{}\tL={l}", rp())),
		}
		// the limit composed with the (non-binding) depth limiter and the counter: same verdict
		if l <= 2 || l + 1 >= u || cx.rng.chance(1, 4) {
			for layers in [
				vec![Layer::Mem(l as usize), Layer::Depth(u32::MAX - 1)],
				vec![Layer::Count, Layer::Mem(l as usize), Layer::Depth(1000)],
				// two trackers stacked: the binding one inside and outside a non-binding one
				vec![Layer::Mem(l as usize), Layer::Mem(usize::MAX)],
				vec![Layer::Mem(usize::MAX), Layer::Mem(l as usize)],
				vec![Layer::Mem(l as usize + 3), Layer::Count, Layer::Mem(l as usize)],
			] {
				let r2 = push_run::<T>(cx, name, desc, inp, known, &layers, fam);
				let same = match (&rr, &r2) {
					(RRes::Ok(a, c, _), RRes::Ok(b, d, _)) => a.same(b) && c == d,
					(RRes::Err(_), RRes::Err(_)) => true,
					_ => false,
				};
				cx.oracle.check(same, "mem-limit-lost-in-wrapper-stack", || format!("{}\tL={l}\tlayers={:?}", rp(), layers));
			}
		}
	}
}

fn alloc_case<T: Reg>(cx: &mut Cx, name: &str, desc: &str, inp: &[u8], known: bool) {
	let (r, allocs, _, _) = dec_rec::<T>(inp, known);
	cx.stats.bump(&format!("alloc/{}", r.tag()));
	let rp = format!("{name}\talloc\t{}\t{}", known as u8, hex(&inp[..inp.len().min(4096)]));
	if inp.len() <= 20000 {
		let term = format!(
			"(GAlloc {} {} {} [{}])",
			desc,
			b(known),
			blist(inp),
			allocs.iter().map(|x| x.to_string()).collect::<Vec<_>>().join("; ")
		);
		if cx.cases.push(term, rp.clone(), !allocs.is_empty()) && inp.len() < 40 {
			cx.stats.sample(format!("{name}: known={known} {} announces {:?}", hex(inp), allocs));
		}
	}
	drop(r);
	// measured heap use of the real decode, over the three kinds of input
	let bound = 2 * (T::mem_rate() as u128 * inp.len() as u128 + T::mem_allow() as u128) + 4096;
	let class = if T::zero_wire_container() { "heap-use-exceeds-input-bound/zero-wire-element" } else { "heap-use-exceeds-input-bound" };
	for kind in 0..3 {
		let m = crate::alloc::Meter::start();
		let res = match kind {
			0 => dec_slice::<T>(inp).tag(),
			1 => dec_unknown_quiet::<T>(inp).tag(),
			_ => catch_unwind(AssertUnwindSafe(|| parity_scale_codec::decode_from_bytes::<T>(bytes::Bytes::copy_from_slice(inp)).is_ok())).map_or("panic", |x| if x { "ok" } else { "err" }),
		};
		let u = m.stop();
		// the measured peak includes the decoded value itself while it is alive
		let kname = ["slice", "unknown-length", "shared-buffer"][kind];
		let extra = if kind == 2 { inp.len() as u128 + 256 } else { 0 };
		cx.stats.bump(&format!("measured/{kname}/{res}"));
		if kind < 2 && inp.len() <= 20000 {
			// tie to the model: the measured peak against the reservations of the model's trace
			cx.cases.push(format!("(GPeak {} {} {} {})", desc, b(kind == 0), blist(inp), u.peak), format!("{name}\tpeak\t{}\t{}", (kind == 0) as u8, hex(&inp[..inp.len().min(4096)])), u.peak > 0);
		}
		cx.oracle.check((u.peak as u128) <= bound + extra, class, || {
			format!("{rp}\tinput={kname}\tlen={}\tpeak_live={}\tmax_request={}\tbound={}", inp.len(), u.peak, u.max_request, bound + extra)
		});
	}
}

/// C18: DecodeLength::len on the six collections and tuples led by one
pub fn len_cases(cx: &mut Cx) {
	use parity_scale_codec::DecodeLength;
	use std::collections::{BTreeMap, BTreeSet, BinaryHeap, LinkedList, VecDeque};
	fn one<T: Encode + DecodeLength>(cx: &mut Cx, name: &str, v: &T, true_len: usize) {
		let enc = v.encode();
		let r = catch_unwind(AssertUnwindSafe(|| T::len(&enc).ok()));
		cx.oracle.check(r.ok().flatten() == Some(true_len), "len-peek-wrong", || format!("{name}\tlen\t{}\ttrue_len={true_len}", hex(&enc[..enc.len().min(64)])));
		// with trailing bytes and on a truncated body the count is still the count
		let mut ext = enc.clone();
		ext.extend_from_slice(&[1, 2, 3]);
		let r2 = catch_unwind(AssertUnwindSafe(|| T::len(&ext).ok()));
		cx.oracle.check(r2.ok().flatten() == Some(true_len), "len-peek-wrong-with-suffix", || format!("{name}\tlen\t{}", hex(&ext[..ext.len().min(64)])));
		cx.stats.bump("len-peek");
	}
	let n = if cx.thorough { 400 } else { 60 };
	for i in 0..n {
		// lengths in every compact class
		let k = match i % 8 {
			0 => 0,
			1 => 63,
			2 => 64,
			3 => 16383,
			4 => 16384,
			5 => 16385 + cx.rng.below(70000) as usize,
			_ => cx.rng.below(300) as usize,
		};
		let bytes = cx.rng.bytes(k);
		one::<Vec<u8>>(cx, "Vec<u8>", &bytes, k);
		one::<VecDeque<u8>>(cx, "VecDeque<u8>", &bytes.iter().cloned().collect(), k);
		one::<LinkedList<u8>>(cx, "LinkedList<u8>", &bytes.iter().cloned().collect(), k);
		one::<BinaryHeap<u8>>(cx, "BinaryHeap<u8>", &bytes.iter().cloned().collect(), k);
		let set: BTreeSet<u32> = (0..k as u32).map(|x| x.wrapping_mul(2654435761)).collect();
		let sl = set.len();
		one::<BTreeSet<u32>>(cx, "BTreeSet<u32>", &set, sl);
		let map: BTreeMap<u32, u8> = set.iter().map(|x| (*x, *x as u8)).collect();
		one::<BTreeMap<u32, u8>>(cx, "BTreeMap<u32,u8>", &map, sl);
		let words: Vec<u32> = (0..k as u32).collect();
		one::<Vec<u32>>(cx, "Vec<u32>", &words, k);
		one::<(Vec<u8>, u8)>(cx, "(Vec<u8>,u8)", &(bytes.clone(), 7), k);
		one::<(Vec<u32>, String, bool)>(cx, "(Vec<u32>,String,bool)", &(words.clone(), "x".into(), true), k);
		one::<(BTreeSet<u32>,)>(cx, "(BTreeSet<u32>,)", &(set.clone(),), sl);
		let strs: Vec<String> = (0..k.min(3000)).map(|j| "ab".repeat(j % 3)).collect();
		let sl2 = strs.len();
		one::<Vec<String>>(cx, "Vec<String>", &strs, sl2);
		// elements that occupy no input: the count is larger than what follows it
		one::<Vec<()>>(cx, "Vec<()>", &vec![(); k], k);
		one::<VecDeque<()>>(cx, "VecDeque<()>", &vec![(); k].into_iter().collect(), k);
		one::<LinkedList<()>>(cx, "LinkedList<()>", &(0..k.min(5000)).map(|_| ()).collect(), k.min(5000));
		one::<Vec<[u32; 0]>>(cx, "Vec<[u32;0]>", &vec![[0u32; 0]; k], k);
		one::<Vec<crate::universe::AllSk>>(cx, "Vec<AllSk>", &vec![crate::universe::AllSk::default(); k.min(5000)], k.min(5000));
		one::<(Vec<()>, u8)>(cx, "(Vec<()>,u8)", &(vec![(); k], 5), k);
		let us: BTreeSet<()> = if k == 0 { BTreeSet::new() } else { [()].into_iter().collect() };
		let ul = us.len();
		one::<BTreeSet<()>>(cx, "BTreeSet<()>", &us, ul);
	}
	// the five-byte count class: only collections of elements without memory can be that long
	for k in [(1usize << 30) - 1, 1 << 30, (1 << 30) + 1, 1 << 31, u32::MAX as usize] {
		one::<Vec<()>>(cx, "Vec<()>", &vec![(); k], k);
		one::<VecDeque<()>>(cx, "VecDeque<()>", &VecDeque::from(vec![(); k]), k);
		one::<Vec<[u32; 0]>>(cx, "Vec<[u32;0]>", &vec![[0u32; 0]; k], k);
		one::<(Vec<()>, u8)>(cx, "(Vec<()>,u8)", &(vec![(); k], 5), k);
		one::<(VecDeque<()>, String)>(cx, "(VecDeque<()>,String)", &(VecDeque::from(vec![(); k]), "y".into()), k);
	}
	compact_as_cases(cx);
}

/// C18: skip vs decode for `Compact<T>` of user types that are compact-encoded as an integer and
/// may refuse the integer (`CompactAs::decode_from` fails), alone and inside containers
mod pct {
	use parity_scale_codec::{Compact, CompactAs, Decode, Encode, Error};
	#[derive(Debug, PartialEq, Clone, Copy, Encode, Decode)]
	pub struct Pct(pub u8);
	impl CompactAs for Pct {
		type As = u8;
		fn encode_as(&self) -> &u8 {
			&self.0
		}
		fn decode_from(x: u8) -> Result<Self, Error> {
			if x <= 100 {
				Ok(Pct(x))
			} else {
				Err("percentage above 100".into())
			}
		}
	}
	impl From<Compact<Pct>> for Pct {
		fn from(x: Compact<Pct>) -> Pct {
			x.0
		}
	}
	/// even numbers only, carried as u64
	#[derive(Debug, PartialEq, Clone, Copy, Encode, Decode)]
	pub struct Even(pub u64);
	impl CompactAs for Even {
		type As = u64;
		fn encode_as(&self) -> &u64 {
			&self.0
		}
		fn decode_from(x: u64) -> Result<Self, Error> {
			if x % 2 == 0 {
				Ok(Even(x))
			} else {
				Err("odd".into())
			}
		}
	}
	impl From<Compact<Even>> for Even {
		fn from(x: Compact<Even>) -> Even {
			x.0
		}
	}
	/// derived: never refuses
	#[derive(Debug, PartialEq, Clone, Copy, Encode, Decode, parity_scale_codec::CompactAs)]
	pub struct Plain(pub u32);
}
fn compact_as_cases(cx: &mut Cx) {
	use parity_scale_codec::Compact;
	use pct::*;
	fn one<T: Decode>(cx: &mut Cx, name: &str, inp: &[u8]) {
		let d = catch_unwind(AssertUnwindSafe(|| {
			let mut s = inp;
			T::decode(&mut s).ok().map(|_| inp.len() - s.len())
		}));
		let k = catch_unwind(AssertUnwindSafe(|| {
			let mut s = inp;
			T::skip(&mut s).ok().map(|_| inp.len() - s.len())
		}));
		cx.stats.bump(match &d {
			Ok(Some(_)) => "skip-compact-as/decodes",
			Ok(None) => "skip-compact-as/rejected",
			Err(_) => "skip-compact-as/panic",
		});
		let rp = || format!("{name}\tskip\t{}\tdecode={:?}\tskip={:?}", hex(inp), d.as_ref().ok(), k.as_ref().ok());
		match (&k, &d) {
			(Ok(Some(a)), Ok(Some(b))) => cx.oracle.check(a == b, "skip-advance", rp),
			(Ok(None), Ok(None)) | (Err(_), Err(_)) => cx.oracle.check(true, "skip", rp),
			_ => cx.oracle.check(false, "skip-verdict", rp),
		}
	}
	let n = if cx.thorough { 4000 } else { 500 };
	let mut inputs: Vec<Vec<u8>> = vec![vec![]];
	for b in 0..=255u8 {
		inputs.push(vec![b]);
		inputs.push(vec![b, 0x01]);
		inputs.push(vec![b, 0x03, 0x00]);
	}
	for i in 0..n {
		// canonical compact encodings of small and large numbers, followed by a few bytes
		let v: u64 = match i % 4 {
			0 => cx.rng.below(256),
			1 => cx.rng.below(1 << 16),
			2 => cx.rng.biased(64) as u64,
			_ => 99 + cx.rng.below(4),
		};
		let mut e = parity_scale_codec::Encode::encode(&Compact(v));
		let extra = cx.rng.below(4) as usize;
		e.extend(cx.rng.bytes(extra));
		inputs.push(e);
	}
	for inp in &inputs {
		one::<Compact<Pct>>(cx, "Compact<Pct>", inp);
		one::<Compact<Even>>(cx, "Compact<Even>", inp);
		one::<Compact<Plain>>(cx, "Compact<Plain>", inp);
		one::<(Compact<Pct>, u8)>(cx, "(Compact<Pct>,u8)", inp);
		one::<Option<Compact<Even>>>(cx, "Option<Compact<Even>>", inp);
		one::<[Compact<Pct>; 2]>(cx, "[Compact<Pct>;2]", inp);
		one::<Vec<Compact<Pct>>>(cx, "Vec<Compact<Pct>>", inp);
	}
}
