//! C15 — append_or_new: histories on real item types, counts on every prefix-width
//! boundary and around 2^32 with zero-sized items, garbage prefixes.
use crate::common::*;
use crate::universe::S1;
use parity_scale_codec::{Compact, Decode, Encode, EncodeAppend};
use std::collections::VecDeque;
use std::panic::{catch_unwind, AssertUnwindSafe};

struct Cx {
	cases: Cases,
	oracle: Oracle,
	stats: Stats,
}

fn res_coq(r: &Result<Option<Vec<u8>>, ()>) -> String {
	match r {
		Ok(Some(v)) => format!("(XOk \"{}\")", hex(v)),
		Ok(None) => "XErr".into(),
		Err(_) => "XPanic".into(),
	}
}

/// one append of `items` (already a concrete slice) to `vec`, through Vec<T> or VecDeque<T>
fn step<T: Encode + Decode + Clone + PartialEq + parity_scale_codec::EncodeLike>(cx: &mut Cx, vec: &[u8], items: &[T], deque: bool, by_ref: bool, fam: &str) -> Option<Vec<u8>> {
	let n = items.len();
	let p: Vec<u8> = items.iter().flat_map(|i| i.encode()).collect();
	let r = catch_unwind(AssertUnwindSafe(|| {
		let v = vec.to_vec();
		match (deque, by_ref) {
			(false, true) => <Vec<T> as EncodeAppend>::append_or_new(v, items.iter()).ok(),
			(false, false) => <Vec<T> as EncodeAppend>::append_or_new(v, items.to_vec()).ok(),
			(true, true) => <VecDeque<T> as EncodeAppend>::append_or_new(v, items.iter()).ok(),
			(true, false) => <VecDeque<T> as EncodeAppend>::append_or_new(v, items.to_vec()).ok(),
		}
	}))
	.map_err(|_| ());
	cx.stats.bump(&format!("append/{fam}/{}", match &r {
		Ok(Some(_)) => "ok",
		Ok(None) => "err",
		Err(_) => "panic",
	}));
	let rp = format!("app\t{}\t{}\t{}", hex(vec), n, hex(&p));
	if cx.cases.push(format!("(KApp \"{}\" {} \"{}\" {})", hex(vec), n, hex(&p), res_coq(&r)), rp.clone(), true) {
		cx.stats.sample(format!("append {} items ({}) to {} -> {}", n, hex(&p), hex(vec), res_coq(&r)));
	}
	// oracle: equals re-encoding the whole
	if let Ok(old) = <Vec<T>>::decode(&mut &vec[..]) {
		// only when vec is exactly an encoding
		if old.encode() == vec {
			let mut whole = old.clone();
			whole.extend(items.iter().cloned());
			let expect = if whole.len() <= u32::MAX as usize { Some(whole.encode()) } else { None };
			cx.oracle.check(r.as_ref().ok().map(|x| x.as_ref()) == Some(expect.as_ref()), "append!=reencode", || rp.clone());
		}
	} else if vec.is_empty() {
		cx.oracle.check(r.as_ref().ok().map(|x| x.clone()) == Some(Some(items.to_vec().encode())), "append-to-empty!=encode", || rp.clone());
	}
	if r.is_err() {
		cx.oracle.check(false, "append-panic", || rp.clone());
	}
	r.ok().flatten()
}

/// counts on boundaries, with zero-sized items (a count costs nothing)
fn zst(cx: &mut Cx, old: u32, n: usize) {
	let vec = Compact(old).encode();
	let items = vec![(); n];
	let r = catch_unwind(AssertUnwindSafe(|| <Vec<()> as EncodeAppend>::append_or_new(vec.clone(), items.iter()).ok())).map_err(|_| ());
	cx.stats.bump(&format!("append/zst/{}", match &r {
		Ok(Some(_)) => "ok",
		Ok(None) => "err",
		Err(_) => "panic",
	}));
	let rp = format!("zst\t{}\t{}", old, n);
	cx.cases.push(format!("(KApp \"{}\" {} \"\" {})", hex(&vec), n, res_coq(&r)), rp.clone(), true);
	let total = old as u128 + n as u128;
	let expect = if total <= u32::MAX as u128 { Some(Compact(total as u32).encode()) } else { None };
	cx.oracle.check(r == Ok(expect), "append-count-wrong", || rp.clone());
}
fn zst_new(cx: &mut Cx, n: usize) {
	let items = vec![(); n];
	let r = catch_unwind(AssertUnwindSafe(|| <Vec<()> as EncodeAppend>::append_or_new(vec![], items.iter()).ok())).map_err(|_| ());
	let rp = format!("zstnew\t{}", n);
	cx.cases.push(format!("(KApp \"\" {} \"\" {})", n, res_coq(&r)), rp.clone(), true);
	let expect = if n <= u32::MAX as usize { Some(Compact(n as u32).encode()) } else { None };
	cx.oracle.check(r == Ok(expect), "append-new-count-wrong", || rp.clone());
}

fn history<T: Encode + Decode + Clone + PartialEq + parity_scale_codec::EncodeLike>(cx: &mut Cx, rng: &mut Rng, gen: &dyn Fn(&mut Rng) -> T, fam: &str, steps: usize) {
	let mut vec: Vec<u8> = if rng.chance(1, 2) {
		vec![]
	} else {
		let k = *rng.pick(&[0usize, 1, 62, 63, 64, 65]);
		(0..k).map(|_| gen(rng)).collect::<Vec<T>>().encode()
	};
	for _ in 0..steps {
		let k = *rng.pick(&[0usize, 1, 1, 2, 3, 5, 60, 63, 64]);
		let items: Vec<T> = (0..k).map(|_| gen(rng)).collect();
		match step::<T>(cx, &vec, &items, rng.chance(1, 2), rng.chance(1, 2), fam) {
			Some(v) => vec = v,
			None => break,
		}
	}
}

pub fn run(args: &Args) {
	quiet_panics();
	let mut cx = Cx {
		cases: Cases::new("Require Import Scale.Bytes Scale.Hex Scale.Append Scale.CorrC15.", "c15case", "c15_check"),
		oracle: Oracle::new(),
		stats: Stats::new(),
	};
	if let Some(line) = &args.only {
		let f: Vec<&str> = line.split('\t').collect();
		match f[0] {
			"zst" => zst(&mut cx, f[1].parse().unwrap(), f[2].parse().unwrap()),
			"zstnew" => zst_new(&mut cx, f[1].parse().unwrap()),
			_ => {
				// replay as raw bytes: items are u8-wise opaque, use the byte payload as u8 items only if counts match
				let vec = unhex(f[1]);
				let p = unhex(f[3]);
				let n: usize = f[2].parse().unwrap();
				if p.len() == n {
					step::<u8>(&mut cx, &vec, &p, false, true, "replay");
				} else if p.is_empty() {
					let items = vec![(); n];
					step::<()>(&mut cx, &vec, &items, false, true, "replay");
				}
			},
		}
	} else {
		let mut rng = Rng::new(args.seed ^ 0x15);
		let t = args.thorough;
		let rounds = if t { 400 } else { 40 };
		for _ in 0..rounds {
			history::<u8>(&mut cx, &mut rng, &|r| r.byte(), "u8", 6);
			history::<u32>(&mut cx, &mut rng, &|r| r.biased(32) as u32, "u32", 5);
			history::<String>(&mut cx, &mut rng, &|r| "ab€".chars().take(r.below(4) as usize).collect(), "String", 4);
			history::<Vec<u8>>(&mut cx, &mut rng, &|r| { let k = r.below(5) as usize; r.bytes(k) }, "Vec<u8>", 4);
			history::<()>(&mut cx, &mut rng, &|_| (), "unit", 6);
			history::<S1>(&mut cx, &mut rng, &|r| S1 { a: r.byte(), b: r.next() as u32 }, "derived", 4);
			// zero-sized in memory, one byte on the wire
			history::<crate::universe::Unit1>(&mut cx, &mut rng, &|_| crate::universe::Unit1::Only, "zst-with-wire-byte", 5);
			history::<(crate::universe::Unit1, ())>(&mut cx, &mut rng, &|_| (crate::universe::Unit1::Only, ()), "zst-tuple-with-wire-byte", 3);
		}
		// counts on and around every prefix-width boundary
		for b in [63u32, 64, (1 << 14) - 1, 1 << 14, (1 << 30) - 1, 1 << 30, u32::MAX - 1, u32::MAX] {
			for d in 0..=3u32 {
				let old = b.saturating_sub(d);
				for n in [0usize, 1, 2, 3, 4] {
					zst(&mut cx, old, n);
				}
			}
		}
		// big batches: sums landing on the boundaries and beyond 2^32
		for (old, n) in [
			(0u32, 63usize), (0, 64), (1, 1 << 14), (5, (1 << 14) - 5), (7, (1 << 30) - 7), (9, 1 << 30),
			(1, (u32::MAX - 1) as usize), (1, u32::MAX as usize), (0, u32::MAX as usize), (5, (u32::MAX - 5) as usize),
			(5, (u32::MAX - 4) as usize), (1, 1usize << 32), (5, (1usize << 32) + 3), (0, 1usize << 32), (u32::MAX, 1usize << 32),
			(3, (1usize << 33) + 1),
		] {
			zst(&mut cx, old, n);
		}
		for n in [0usize, 1, 63, 64, 1 << 14, 1 << 30, u32::MAX as usize, 1usize << 32, (1usize << 32) + 1] {
			zst_new(&mut cx, n);
		}
		// one call that skips a prefix width (1 -> 4 bytes) with real payload bytes on both sides
		for old in [1usize, 63] {
			let vec = (0..old).map(|i| i as u8 ^ 0x5a).collect::<Vec<u8>>().encode();
			let items = rng.bytes((1 << 14) - old + (old & 1));
			step::<u8>(&mut cx, &vec, &items, old == 63, true, "width-skip");
		}
		// garbage prefixes
		for _ in 0..(if t { 3000 } else { 300 }) {
			let k = rng.range(1, 8) as usize;
			let mut vec = rng.bytes(k);
			if rng.chance(1, 3) {
				vec[0] = *rng.pick(&[0x01u8, 0x02, 0x03, 0x07, 0xff, 0xfd, 0x13]);
			}
			let ni = rng.below(3) as usize;
			let items = rng.bytes(ni);
			step::<u8>(&mut cx, &vec, &items, rng.chance(1, 2), true, "garbage");
		}
	}
	let rule = "seeded histories of append_or_new (batch sizes 0..64, items u8/u32/String/Vec<u8>/()/derived struct, Vec and VecDeque targets, by-reference and by-value item forms) from empty or an encoded sequence of 0/1/62..65 items; zero-sized items with the old count within 3 of each prefix-width boundary (63/64, 2^14, 2^30, 2^32-1) x batches 0..4; batches whose sum lands on each boundary, on 2^32-1, 2^32 and beyond; append to empty with those counts; two calls that skip a prefix width (1 -> 4 bytes) with u8 payload; random and tag-tampered garbage prefixes. Every case is non-trivial (a call of append_or_new); distinct by (input bytes, count, item bytes, result)";
	cx.cases.write(&args.out, "c15", args.shards);
	cx.oracle.write(&args.out);
	cx.stats.write(&args.out, cx.cases.len(), cx.cases.nontrivial, cx.cases.dups, cx.oracle.checks, rule);
}
