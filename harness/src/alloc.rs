//! A counting global allocator: live bytes, peak live bytes and the largest single request
//! since the last reset (measured around one decode on one thread).
use std::alloc::{GlobalAlloc, Layout, System};
use std::sync::atomic::{AtomicUsize, Ordering::Relaxed};

pub struct Counting;
static LIVE: AtomicUsize = AtomicUsize::new(0);
static PEAK: AtomicUsize = AtomicUsize::new(0);
static MAXREQ: AtomicUsize = AtomicUsize::new(0);
static TOTAL: AtomicUsize = AtomicUsize::new(0);

fn on_alloc(size: usize) {
	let l = LIVE.fetch_add(size, Relaxed) + size;
	PEAK.fetch_max(l, Relaxed);
	MAXREQ.fetch_max(size, Relaxed);
	TOTAL.fetch_add(size, Relaxed);
}

unsafe impl GlobalAlloc for Counting {
	unsafe fn alloc(&self, l: Layout) -> *mut u8 {
		let p = System.alloc(l);
		if !p.is_null() {
			on_alloc(l.size());
		}
		p
	}
	unsafe fn dealloc(&self, p: *mut u8, l: Layout) {
		LIVE.fetch_sub(l.size(), Relaxed);
		System.dealloc(p, l)
	}
	unsafe fn realloc(&self, p: *mut u8, l: Layout, new: usize) -> *mut u8 {
		let q = System.realloc(p, l, new);
		if !q.is_null() {
			// both blocks may be live while the data is copied
			let both = LIVE.load(Relaxed) + new;
			PEAK.fetch_max(both, Relaxed);
			MAXREQ.fetch_max(new, Relaxed);
			TOTAL.fetch_add(new, Relaxed);
			LIVE.fetch_sub(l.size(), Relaxed);
			LIVE.fetch_add(new, Relaxed);
		}
		q
	}
}

pub struct Meter {
	base: usize,
}
pub struct Usage {
	pub peak: usize,
	pub max_request: usize,
	pub leaked: isize,
}
impl Meter {
	pub fn start() -> Meter {
		let base = LIVE.load(Relaxed);
		PEAK.store(base, Relaxed);
		MAXREQ.store(0, Relaxed);
		TOTAL.store(0, Relaxed);
		Meter { base }
	}
	pub fn stop(self) -> Usage {
		Usage {
			peak: PEAK.load(Relaxed).saturating_sub(self.base),
			max_request: MAXREQ.load(Relaxed),
			leaked: LIVE.load(Relaxed) as isize - self.base as isize,
		}
	}
}
