//! A counting global allocator: live bytes, peak live bytes and the largest single request
//! since the last reset (measured around one decode on one thread).
use std::alloc::{GlobalAlloc, Layout, System};
use std::sync::atomic::{AtomicUsize, Ordering::Relaxed};

pub struct Counting;
static LIVE: AtomicUsize = AtomicUsize::new(0);
static PEAK: AtomicUsize = AtomicUsize::new(0);
static MAXREQ: AtomicUsize = AtomicUsize::new(0);
static TOTAL: AtomicUsize = AtomicUsize::new(0);
/// frees with a zero-sized layout: the block was never allocated (zero-sized values own no block)
static ZFREE: AtomicUsize = AtomicUsize::new(0);

fn on_alloc(size: usize) {
	let l = LIVE.fetch_add(size, Relaxed) + size;
	PEAK.fetch_max(l, Relaxed);
	MAXREQ.fetch_max(size, Relaxed);
	TOTAL.fetch_add(size, Relaxed);
}

// A request of a GiB or more (only a decoder that lets a claimed count drive its allocation makes
// one) is served as untouched, unreserved address space, so that the run survives to report the
// input instead of dying in the allocator (x86_64 Linux constants; std already links libc).
const HUGE: usize = 1 << 30;
extern "C" {
	fn mmap(addr: *mut u8, len: usize, prot: i32, flags: i32, fd: i32, off: i64) -> *mut u8;
	fn munmap(addr: *mut u8, len: usize) -> i32;
}
unsafe fn huge_alloc(size: usize) -> *mut u8 {
	// PROT_READ|PROT_WRITE, MAP_PRIVATE|MAP_ANONYMOUS|MAP_NORESERVE
	let p = mmap(std::ptr::null_mut(), size, 1 | 2, 0x02 | 0x20 | 0x4000, -1, 0);
	if p as isize == -1 {
		std::ptr::null_mut()
	} else {
		p
	}
}

unsafe impl GlobalAlloc for Counting {
	unsafe fn alloc(&self, l: Layout) -> *mut u8 {
		let p = if l.size() >= HUGE && l.align() <= 4096 { huge_alloc(l.size()) } else { System.alloc(l) };
		if !p.is_null() {
			on_alloc(l.size());
		}
		p
	}
	unsafe fn alloc_zeroed(&self, l: Layout) -> *mut u8 {
		if l.size() >= HUGE && l.align() <= 4096 {
			// fresh anonymous pages read as zero
			return self.alloc(l);
		}
		let p = System.alloc_zeroed(l);
		if !p.is_null() {
			on_alloc(l.size());
		}
		p
	}
	unsafe fn dealloc(&self, p: *mut u8, l: Layout) {
		if l.size() == 0 {
			// undefined behaviour for the real allocator: record it instead of passing it on
			ZFREE.fetch_add(1, Relaxed);
			return;
		}
		LIVE.fetch_sub(l.size(), Relaxed);
		if l.size() >= HUGE && l.align() <= 4096 {
			munmap(p, l.size());
		} else {
			System.dealloc(p, l)
		}
	}
	unsafe fn realloc(&self, p: *mut u8, l: Layout, new: usize) -> *mut u8 {
		if (l.size() >= HUGE || new >= HUGE) && l.align() <= 4096 {
			let q = self.alloc(Layout::from_size_align_unchecked(new, l.align()));
			if !q.is_null() {
				std::ptr::copy_nonoverlapping(p, q, l.size().min(new));
				self.dealloc(p, l);
			}
			return q;
		}
		let q = System.realloc(p, l, new);
		if !q.is_null() {
			// both blocks may be live while the data is copied
			let both = LIVE.load(Relaxed) + new;
			PEAK.fetch_max(both, Relaxed);
			MAXREQ.fetch_max(new, Relaxed);
			TOTAL.fetch_add(new, Relaxed);
			LIVE.fetch_sub(l.size(), Relaxed);
			LIVE.fetch_add(new, Relaxed);
		}
		q
	}
}

pub struct Meter {
	base: usize,
}
pub struct Usage {
	pub peak: usize,
	pub max_request: usize,
	pub leaked: isize,
	pub zero_sized_frees: usize,
}
impl Meter {
	pub fn start() -> Meter {
		let base = LIVE.load(Relaxed);
		PEAK.store(base, Relaxed);
		MAXREQ.store(0, Relaxed);
		TOTAL.store(0, Relaxed);
		ZFREE.store(0, Relaxed);
		Meter { base }
	}
	pub fn stop(self) -> Usage {
		Usage {
			peak: PEAK.load(Relaxed).saturating_sub(self.base),
			max_request: MAXREQ.load(Relaxed),
			leaked: LIVE.load(Relaxed) as isize - self.base as isize,
			zero_sized_frees: ZFREE.load(Relaxed),
		}
	}
}
