//! The registry: concrete types every generic property is instantiated at.
//! `for_all_types!(f, cx)` expands to `f::<T>(cx, "T")` for each of them.
pub use crate::universe::*;
#[cfg(not(feature = "no-opt"))]
pub use bitvec::prelude::{BitVec, Lsb0, Msb0};
pub use parity_scale_codec::{Compact, OptionBool};
pub use std::collections::{BTreeMap, BTreeSet, BinaryHeap, LinkedList, VecDeque};
pub use std::marker::PhantomData;
pub use std::num::*;
pub use std::ops::{Range, RangeInclusive};
pub use std::rc::Rc;
pub use std::sync::Arc;
pub use std::time::Duration;

#[macro_export]
macro_rules! for_all_types {
	($f:ident, $cx:expr) => {
		$crate::for_types!($f, $cx;
			// primitives
			u8, u16, u32, u64, u128, i8, i16, i32, i64, i128, f32, f64, bool, (),
			Compact<u8>, Compact<u16>, Compact<u32>, Compact<u64>, Compact<u128>,
			NonZeroU8, NonZeroU16, NonZeroU32, NonZeroU64, NonZeroU128,
			NonZeroI8, NonZeroI16, NonZeroI32, NonZeroI64, NonZeroI128,
			PhantomData<u32>, Duration, OptionBool, String,
			// option / result
			Option<u8>, Option<bool>, Option<Option<u16>>, Option<Vec<u8>>, Option<String>, Option<()>,
			Result<u8, bool>, Result<Vec<u16>, String>, Result<(), u32>, Result<Option<u8>, Result<bool, u8>>,
			// bulk vectors of all twelve primitives
			Vec<u8>, Vec<u16>, Vec<u32>, Vec<u64>, Vec<u128>, Vec<i8>, Vec<i16>, Vec<i32>, Vec<i64>, Vec<i128>, Vec<f32>, Vec<f64>,
			// element-wise vectors
			Vec<bool>, Vec<()>, Vec<Compact<u32>>, Vec<Option<u8>>, Vec<Nt>, Vec<S1>, Vec<String>, Vec<Vec<u8>>, Vec<Vec<u32>>,
			Vec<Vec<Vec<u8>>>, Vec<(u8, u16)>, Vec<[u8; 4]>, Vec<Box<u8>>, Vec<Option<Vec<u16>>>, Vec<E1>, Vec<PhantomData<u8>>, Vec<UnitS>,
			// other collections
			VecDeque<u8>, VecDeque<u32>, VecDeque<Vec<u8>>, VecDeque<(u8, bool)>, VecDeque<Nt>,
			LinkedList<u8>, LinkedList<Vec<u16>>, LinkedList<()>, LinkedList<Option<bool>>,
			BinaryHeap<u8>, BinaryHeap<u32>, BinaryHeap<(u8, u16)>, BinaryHeap<Vec<u8>>,
			BTreeSet<u8>, BTreeSet<u32>, BTreeSet<Vec<u8>>, BTreeSet<(u8, bool)>, BTreeSet<String>, BTreeSet<Option<u16>>,
			BTreeMap<u8, u8>, BTreeMap<u32, Vec<u8>>, BTreeMap<String, u16>, BTreeMap<(u8, u8), Option<bool>>, BTreeMap<u16, BTreeMap<u8, bool>>,
			BTreeMap<Compact<u32>, Box<u16>>, BTreeMap<u32, ()>, BTreeMap<u8, PhantomData<u16>>, BTreeMap<u16, UnitS>, BTreeSet<(u8, ())>,
			// arrays
			[u8; 0], [u8; 1], [u8; 3], [u8; 32], [u8; 33], [u16; 2], [u32; 3], [u64; 2], [u128; 2], [i16; 3], [f32; 2],
			[bool; 3], [Vec<u8>; 2], [Option<u8>; 3], [(u8, u16); 2], [[u8; 2]; 3], [[bool; 2]; 2], [Nt; 2], [(); 3], [String; 2], [Box<u16>; 2],
			[OptionBool; 3], [Compact<u8>; 2], [Option<bool>; 4], [Disc; 2], [Option<u32>; 2], [(u8, u32); 3], [Compact<u32>; 3], [NonZeroU8; 2], [i8; 5],
			// tuples
			(u8,), (u8, u16), (u8, u16, u32), (bool, Vec<u8>, String), (Vec<u16>, Vec<u8>), (Option<u8>, Result<u8, u8>, ()),
			(u8, u16, u32, u64), ((u8, u16), (bool, u8)), (Compact<u32>, Compact<u64>), (Vec<u8>, u8, Vec<u8>, u8, bool),
			(u8, u8, u8, u8, u8, u8, u8, u8, u8, u8, u8, u8, u8, u8, u8, u8, u8, u16),
			// pointers
			Box<u8>, Box<u32>, Box<Vec<u8>>, Box<Box<u16>>, Box<(u8, Vec<u8>)>, Box<[u8; 16]>, Box<[Vec<u8>; 2]>, Box<()>, Box<String>, Box<Option<Box<u8>>>,
			Rc<u32>, Rc<Vec<u16>>, Arc<u64>, Arc<Vec<Box<u8>>>, Arc<String>,
			Vec<Rc<u8>>, Option<Arc<Vec<u8>>>,
			// ranges
			Range<u8>, Range<u32>, Range<Compact<u32>>, RangeInclusive<u16>,
			// derived
			S1, S2, UnitS, Nt, Cp, Sk, E1, Disc, G<u8>, G<Vec<u16>>, G<Option<Box<u8>>>, Tr, Box<Tr>, Vec<Tr>, Option<E1>, (E1, Disc), Box<E1>, Vec<Disc>, [Disc; 3], Vec<Cp>, Vec<Sk>,
			BTreeMap<u8, E1>, Result<E1, S2>,
			TrC, Box<TrC>, [TrC; 2], Rc<TrC>, Vec<TrC>, TrK, Box<TrK>, Arc<TrK>, [TrK; 3], Option<Box<TrK>>, TrP, Box<TrP>, [TrP; 2], AllSk, Vec<AllSk>, [AllSk; 2], Box<AllSk>, (AllSk, u8),
			LinkedList<AllSk>, VecDeque<AllSk>, FS, Vec<FS>, (FS, u8), Box<FS>, Vec<[u8; 256]>, Vec<[u64; 32]>, VecDeque<[u8; 100]>, Box<[u8; 20000]>, Box<[u32; 5000]>, Rc<[u16; 9000]>, EN, Vec<EN>, Box<EN>, Option<EN>, (EN, u8), SkP, Vec<SkP>, VecDeque<SkP>, [SkP; 3], Box<SkP>, TrU, Box<TrU>, [TrU; 2], Vec<TrU>, (Box<TrU>, u8), Unit1, Vec<Unit1>, VecDeque<Unit1>, LinkedList<Unit1>, VecDeque<TrE>,
			// one container after another (the depth bookkeeping of the first must be balanced)
			(LinkedList<u8>, Vec<u16>), Vec<LinkedList<u8>>, [LinkedList<u16>; 2], (BTreeSet<u8>, Vec<u16>), (BTreeMap<u8, u8>, Vec<u16>), (VecDeque<u16>, Vec<Vec<u8>>), (BinaryHeap<u16>, Vec<u16>),
			(Box<u8>, Vec<u16>), (Rc<u8>, Arc<u8>, Vec<u16>), (Vec<u16>, Vec<u16>, Vec<u16>), Vec<(Box<u8>, Vec<u8>)>, (Option<Box<u8>>, LinkedList<Vec<u8>>), [Unit1; 3], Box<Unit1>, Rc<Unit1>, (Unit1, u8), Option<Unit1>, BTreeMap<u8, Unit1>, TrE, Box<TrE>, Arc<TrE>, [TrE; 2], Vec<TrE>, (Box<TrE>, u8), OneV, OneSk, Vec<OneV>, Box<OneSk>,
			// deeper nestings
			Vec<Vec<Vec<Vec<u8>>>>, Vec<Box<Vec<Box<u8>>>>, Vec<BTreeMap<u8, Vec<u8>>>, BTreeMap<u8, Vec<BTreeSet<u8>>>, LinkedList<VecDeque<Vec<u16>>>,
			Option<Vec<Option<Vec<Option<u8>>>>>, Box<Vec<Box<Vec<Box<u8>>>>>, (Vec<Vec<u8>>, Box<Vec<u8>>, BTreeSet<u8>)
		);
		$crate::for_optional_types!($f, $cx);
	};
}
/// types that need the optional integrations (bit-vec, bytes)
#[cfg(not(feature = "no-opt"))]
#[macro_export]
macro_rules! for_optional_types {
	($f:ident, $cx:expr) => {
		$crate::for_types!($f, $cx;
			// bit sequences
			BitVec<u8, Lsb0>, BitVec<u8, Msb0>, BitVec<u16, Lsb0>, BitVec<u16, Msb0>, BitVec<u32, Lsb0>, BitVec<u32, Msb0>, BitVec<u64, Lsb0>, BitVec<u64, Msb0>,
			Vec<BitVec<u8, Msb0>>, Option<BitVec<u16, Lsb0>>, (BitVec<u8, Lsb0>, u8),
			// byte buffer
			bytes::Bytes, Vec<bytes::Bytes>, (bytes::Bytes, u8), Option<bytes::Bytes>, (u32, bytes::Bytes), (Vec<u8>, bytes::Bytes, u16), (bytes::Bytes, u32, bytes::Bytes), Vec<(bytes::Bytes, u8)>,
			bitvec::boxed::BitBox<u8, Msb0>, bitvec::boxed::BitBox<u32, Lsb0>, (u8, bitvec::boxed::BitBox<u8, Msb0>)
		);
	};
}
#[cfg(feature = "no-opt")]
#[macro_export]
macro_rules! for_optional_types {
	($f:ident, $cx:expr) => {};
}
#[macro_export]
macro_rules! for_types {
	($f:ident, $cx:expr; $($t:ty),* $(,)?) => {
		$( $f::<$t>($cx, stringify!($t)); )*
	};
}
