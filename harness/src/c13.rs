//! C13 — MaxEncodedLen / ConstEncodedLen / encoded_fixed_size: the constants the
//! implementation reports (compared with the model's formulas) and the oracle
//! `encode().len() <= max_encoded_len()` on values biased to the largest encodings.
use crate::common::*;
use crate::registry::*;
use crate::universe::Uni;
use parity_scale_codec::{ConstEncodedLen, Decode, Encode, MaxEncodedLen};

pub struct Cx {
	pub rng: Rng,
	pub thorough: bool,
	pub cases: Cases,
	pub oracle: Oracle,
	pub stats: Stats,
	pub only: Option<String>,
}

fn mel_type<T: Uni + Encode + MaxEncodedLen>(cx: &mut Cx, name: &str) {
	if cx.only.as_ref().map_or(false, |o| o != name) {
		return;
	}
	// the constant is computed by generated code: arithmetic in it may overflow
	let m = match std::panic::catch_unwind(T::max_encoded_len) {
		Ok(m) => m,
		Err(_) => {
			cx.oracle.check(false, "max_encoded_len-panics", || format!("{name}\tmax_encoded_len() panics"));
			return;
		},
	};
	let desc = T::desc();
	cx.stats.bump("mel-types");
	if cx.cases.push(format!("(KMel {} {})", desc, m), name.to_string(), true) {
		cx.stats.sample(format!("{name}: max_encoded_len() = {m}"));
	}
	let n = if cx.thorough { 3000 } else { 300 };
	let mut longest = 0;
	for i in 0..n {
		cx.rng.maxbias = i % 2 == 0;
		let v = T::gen(&mut cx.rng, 0);
		let len = v.encode().len();
		longest = longest.max(len);
		cx.oracle.check(len <= m, "encodes-longer-than-max_encoded_len", || format!("{name}\tvalue={}\tlen={len}\tmax={m}", v.val_enc()));
	}
	cx.rng.maxbias = false;
	cx.stats.add(if longest == m { "mel-bound-attained" } else { "mel-bound-not-attained" }, 1);
}

fn cel_type<T: Uni + Encode + ConstEncodedLen>(cx: &mut Cx, name: &str) {
	if cx.only.as_ref().map_or(false, |o| o != name) {
		return;
	}
	let m = T::max_encoded_len();
	cx.stats.bump("cel-types");
	cx.cases.push(format!("(KCel {})", T::desc()), name.to_string(), true);
	for _ in 0..(if cx.thorough { 1000 } else { 100 }) {
		let v = T::gen(&mut cx.rng, 0);
		let len = v.encode().len();
		cx.oracle.check(len == m, "const-encoded-len-varies", || format!("{name}\tvalue={}\tlen={len}\tdeclared={m}", v.val_enc()));
	}
}

/// is `T: ConstEncodedLen`?  Observed for concrete types by method resolution: the inherent method
/// exists only when the bound holds and is preferred to the trait method that always exists.
pub struct CelProbe<T>(pub std::marker::PhantomData<T>);
impl<T: ConstEncodedLen> CelProbe<T> {
	pub fn is_cel(&self) -> bool {
		true
	}
}
pub trait CelFallback {
	fn is_cel(&self) -> bool {
		false
	}
}
impl<T> CelFallback for CelProbe<T> {}

fn cel_marker<T: Uni + Encode>(cx: &mut Cx, name: &str, is_cel: bool) {
	if cx.only.as_ref().map_or(false, |o| o != name) {
		return;
	}
	cx.stats.bump(if is_cel { "cel-marker/present" } else { "cel-marker/absent" });
	cx.cases.push(format!("(KCelIs {} {})", T::desc(), if is_cel { "true" } else { "false" }), name.to_string(), true);
	if is_cel {
		// the marker promises one length for every value
		let mut lens = std::collections::BTreeSet::new();
		let mut ex = vec![];
		for i in 0..(if cx.thorough { 1000 } else { 100 }) {
			cx.rng.maxbias = i % 2 == 0;
			let v = T::gen(&mut cx.rng, 0);
			let len = v.encode().len();
			if lens.insert(len) {
				ex.push(format!("{} -> {len}", v.val_enc()));
			}
		}
		cx.rng.maxbias = false;
		cx.oracle.check(lens.len() <= 1, "const-encoded-len-varies", || format!("{name}\tmarked ConstEncodedLen, lengths {:?}: {}", lens, ex.join(" ; ")));
	}
}
macro_rules! cel_markers {
	($cx:expr; $($t:ty),* $(,)?) => {$(
		{
			#[allow(unused_imports)]
			use CelFallback as _;
			let is = CelProbe::<$t>(std::marker::PhantomData).is_cel();
			cel_marker::<$t>($cx, stringify!($t), is);
		}
	)*};
}

fn fixed_type<T: Uni + Encode + Decode>(cx: &mut Cx, name: &str) {
	if cx.only.as_ref().map_or(false, |o| o != name) {
		return;
	}
	let s = T::encoded_fixed_size();
	cx.stats.bump(if s.is_some() { "fixed-size-some" } else { "fixed-size-none" });
	let sc = match s {
		Some(x) => format!("(Some {x})"),
		None => "None".into(),
	};
	cx.cases.push(format!("(KFixed {} {})", T::desc(), sc), name.to_string(), s.is_some());
	if let Some(s) = s {
		for _ in 0..(if cx.thorough { 300 } else { 40 }) {
			let v = T::gen(&mut cx.rng, 0);
			let len = v.encode().len();
			cx.oracle.check(len == s, "fixed-size-wrong", || format!("{name}\tvalue={}\tlen={len}\tfixed={s}", v.val_enc()));
		}
	}
}

#[derive(Encode, Decode, MaxEncodedLen, Debug, PartialEq, Clone)]
pub struct CpM {
	#[codec(compact)]
	pub a: u32,
	pub b: u16,
}
impl Uni for CpM {
	fn desc() -> String {
		nest("TPair", "TUnit", &["(TCompact 4)".into(), u16::desc()])
	}
	fn gen(r: &mut Rng, d: u32) -> Self {
		CpM { a: u32::gen(r, d), b: u16::gen(r, d) }
	}
	fn val(&self) -> String {
		nest("VPair", "VUnit", &[format!("(VN {})", self.a), self.b.val()])
	}
	fn same(&self, o: &Self) -> bool {
		self == o
	}
	fn min_wire() -> usize {
		3
	}
}
#[derive(Encode, Decode, MaxEncodedLen, Debug, PartialEq, Clone)]
pub struct EaM {
	#[codec(encoded_as = "<u64 as parity_scale_codec::HasCompact>::Type")]
	pub a: u64,
	pub b: u8,
}
impl Uni for EaM {
	fn desc() -> String {
		nest("TPair", "TUnit", &["(TCompact 8)".into(), u8::desc()])
	}
	fn gen(r: &mut Rng, d: u32) -> Self {
		EaM { a: u64::gen(r, d), b: u8::gen(r, d) }
	}
	fn val(&self) -> String {
		nest("VPair", "VUnit", &[format!("(VN {})", self.a), self.b.val()])
	}
	fn same(&self, o: &Self) -> bool {
		self == o
	}
	fn min_wire() -> usize {
		2
	}
}
#[derive(Encode, Decode, MaxEncodedLen, Debug, PartialEq, Clone)]
pub enum EnM {
	A,
	B(#[codec(compact)] u128, u8),
	#[codec(skip)]
	#[allow(dead_code)]
	Big([u64; 8]),
	C { x: u32, #[codec(skip)] y: u64, z: Option<u16> },
}
impl Uni for EnM {
	fn desc() -> String {
		let vs = [
			(0, "TUnit".to_string()),
			(1, nest("TPair", "TUnit", &["(TCompact 16)".into(), u8::desc()])),
			(2, nest("TPair", "TUnit", &[u32::desc(), Option::<u16>::desc()])),
		];
		let mut s = "VsNil".to_string();
		for (i, t) in vs.iter().rev() {
			s = format!("(VsCons {i} {t} {s})");
		}
		format!("(TEnum {s})")
	}
	fn gen(r: &mut Rng, d: u32) -> Self {
		match r.below(4) {
			0 => EnM::A,
			1 | 2 => EnM::B(u128::gen(r, d), u8::gen(r, d)),
			_ => EnM::C { x: u32::gen(r, d), y: 0, z: Uni::gen(r, d) },
		}
	}
	fn val(&self) -> String {
		match self {
			EnM::A => "(VVar 0 VUnit)".into(),
			EnM::B(a, b) => format!("(VVar 1 {})", nest("VPair", "VUnit", &[format!("(VN {a})"), b.val()])),
			EnM::Big(_) => "(VVar 99 VUnit)".into(),
			EnM::C { x, z, .. } => format!("(VVar 2 {})", nest("VPair", "VUnit", &[x.val(), z.val()])),
		}
	}
	fn same(&self, o: &Self) -> bool {
		self == o
	}
	fn min_wire() -> usize {
		1
	}
}

/// two variants with the same field types, the later one longer on the wire
#[derive(Encode, Decode, MaxEncodedLen, Debug, PartialEq, Clone)]
pub enum MelDup {
	A(u64),
	B(#[codec(compact)] u64),
	C(#[codec(skip)] u128, u8),
	D(u128, u8),
}
impl Uni for MelDup {
	fn desc() -> String {
		format!(
			"(TEnum (VsCons 0 {} (VsCons 1 {} (VsCons 2 {} (VsCons 3 {} VsNil)))))",
			nest("TPair", "TUnit", &[u64::desc()]),
			nest("TPair", "TUnit", &["(TCompact 8)".to_string()]),
			nest("TPair", "TUnit", &[u8::desc()]),
			nest("TPair", "TUnit", &[u128::desc(), u8::desc()])
		)
	}
	fn gen(r: &mut Rng, d: u32) -> Self {
		match r.below(4) {
			0 => MelDup::A(u64::gen(r, d)),
			1 => MelDup::B(u64::gen(r, d)),
			2 => MelDup::C(0, u8::gen(r, d)),
			_ => MelDup::D(u128::gen(r, d), u8::gen(r, d)),
		}
	}
	fn val(&self) -> String {
		match self {
			MelDup::A(a) => format!("(VVar 0 {})", nest("VPair", "VUnit", &[a.val()])),
			MelDup::B(a) => format!("(VVar 1 {})", nest("VPair", "VUnit", &[format!("(VN {a})")])),
			MelDup::C(_, b) => format!("(VVar 2 {})", nest("VPair", "VUnit", &[b.val()])),
			MelDup::D(a, b) => format!("(VVar 3 {})", nest("VPair", "VUnit", &[a.val(), b.val()])),
		}
	}
	fn same(&self, o: &Self) -> bool {
		self == o
	}
	fn min_wire() -> usize {
		2
	}
}

/// a field whose own bound is already usize::MAX (an array of usize::MAX one-byte elements; it is
/// zero-sized in memory, and the only values generated hold None): sums over it must saturate
#[derive(Encode, Decode, MaxEncodedLen, Debug, PartialEq, Clone)]
pub struct SatS {
	pub a: Option<[Unit1; usize::MAX]>,
	pub b: u32,
	pub c: u8,
}
#[derive(Encode, Decode, MaxEncodedLen, Debug, PartialEq, Clone)]
pub enum SatE {
	A(u8),
	B { x: u16, y: Option<[Unit1; usize::MAX]>, z: u64 },
}
fn sat_field() -> String {
	format!("(TOption (TArray {} {}))", usize::MAX, Unit1::desc())
}
impl Uni for SatS {
	fn desc() -> String {
		nest("TPair", "TUnit", &[sat_field(), u32::desc(), u8::desc()])
	}
	fn gen(r: &mut Rng, d: u32) -> Self {
		SatS { a: None, b: u32::gen(r, d), c: u8::gen(r, d) }
	}
	fn val(&self) -> String {
		nest("VPair", "VUnit", &["VNone".into(), self.b.val(), self.c.val()])
	}
	fn same(&self, o: &Self) -> bool {
		self == o
	}
	fn min_wire() -> usize {
		6
	}
}
impl Uni for SatE {
	fn desc() -> String {
		format!(
			"(TEnum (VsCons 0 {} (VsCons 1 {} VsNil)))",
			nest("TPair", "TUnit", &[u8::desc()]),
			nest("TPair", "TUnit", &[u16::desc(), sat_field(), u64::desc()])
		)
	}
	fn gen(r: &mut Rng, d: u32) -> Self {
		if r.below(2) == 0 {
			SatE::A(u8::gen(r, d))
		} else {
			SatE::B { x: u16::gen(r, d), y: None, z: u64::gen(r, d) }
		}
	}
	fn val(&self) -> String {
		match self {
			SatE::A(a) => format!("(VVar 0 {})", nest("VPair", "VUnit", &[a.val()])),
			SatE::B { x, z, .. } => format!("(VVar 1 {})", nest("VPair", "VUnit", &[x.val(), "VNone".into(), z.val()])),
		}
	}
	fn same(&self, o: &Self) -> bool {
		self == o
	}
	fn min_wire() -> usize {
		2
	}
}

pub fn run(args: &Args) {
	quiet_panics();
	let mut cx = Cx {
		rng: Rng::new(args.seed ^ 0x13),
		thorough: args.thorough,
		cases: Cases::new("Require Import Scale.Bytes Scale.Hex Scale.Codec Scale.Mel Scale.CorrC13.", "c13case", "c13_check"),
		oracle: Oracle::new(),
		stats: Stats::new(),
		only: args.only.clone(),
	};
	{
		let cx = &mut cx;
		crate::for_types!(mel_type, cx;
			u8, u16, u32, u64, u128, i8, i16, i32, i64, i128, bool, (),
			Compact<u8>, Compact<u16>, Compact<u32>, Compact<u64>, Compact<u128>,
			NonZeroU8, NonZeroU16, NonZeroU32, NonZeroU64, NonZeroU128, NonZeroI8, NonZeroI16, NonZeroI32, NonZeroI64, NonZeroI128,
			PhantomData<u32>, Duration, Range<u32>, RangeInclusive<u16>, Range<Compact<u64>>,
			Option<u8>, Option<bool>, Option<Option<u16>>, Option<Compact<u128>>, Option<()>,
			Result<u8, bool>, Result<(), u32>, Result<Option<u8>, Result<bool, u128>>, Result<Compact<u64>, [u8; 11]>,
			[u8; 0], [u8; 1], [u8; 32], [u16; 2], [u128; 2], [bool; 3], [Option<u8>; 3], [(u8, u16); 2], [[u8; 2]; 3], [Compact<u32>; 4], [(); 3],
			(u8,), (u8, u16), (u8, u16, u32), (Option<u8>, Result<u8, u8>, ()), (Compact<u32>, Compact<u64>), ((u8, u16), (bool, u8)),
			(u8, u8, u8, u8, u8, u8, u8, u8, u8, u8, u8, u8, u8, u8, u8, u8, u8, u16),
			Box<u8>, Box<(u8, Compact<u16>)>, Box<[u8; 16]>, Arc<u64>, Arc<Option<Box<u32>>>,
			S1, UnitS, Nt, Sk, Disc, G<u8>, G<Option<Box<u8>>>, G<Compact<u64>>, Tr, Box<Tr>, [Disc; 3], (S1, Disc), Option<Sk>,
			CpM, EaM, EnM, [CpM; 2], Option<EaM>, (EnM, CpM), G<CpM>,
			Result<u8, u32>, Result<bool, u128>, Result<(), [u8; 9]>, Unit1, TrE, OneV, OneSk, Option<OneV>, [OneSk; 2], (Unit1, OneV), Box<TrE>, MelDup, [MelDup; 2], Option<MelDup>,
			[Unit1; 4], [TrU; 3], (u8, [Unit1; 8]), Option<[Unit1; 2]>, [[Unit1; 2]; 2], SatS, SatE, (SatS, u8), Option<SatE>
		);
		crate::for_types!(cel_type, cx;
			u8, u16, u32, u64, u128, i8, i16, i32, i64, i128, bool, (),
			NonZeroU8, NonZeroU32, NonZeroI64, NonZeroU128, PhantomData<u32>, Duration, Range<u32>, RangeInclusive<u16>,
			[u8; 0], [u8; 32], [u16; 2], [bool; 3], [(u8, u16); 2], [[u8; 2]; 3], [(); 3],
			(u8,), (u8, u16), (u8, u16, u32), ((u8, u16), (bool, u8)), Box<u8>, Box<[u8; 16]>, (Duration, NonZeroU16, [i32; 2])
		);
	}
	// which types carry the ConstEncodedLen marker, and which must not
	{
		let cx = &mut cx;
		cel_markers!(cx;
			u8, u64, bool, (), Duration, [u8; 4], (u8, u16), Box<u8>, Box<[u8; 16]>, Range<u32>, RangeInclusive<u16>, PhantomData<u32>, NonZeroU32,
			Compact<u8>, Compact<u32>, Option<u8>, Option<()>, Result<u8, u8>, Box<Compact<u32>>, Box<Option<u8>>, Range<Compact<u64>>, RangeInclusive<Compact<u16>>,
			[Compact<u16>; 2], [Box<Compact<u16>>; 2], (u8, Box<Result<u8, u16>>), (u8, Compact<u16>), Option<Box<u8>>, [Option<u8>; 2]
		);
	}
	// encoded_fixed_size of every registry type
	{
		let cx = &mut cx;
		crate::for_all_types!(fixed_type, cx);
	}
	let rule = "for every MaxEncodedLen registry type (primitives, compacts, NonZero, Option/Result/arrays/tuples/Box/Arc nestings, Duration, ranges, derived structs/enums with compact / encoded_as / skip attributes and generic instantiations): the reported max_encoded_len() vs the model's mel, and 300 (3000 thorough) values, half of them with every integer forced to its maximum; ConstEncodedLen types: exact length on 100 values; presence / absence of the ConstEncodedLen marker observed by method resolution for 28 std/crate types (a marked type must show one length on 100 values); encoded_fixed_size() of every registry type vs the model's fixed_size and exact length on 40 values. Cases = the reported constants; oracle_checks = values tried";
	cx.cases.write(&args.out, "c13", args.shards);
	cx.oracle.write(&args.out);
	cx.stats.write(&args.out, cx.cases.len(), cx.cases.nontrivial, cx.cases.dups, cx.oracle.checks, rule);
}
