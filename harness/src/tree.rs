//! A recursive derived type (C11's stack-safety clause, and C02/C03/C12 over recursion).
//! The model is `Rec.rdec` over the descriptor `Tree::rdef()`; the recursion budget passed to the
//! model is chosen by the harness (the theorems `rec_depth_limit_budget_irrelevant` and
//! `rec_budget_monotone` make the choice immaterial once it is large enough).
use crate::common::*;
use crate::gen::{b, mutate, Cx, Mode};
use crate::inputs::*;
use crate::universe::Uni;
use parity_scale_codec::{Decode, DecodeLimit, DecodeWithMemTracking, Encode};
use std::mem::size_of;
use std::panic::{catch_unwind, AssertUnwindSafe};

#[derive(Encode, Decode, DecodeWithMemTracking, Debug, PartialEq, Clone)]
pub enum Tree {
	#[codec(index = 0)]
	Leaf(u8),
	#[codec(index = 1)]
	Node(Box<Tree>),
	#[codec(index = 2)]
	Pair(Box<Tree>, u16, Option<Box<Tree>>),
	#[codec(index = 5)]
	List(Vec<Tree>),
}

/// a user-defined owning pointer implementing the public wrapper traits the documented way
/// (it inherits the provided `decode_wrapped`), used as the recursion point of a list
pub struct Ptr<T>(pub Box<T>);
impl<T> From<T> for Ptr<T> {
	fn from(t: T) -> Self {
		Ptr(Box::new(t))
	}
}
impl<T> std::ops::Deref for Ptr<T> {
	type Target = T;
	fn deref(&self) -> &T {
		&self.0
	}
}
impl<T> parity_scale_codec::WrapperTypeEncode for Ptr<T> {}
impl<T> parity_scale_codec::WrapperTypeDecode for Ptr<T> {
	type Wrapped = T;
}
impl<T: DecodeWithMemTracking> DecodeWithMemTracking for Ptr<T> {}
impl<T: PartialEq> PartialEq for Ptr<T> {
	fn eq(&self, o: &Self) -> bool {
		self.0 == o.0
	}
}
impl<T: std::fmt::Debug> std::fmt::Debug for Ptr<T> {
	fn fmt(&self, f: &mut std::fmt::Formatter<'_>) -> std::fmt::Result {
		self.0.fmt(f)
	}
}
#[derive(Encode, Decode, DecodeWithMemTracking, Debug, PartialEq)]
pub enum PList {
	#[codec(index = 0)]
	Nil(u8),
	#[codec(index = 1)]
	Cons(Ptr<PList>),
}
impl PList {
	/// the provided decode_wrapped descends and ascends but announces no allocation
	pub fn rdef() -> String {
		"[(0, [FTy (TPrim 1)]); (1, [FBox 0])]".to_string()
	}
	fn nesting(&self) -> u32 {
		match self {
			PList::Nil(_) => 0,
			PList::Cons(p) => 1 + p.0.nesting(),
		}
	}
	fn coq(&self) -> String {
		match self {
			PList::Nil(x) => format!("(VVar 0 (VPair (VN {x}) VUnit))"),
			PList::Cons(p) => format!("(VVar 1 (VPair {} VUnit))", p.0.coq()),
		}
	}
}

impl Tree {
	pub fn rdef() -> String {
		let sz = size_of::<Tree>();
		format!("[(0, [FTy (TPrim 1)]); (1, [FBox {sz}]); (2, [FBox {sz}; FTy (TPrim 2); FOptBox {sz}]); (5, [FVec {sz}])]")
	}
	fn gen_at(r: &mut Rng, d: u32, maxd: u32) -> Tree {
		if d >= maxd {
			return Tree::Leaf(r.below(256) as u8);
		}
		match r.below(8) {
			0 | 1 => Tree::Leaf(r.below(256) as u8),
			2 | 3 => Tree::Node(Box::new(Tree::gen_at(r, d + 1, maxd))),
			4 | 5 => {
				let o = if r.chance(1, 2) { Some(Box::new(Tree::gen_at(r, d + 1, maxd))) } else { None };
				Tree::Pair(Box::new(Tree::gen_at(r, d + 1, maxd)), r.below(65536) as u16, o)
			},
			_ => {
				let n = r.below(4) as usize;
				Tree::List((0..n).map(|_| Tree::gen_at(r, d + 1, maxd)).collect())
			},
		}
	}
	/// a chain nested `n` levels through one kind of holder
	pub fn chain(kind: u32, n: usize) -> Vec<u8> {
		let mut out = Vec::with_capacity(2 * n + 2);
		for _ in 0..n {
			match kind {
				0 => out.push(1),                    // Node(Box<..>)
				1 => out.extend_from_slice(&[5, 4]), // List(vec![..]) with one element
				_ => out.push(2),                    // Pair(Box<..>, _, _): recursion in the first field
			}
		}
		out.extend_from_slice(&[0, 7]);
		if kind >= 2 {
			// close every Pair: the u16 and a None for the optional second child
			for _ in 0..n {
				out.extend_from_slice(&[9, 0, 0]);
			}
		}
		out
	}
}

impl Uni for Tree {
	fn desc() -> String {
		Tree::rdef()
	}
	fn gen(r: &mut Rng, _d: u32) -> Self {
		let maxd = [1, 2, 3, 5, 8][r.below(5) as usize];
		Tree::gen_at(r, 0, maxd)
	}
	fn val(&self) -> String {
		match self {
			Tree::Leaf(x) => format!("(VVar 0 (VPair (VN {x}) VUnit))"),
			Tree::Node(b) => format!("(VVar 1 (VPair {} VUnit))", Tree::val(b)),
			Tree::Pair(a, n, o) => format!(
				"(VVar 2 (VPair {} (VPair (VN {n}) (VPair {} VUnit))))",
				Tree::val(a),
				match o {
					None => "VNone".to_string(),
					Some(b) => format!("(VSome {})", Tree::val(b)),
				}
			),
			Tree::List(l) => format!("(VVar 3 (VPair (VSeq [{}]) VUnit))", l.iter().map(Tree::val).collect::<Vec<_>>().join("; ")),
		}
	}
	fn same(&self, o: &Self) -> bool {
		self == o
	}
	fn depth(&self) -> u32 {
		match self {
			Tree::Leaf(_) => 0,
			Tree::Node(b) => 1 + Tree::depth(b),
			Tree::Pair(a, _, o) => 1 + Tree::depth(a).max(o.as_ref().map_or(0, |b| Tree::depth(b))),
			Tree::List(l) => {
				if l.is_empty() {
					1
				} else {
					1 + l.iter().map(Tree::depth).max().unwrap()
				}
			},
		}
	}
	fn payload(&self) -> u128 {
		let sz = size_of::<Tree>() as u128;
		match self {
			Tree::Leaf(_) => 0,
			Tree::Node(b) => sz + Tree::payload(b),
			Tree::Pair(a, _, o) => sz + Tree::payload(a) + o.as_ref().map_or(0, |b| sz + Tree::payload(b)),
			Tree::List(l) => l.len() as u128 * sz + l.iter().map(Tree::payload).sum::<u128>(),
		}
	}
	fn min_wire() -> usize {
		2
	}
}

/// one decode of a Tree through a wrapper stack, as a correspondence case
fn push_tree(cx: &mut Cx, inp: &[u8], known: bool, layers: &[Layer], budget: usize, fam: &str) -> RRes<Tree> {
	let r: RRes<Tree> = dec_stack::<Tree>(inp, known, layers);
	cx.stats.bump(&format!("tree/{}/{}", fam, r.tag()));
	let ls = format!("[{}]", layers.iter().map(|l| l.coq()).collect::<Vec<_>>().join("; "));
	let term = format!("(GRecRun {} {} {} {} {} {})", Tree::rdef(), budget, b(known), ls, blist(inp), r.coq());
	let lrp = layers
		.iter()
		.map(|l| match l {
			Layer::Count => "c".to_string(),
			Layer::Depth(d) => format!("d{d}"),
			Layer::Mem(m) => format!("m{m}"),
		})
		.collect::<Vec<_>>()
		.join(",");
	let rp = format!("Tree\ttree\t{}\t{}\t{}\t{}", known as u8, lrp, budget, hex(inp));
	if cx.cases.push(term, rp, !inp.is_empty()) && inp.len() < 24 {
		cx.stats.sample(format!("Tree: decode through {ls} known={known} {} -> {}", hex(inp), r.coq()));
	}
	r
}

/// the encoding of a Tree against the model's encoder (budget: one frame per encoded byte suffices)
fn push_tree_enc(cx: &mut Cx, v: &Tree) {
	let enc = v.encode();
	cx.oracle.check(enc.len() == v.encoded_size() && v.using_encoded(|s| s == &enc[..]), "entry-point:size/using_encoded", || format!("Tree {}", v.val()));
	let term = format!("(GRecEnc {} {} {} {})", Tree::rdef(), enc.len() + 2, v.val(), blist(&enc));
	cx.stats.bump("tree/enc");
	if cx.cases.push(term, format!("Tree\ttreeenc\t{}", hex(&enc)), true) && enc.len() < 24 {
		cx.stats.sample(format!("Tree: {} encodes to {}", v.val(), hex(&enc)));
	}
}

fn tree_inputs(cx: &mut Cx, nv: usize, nm: usize) -> Vec<(Vec<u8>, &'static str)> {
	let mut out = vec![];
	let mut prev: Vec<u8> = vec![];
	for _ in 0..nv {
		let v = Tree::gen(&mut cx.rng, 0);
		let enc = v.encode();
		for _ in 0..nm {
			let (m, fam) = mutate(&mut cx.rng, &enc, &prev);
			if fam != "valid" {
				out.push((m, fam));
			}
		}
		prev = enc.clone();
		out.push((enc, "valid"));
	}
	// chains through each kind of holder: deep but narrow
	for kind in 0..3 {
		for n in [1usize, 2, 7, 40, 150] {
			out.push((Tree::chain(kind, n), "chain"));
		}
	}
	for _ in 0..nv {
		let n = 1 + cx.rng.below(12) as usize;
		out.push((cx.rng.bytes(n), "random"));
	}
	out
}

/// runs a decode of a chain nested `depth` levels in a child process on a thread with a small
/// stack; returns Some("OK"/"ERR") or None when the child died (stack overflow is a process abort)
fn deep_child(kind: u32, depth: usize, limit: Option<u32>, stack_kb: usize) -> Option<String> {
	let exe = std::env::current_exe().ok()?;
	let out = std::process::Command::new(exe)
		.args(["treedeep", &kind.to_string(), &depth.to_string(), &limit.map_or("plain".to_string(), |l| l.to_string()), &stack_kb.to_string()])
		.output()
		.ok()?;
	if !out.status.success() {
		return None;
	}
	Some(String::from_utf8_lossy(&out.stdout).trim().to_string())
}

/// child entry point: `harness treedeep <kind> <depth> <limit|plain> <stack_kb>`
pub fn deep_main(a: &[String]) {
	let kind: u32 = a[0].parse().unwrap();
	let depth: usize = a[1].parse().unwrap();
	let limit: Option<u32> = a[2].parse().ok();
	let stack_kb: usize = a[3].parse().unwrap();
	let inp = Tree::chain(if kind == 3 { 0 } else { kind }, depth);
	let h = std::thread::Builder::new()
		.stack_size(stack_kb * 1024)
		.spawn(move || {
			let mut s = &inp[..];
			let ok = match (limit, kind) {
				(Some(l), 3) => PList::decode_with_depth_limit(l, &mut s).map(std::mem::forget).is_ok(),
				(None, 3) => PList::decode(&mut s).map(std::mem::forget).is_ok(),
				(Some(l), _) => Tree::decode_with_depth_limit(l, &mut s).is_ok(),
				(None, _) => Tree::decode(&mut s).is_ok(),
			};
			// a decoded deep value is dropped iteratively here so that only the decode is measured
			ok
		})
		.unwrap();
	match h.join() {
		Ok(true) => println!("OK"),
		Ok(false) => println!("ERR"),
		Err(_) => println!("PANIC"),
	}
}

pub fn run(cx: &mut Cx) {
	let t = cx.thorough;
	match cx.mode {
		Mode::C01 | Mode::C07 => {
			for _ in 0..(if t { 200 } else { 30 }) {
				let v = Tree::gen(&mut cx.rng, 0);
				push_tree_enc(cx, &v);
			}
		},
		Mode::C02 => {
			for _ in 0..(if t { 200 } else { 30 }) {
				let v = Tree::gen(&mut cx.rng, 0);
				let enc = v.encode();
				push_tree_enc(cx, &v);
				let k = cx.rng.below(4) as usize;
				let mut inp = enc.clone();
				inp.extend(cx.rng.bytes(k));
				let known = cx.rng.chance(3, 4);
				let r = push_tree(cx, &inp, known, &[], inp.len() + 2, "valid+suffix");
				let ok = matches!(&r, RRes::Ok(w, c, _) if w == &v && *c == enc.len());
				cx.oracle.check(ok, "roundtrip", || format!("Tree\ttree\t{}", hex(&inp)));
			}
			// known finding F5, re-confirmed on every run: the `exhausted` flag of a RangeInclusive that
			// has been iterated to its end is not on the wire, and the decoded range differs from it
			if cx.only.is_none() {
				let mut r = 3u8..=5u8;
				while r.next().is_some() {}
				let back = <std::ops::RangeInclusive<u8>>::decode(&mut &r.encode()[..]);
				cx.stats.bump("range-inclusive/exhausted");
				cx.oracle.check(back.as_ref().ok() == Some(&r), "roundtrip/range-inclusive-exhausted-flag", || {
					format!("(3u8..=5u8) iterated to exhaustion encodes to {} and decodes to {:?} != {:?}", hex(&r.encode()), back.ok(), r)
				});
			}
		},
		Mode::C03 | Mode::C14 => {
			let (nv, nm) = if t { (60, 10) } else { (10, 5) };
			for (inp, fam) in tree_inputs(cx, nv, nm) {
				let known = cx.rng.chance(1, 2);
				let r = push_tree(cx, &inp, known, &[], inp.len() + 2, fam);
				cx.oracle.check(!matches!(r, RRes::Panic), "decode-panic", || format!("Tree\ttree\t{}", hex(&inp)));
			}
			// known finding F7, re-confirmed on every run: plain `decode` recurses natively, so input
			// nested deeply enough exhausts the stack and the process aborts (a child process here)
			if cx.mode == Mode::C03 && cx.only.is_none() {
				let deep = 200_000;
				let r = deep_child(0, deep, None, 1024);
				cx.stats.bump("tree/deep-plain-decode");
				cx.oracle.check(r.is_some(), "abort/native-stack-exhausted-on-recursive-type", || {
					format!("Tree::decode of Node(Box<..>) nested {deep} levels ({} input bytes) on a 1 MiB stack: the process died (stack overflow)", deep + 2)
				});
			}
		},
		Mode::C11 => {
			let (nv, nm) = if t { (40, 6) } else { (8, 3) };
			for (inp, fam) in tree_inputs(cx, nv, nm) {
				let base: DRes<Tree> = dec_slice(&inp);
				let rp = || format!("Tree\ttree\t{}", hex(&inp));
				let depth = match &base {
					DRes::Ok(w, _) => w.depth(),
					_ => dec_rec::<Tree>(&inp, true).2,
				};
				let ls: Vec<u32> = if depth <= 10 { (0..=depth + 2).collect() } else { vec![0, 1, depth / 2, depth - 1, depth, depth + 1, depth + 2] };
				let mut prev_ok = false;
				for l in ls {
					let known = cx.rng.chance(1, 2);
					// the model runs with the smallest budget the theorem allows: l + 1 frames
					let rr = push_tree(cx, &inp, known, &[Layer::Depth(l)], l as usize + 1, fam);
					match (&base, &rr) {
						(DRes::Ok(w, c), RRes::Ok(x, d, _)) => {
							cx.oracle.check(w == x && c == d, "depth-limit-not-transparent", || format!("{}\tL={l}", rp()));
							cx.oracle.check(l >= depth, "depth-limit-accepts-too-deep", || format!("{}\tL={l}\tdepth={depth}", rp()));
							prev_ok = true;
						},
						(DRes::Ok(..), RRes::Err(_)) => {
							cx.oracle.check(l < depth, "depth-limit-rejects-shallow", || format!("{}\tL={l}\tdepth={depth}", rp()));
							cx.oracle.check(!prev_ok, "depth-limit-not-monotone", || format!("{}\tL={l}", rp()));
						},
						(DRes::Err, RRes::Err(_)) => {},
						(DRes::Err, RRes::Ok(..)) => cx.oracle.check(false, "depth-limit-accepts-what-decode-rejects", || format!("{}\tL={l}", rp())),
						_ => cx.oracle.check(false, "depth-limit-panic", || format!("{}\tL={l}", rp())),
					}
					let all = catch_unwind(AssertUnwindSafe(|| {
						let mut s = &inp[..];
						Tree::decode_all_with_depth_limit(l, &mut s).ok()
					}));
					let expect = matches!(&base, DRes::Ok(_, c) if *c == inp.len()) && l >= depth;
					match all {
						Ok(a) => cx.oracle.check(a.is_some() == expect, "decode_all_with_depth_limit", || format!("{}\tL={l}", rp())),
						Err(_) => cx.oracle.check(false, "depth-limit-panic", || format!("{}\tL={l}", rp())),
					}
				}
			}
			// the list through the user-defined pointer: every limit around its nesting
			for n in [0usize, 1, 2, 5, 30] {
				let inp = Tree::chain(0, n);
				for l in 0..=(n as u32 + 2).min(8) {
					let known = cx.rng.chance(1, 2);
					let r: RRes<PList> = dec_stack::<PList>(&inp, known, &[Layer::Depth(l)]);
					let rc = match &r {
						RRes::Ok(v, c, st) => format!("(ROk' {} {} [{}])", v.coq(), c, st.iter().map(|x| x.to_string()).collect::<Vec<_>>().join("; ")),
						RRes::Err(st) => format!("(RErr' [{}])", st.iter().map(|x| x.to_string()).collect::<Vec<_>>().join("; ")),
						RRes::Panic => "RPanic'".to_string(),
					};
					cx.stats.bump("plist/depth");
					cx.cases.push(format!("(GRecRun {} {} {} [(LDepth {l})] {} {})", PList::rdef(), l as usize + 1, b(known), blist(&inp), rc), format!("PList\tplist\t{}\td{l}\t{}", known as u8, hex(&inp)), true);
					let ok = matches!(&r, RRes::Ok(v, _, _) if v.nesting() == n as u32);
					cx.oracle.check(ok == (l as usize >= n), if ok { "depth-limit-accepts-too-deep" } else { "depth-limit-rejects-shallow" }, || format!("PList chain of {n} through a user-defined WrapperTypeDecode pointer, limit {l}: {}", rc));
					if let RRes::Ok(v, _, _) = r {
						// not dropped recursively on purpose for long chains
						drop(v);
					}
				}
			}
			// adversarially deep input on a small fixed-size stack: the limited decode must answer
			// (an error below the nesting, the value at or above it) without exhausting the stack
			if cx.only.is_none() {
				let deep = if t { 1_000_000 } else { 200_000 };
				for kind in 0..4u32 {
					for l in [0u32, 1, 16, 64] {
						let r = deep_child(kind, deep, Some(l), 256);
						cx.stats.bump("tree/deep-small-stack");
						cx.oracle.check(r.as_deref() == Some("ERR"), "depth-limit-stack-overflow", || {
							format!("Tree chain kind={kind} nested {deep} levels, decode_with_depth_limit({l}) on a 256 KiB stack: {:?}", r)
						});
					}
					// shallow enough: the value comes back on the same small stack
					let r = deep_child(kind, 40, Some(64), 256);
					cx.oracle.check(r.as_deref() == Some("OK"), "depth-limit-rejects-shallow", || format!("Tree chain kind={kind} nested 40 levels with limit 64: {:?}", r));
				}
			}
		},
		Mode::C12 => {
			let (nv, nm) = if t { (40, 4) } else { (8, 2) };
			for (inp, fam) in tree_inputs(cx, nv, nm) {
				if inp.len() > 200 {
					continue;
				}
				let base: DRes<Tree> = dec_slice(&inp);
				let rp = || format!("Tree\ttree\t{}", hex(&inp));
				let budget = inp.len() + 2;
				let known0 = cx.rng.chance(1, 2);
				let r0 = push_tree(cx, &inp, known0, &[Layer::Mem(usize::MAX)], budget, fam);
				let u = match &r0 {
					RRes::Ok(_, _, st) | RRes::Err(st) => st[0],
					RRes::Panic => {
						cx.oracle.check(false, "mem-limit-panic", rp);
						continue;
					},
				};
				if let (DRes::Ok(w, _), RRes::Ok(..)) = (&base, &r0) {
					let p = w.payload();
					cx.oracle.check(u as u128 >= p, "tracked-usage-below-payload", || format!("{}\tU={u}\tpayload={p}", rp()));
					if p == 0 && w.depth() == 0 {
						cx.oracle.check(u == 0, "usage-nonzero-without-heap", || format!("{}\tU={u}", rp()));
					}
				}
				let limits: Vec<u64> = if u <= 24 { (0..=u + 1).collect() } else { vec![0, 1, u / 2, u - 1, u, u + 1] };
				for l in limits {
					let known = cx.rng.chance(1, 2);
					let rr = push_tree(cx, &inp, known, &[Layer::Mem(l as usize)], budget, fam);
					match (&base, &rr) {
						(DRes::Ok(w, c), RRes::Ok(x, d, _)) => {
							cx.oracle.check(w == x && c == d, "mem-limit-not-transparent", || format!("{}\tL={l}", rp()));
							cx.oracle.check(!(u > 0 && l <= u), "mem-limit-exceeded-but-ok", || format!("{}\tL={l}\tU={u}", rp()));
						},
						(DRes::Ok(..), RRes::Err(_)) => cx.oracle.check(l <= u, "mem-limit-fails-above-usage", || format!("{}\tL={l}\tU={u}", rp())),
						(DRes::Err, RRes::Err(_)) => {},
						(DRes::Err, RRes::Ok(..)) => cx.oracle.check(false, "mem-limit-accepts-what-decode-rejects", || format!("{}\tL={l}", rp())),
						_ => cx.oracle.check(false, "mem-limit-panic", || format!("{}\tL={l}", rp())),
					}
				}
			}
		},
		_ => {},
	}
}

/// replay of one Tree case (`--only`)
pub fn replay(cx: &mut Cx, only: &[String]) {
	if only[1] == "treeenc" {
		if let Ok(v) = Tree::decode(&mut &unhex(&only[2])[..]) {
			push_tree_enc(cx, &v);
		}
		return;
	}
	let layers = crate::gen::parse_layers(&only[3]);
	push_tree(cx, &unhex(&only[5]), only[2] == "1", &layers, only[4].parse().unwrap(), "replay");
}
