mod alloc;
mod c04;
mod c06;
mod c10;
mod c13;
mod c15;
mod c16;
mod common;
mod entry;
mod gen;
mod inputs;
mod registry;
mod tree;
mod universe;

#[global_allocator]
static GLOBAL: alloc::Counting = alloc::Counting;

use common::*;
use gen::{run_type, Cx, Mode};
use registry::*;

fn run_generic(mode: Mode, args: &Args, prefix: &str, rule: &str) {
	quiet_panics();
	let mut cx = Cx {
		mode,
		rng: Rng::new(args.seed ^ (mode as u64) << 32),
		thorough: args.thorough,
		cases: {
			let mut c = Cases::new("Require Import Scale.Bytes Scale.Hex Scale.Codec Scale.Rec Scale.RecRt Scale.CorrGen.", "gcase", "g_check");
			if args.thorough {
				c.max_total = 160 << 20;
				c.max_case = 3 << 20;
			}
			// every registry type gets a share, so that the model is compared on all of them
			c.quota = c.max_total / 90;
			c
		},
		oracle: Oracle::new(),
		stats: Stats::new(),
		only: args.only.as_ref().map(|l| l.split('\t').map(|s| s.to_string()).collect()),
		ntypes: 0,
	};
	// the recursive derived type first (its model is Rec.rdec, not a universe type), so that its
	// cases are inside the literal budget of the run
	let quota = std::mem::replace(&mut cx.cases.quota, 0);
	match cx.only.clone() {
		None => tree::run(&mut cx),
		Some(o) if o[0] == "Tree" => tree::replay(&mut cx, &o),
		_ => {},
	}
	cx.cases.quota = quota;
	{
		let cx = &mut cx;
		for_all_types!(run_type, cx);
	}
	if mode == Mode::C09 && args.only.is_none() {
		// the known finding F4, re-confirmed with a capped count: a zero-wire element type
		// makes the allocation follow the claimed count (2^20 elements from a 4-byte input)
		use parity_scale_codec::{Compact, Decode, Encode};
		let inp = Compact(1u32 << 20).encode();
		let m = alloc::Meter::start();
		let r = <Vec<Box<()>>>::decode(&mut &inp[..]).map(|v| v.len());
		let u = m.stop();
		cx.oracle.check(u.peak <= 64 * 1024, "heap-use-exceeds-input-bound/zero-wire-element", || {
			format!("Vec<Box<()>>\talloc\t1\t{}\tinput=slice\tlen={}\tpeak_live={}\tdecoded={:?}", hex(&inp), inp.len(), u.peak, r.ok())
		});
	}
	if mode == Mode::C01 && args.only.is_none() {
		// the largest element counts the format can represent must encode, not panic:
		// 2^32-1 zero-sized elements, 2^29-1 bits
		use parity_scale_codec::Encode;
		use std::panic::{catch_unwind, AssertUnwindSafe};
		let r = catch_unwind(AssertUnwindSafe(|| vec![(); u32::MAX as usize].encode())).map_err(drop);
		cx.stats.bump("largest-count/vec-of-unit");
		cx.oracle.check(r == Ok(vec![0x03, 0xff, 0xff, 0xff, 0xff]), "encode-of-representable-count-fails", || format!("vec![(); u32::MAX].encode() = {:?}", r.as_ref().map(|b| hex(&b[..b.len().min(8)]))));
		let r = catch_unwind(AssertUnwindSafe(|| std::collections::VecDeque::from(vec![(); u32::MAX as usize]).encode())).map_err(drop);
		cx.oracle.check(r == Ok(vec![0x03, 0xff, 0xff, 0xff, 0xff]), "encode-of-representable-count-fails", || format!("VecDeque of u32::MAX units: {:?}", r.as_ref().map(|b| hex(&b[..b.len().min(8)]))));
		#[cfg(not(feature = "no-opt"))]
		{
			let bits = (1usize << 29) - 1;
			let r = catch_unwind(AssertUnwindSafe(|| {
				let e = BitVec::<u8, Lsb0>::repeat(false, bits).encode();
				(e.len(), e[..4].to_vec(), e[4..].iter().all(|b| *b == 0))
			}))
			.map_err(drop);
			cx.stats.bump("largest-count/bits");
			cx.oracle.check(r == Ok((4 + (1 << 26), vec![0xfe, 0xff, 0xff, 0x7f], true)), "encode-of-representable-count-fails", || format!("BitVec of 2^29-1 bits: {:?}", r));
		}
	}
	#[cfg(not(feature = "no-opt"))]
	if mode == Mode::C03 && args.only.is_none() {
		// one bit more than the format allows, with the whole promised payload present
		use parity_scale_codec::{Compact, Decode, Encode};
		let bits = 1u32 << 29;
		let mut inp = Compact(bits).encode();
		inp.resize(inp.len() + (bits as usize / 8), 0);
		let r = std::panic::catch_unwind(std::panic::AssertUnwindSafe(|| BitVec::<u8, Lsb0>::decode(&mut &inp[..]).map(|v| v.len()).ok())).map_err(drop);
		cx.stats.bump("bits/2^29-with-payload");
		cx.oracle.check(r == Ok(None), "overlong-bit-sequence-accepted", || format!("BitVec<u8,Lsb0> from Compact(2^29) ++ 64 MiB of zeros: {:?} (the model rejects 2^29 bits)", r));
		let r = std::panic::catch_unwind(std::panic::AssertUnwindSafe(|| bitvec::boxed::BitBox::<u32, Lsb0>::decode(&mut &inp[..]).map(|v| v.len()).ok())).map_err(drop);
		cx.oracle.check(r == Ok(None), "overlong-bit-sequence-accepted", || format!("BitBox<u32,Lsb0> from Compact(2^29) ++ 64 MiB of zeros: {:?}", r));
	}
	if mode == Mode::C19 && args.only.is_none() {
		// one read of 4 GiB through the counter (the count must not wrap at 2^32): the buffer is
		// unreserved address space from the harness allocator and the input writes nothing into it
		use parity_scale_codec::{CountedInput, Decode, Error, Input};
		struct Zeros(u64);
		impl Input for Zeros {
			fn remaining_len(&mut self) -> Result<Option<usize>, Error> {
				Ok(None)
			}
			fn read(&mut self, into: &mut [u8]) -> Result<(), Error> {
				self.0 += into.len() as u64;
				Ok(())
			}
		}
		// single large reads that fail (and succeed) over a slice and over a recording input: whatever
		// the wrapper does with a large request, count == bytes that left the wrapped input
		{
			fn big<T: Decode>(cx: &mut gen::Cx, name: &str, total: usize, have: usize) {
				let data: Vec<u8> = (0..have).map(|i| (i * 7) as u8).collect();
				let mut s = &data[..];
				let r = std::panic::catch_unwind(std::panic::AssertUnwindSafe(|| {
					let mut c = CountedInput::new(&mut s);
					let ok = T::decode(&mut c).map(drop).is_ok();
					let after_first = c.count();
					let _ = u8::decode(&mut c);
					(ok, after_first, c.count())
				}))
				.map_err(drop);
				let consumed = (have - s.len()) as u64;
				cx.stats.bump(if have >= total { "count/large-read-ok" } else { "count/large-read-fails" });
				let good = match r {
					Ok((ok, a, b)) => ok == (have >= total) && b == consumed && (a == consumed || a + 1 == consumed),
					Err(_) => false,
				};
				cx.oracle.check(good, "count!=slice-consumed", || format!("{name} ({total} bytes) through CountedInput over a {have}-byte slice, then one u8: {:?}, slice gave up {consumed}", r));
			}
			for have in [0usize, 1, 16383, 16384, 16385, 17000, 19999, 20000, 20001, 32768, 32769, 40000, 40001, 40002, 70000] {
				big::<[u8; 20000]>(&mut cx, "[u8;20000]", 20000, have);
				big::<Box<[u8; 20000]>>(&mut cx, "Box<[u8;20000]>", 20000, have);
				big::<[u16; 10000]>(&mut cx, "[u16;10000]", 20000, have);
				big::<[u8; 40001]>(&mut cx, "[u8;40001]", 40001, have);
				big::<([u8; 16384], [u8; 16385])>(&mut cx, "([u8;16384],[u8;16385])", 32769, have);
				big::<[[u8; 16385]; 2]>(&mut cx, "[[u8;16385];2]", 32770, have);
			}
			// raw reads of every size class on the wrapper itself
			for (want, have) in [(16385usize, 16384usize), (40001, 40000), (40001, 16384), (65536, 65535), (16384, 16383), (50000, 50000)] {
				let data = vec![3u8; have];
				let mut s = &data[..];
				let mut buf = vec![0u8; want];
				let (ok, count) = {
					let mut c = CountedInput::new(&mut s);
					let ok = c.read(&mut buf).is_ok();
					(ok, c.count())
				};
				let consumed = (have - s.len()) as u64;
				cx.stats.bump("count/raw-large-read");
				cx.oracle.check(ok == (have >= want) && count == consumed && (ok || count == 0), "count!=slice-consumed", || {
					format!("CountedInput::read of {want} bytes over a {have}-byte slice: ok={ok} count={count}, slice gave up {consumed}")
				});
			}
		}
		// the counter over the crate's reader adapter, the reader handing out a few bytes per call:
		// after a successful decode, count == bytes the reader gave up == encoded length
		{
			struct Choppy<'a> {
				data: &'a [u8],
				pos: usize,
				step: usize,
			}
			impl<'a> std::io::Read for Choppy<'a> {
				fn read(&mut self, buf: &mut [u8]) -> std::io::Result<usize> {
					let n = buf.len().min(self.step).min(self.data.len() - self.pos);
					buf[..n].copy_from_slice(&self.data[self.pos..self.pos + n]);
					self.pos += n;
					Ok(n)
				}
			}
			fn chop<T: Decode + parity_scale_codec::Encode + PartialEq>(cx: &mut gen::Cx, name: &str, v: &T) {
				let enc = v.encode();
				for step in [1usize, 2, 3, 7, 1 << 20] {
					for cut in [enc.len(), enc.len().saturating_sub(1), enc.len() / 2, 1] {
						let cut = cut.min(enc.len());
						let mut rd = Choppy { data: &enc[..cut], pos: 0, step };
						let r = std::panic::catch_unwind(std::panic::AssertUnwindSafe(|| {
							let mut io = parity_scale_codec::IoReader(&mut rd);
							let mut c = CountedInput::new(&mut io);
							let d = T::decode(&mut c);
							(d.ok(), c.count())
						}));
						let gave = rd.pos as u64;
						cx.stats.bump("count/io-reader");
						let good = match &r {
							Ok((Some(w), n)) => cut == enc.len() && w == v && *n == gave && gave == enc.len() as u64,
							Ok((None, n)) => cut < enc.len() && *n <= gave,
							Err(_) => false,
						};
						cx.oracle.check(good, "count!=delivered", || {
							format!("{name} through CountedInput<IoReader<reader handing out {step} bytes per call>>: input {} of {} encoded bytes, decoded={} count={:?}, the reader gave up {gave}", cut, enc.len(), matches!(&r, Ok((Some(_), _))), r.as_ref().ok().map(|x| x.1))
						});
					}
				}
			}
			chop(&mut cx, "u32", &0xdead_beefu32);
			chop(&mut cx, "u64", &0x0123_4567_89ab_cdefu64);
			chop(&mut cx, "u128", &(u128::MAX / 3));
			chop(&mut cx, "(u8,u32,u16)", &(7u8, 0x01020304u32, 0x0a0bu16));
			chop(&mut cx, "Compact<u64>", &parity_scale_codec::Compact(u64::MAX - 1));
			chop(&mut cx, "Vec<u16>", &(0..300u16).collect::<Vec<_>>());
			chop(&mut cx, "Vec<u8>", &(0..300u32).map(|x| x as u8).collect::<Vec<u8>>());
			chop(&mut cx, "String", &"counting input €".to_string());
			chop(&mut cx, "[u8;33]", &[9u8; 33]);
			chop(&mut cx, "Option<[u32;5]>", &Some([1u32, 2, 3, 4, 5]));
			chop(&mut cx, "Vec<(u8,String)>", &vec![(1u8, "a".to_string()), (2, "bcd".to_string())]);
		}
		const N: usize = (1 << 32) + 5;
		let mut z = Zeros(0);
		let r = std::panic::catch_unwind(std::panic::AssertUnwindSafe(|| {
			let mut c = CountedInput::new(&mut z);
			let ok = <Box<[u8; N]>>::decode(&mut c).map(drop).is_ok();
			(ok, c.count())
		}))
		.map_err(drop);
		cx.stats.bump("count/4GiB-read");
		cx.oracle.check(r == Ok((true, N as u64)) && z.0 == N as u64, "count!=delivered", || format!("Box<[u8; 2^32+5]> through CountedInput over a zero-producing input: {:?}, delivered {}", r, z.0));
	}
	if mode == Mode::C18 && args.only.is_none() {
		gen::len_cases(&mut cx);
	}
	let mut extra = (0usize, 0usize);
	if mode == Mode::C07 && args.only.is_none() {
		// the default-method graph of the Encode trait against Entry.resolve (own case type)
		extra = entry::run(args.seed, args.thorough, &args.out, &mut cx.oracle, &mut cx.stats);
	}
	cx.stats.add("registry_types", cx.ntypes as u64);
	cx.stats.add("skipped/case-too-big-for-budget", cx.cases.skipped_big as u64);
	if args.thorough {
		// nothing: budget set below
	}
	cx.cases.write(&args.out, prefix, args.shards);
	cx.oracle.write(&args.out);
	cx.stats.write(&args.out, cx.cases.len() + extra.0, cx.cases.nontrivial + extra.1, cx.cases.dups, cx.oracle.checks, rule);
}

fn main() {
	let args: Vec<String> = std::env::args().collect();
	if args.len() < 2 {
		eprintln!("usage: harness <property> --seed N --tier quick|thorough --out DIR [--only LINE]");
		std::process::exit(2);
	}
	if args[1] == "treedeep" {
		tree::deep_main(&args[2..]);
		return;
	}
	let a = Args::parse(&args[2..]);
	let gen_rule = "for each registry type (see distribution.registry_types): seeded boundary-biased values (lengths 0,1,2,63..65,16383..16385 and around multiples of 16384/size_of::<T>, wrapped deques, bit sequences with head offsets, class boundaries of every integer width) and, for decode-driven properties, each valid encoding plus structured mutations (bit flip, boundary byte, truncation, extension, count tampering at the front and inside, splice, count+-1, invalid utf8/tag bytes) and random strings; non-trivial = non-empty input; distinct by hash of the whole case term (type, input, layers, implementation result)";
	match args[1].as_str() {
		"c04" => c04::run(&a),
		"c15" => c15::run(&a),
		"c13" => c13::run(&a),
		"c10" => c10::run(&a),
		"c06" => c06::run(&a),
		"c16" => c16::run(&a),
		"c01" => run_generic(Mode::C01, &a, "c01", gen_rule),
		"c02" => run_generic(Mode::C02, &a, "c02", gen_rule),
		"c03" => run_generic(Mode::C03, &a, "c03", gen_rule),
		"c07" => run_generic(Mode::C07, &a, "c07", gen_rule),
		"c08" => run_generic(Mode::C08, &a, "c08", gen_rule),
		"c09" => run_generic(Mode::C09, &a, "c09", gen_rule),
		"c11" => run_generic(Mode::C11, &a, "c11", gen_rule),
		"c12" => run_generic(Mode::C12, &a, "c12", gen_rule),
		"c14" => run_generic(Mode::C14, &a, "c14", gen_rule),
		"c18" => run_generic(Mode::C18, &a, "c18", gen_rule),
		"c19" => run_generic(Mode::C19, &a, "c19", gen_rule),
		p => {
			eprintln!("unknown property {p}");
			std::process::exit(2);
		},
	}
}
