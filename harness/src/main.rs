mod c04;
mod common;

fn main() {
	let args: Vec<String> = std::env::args().collect();
	if args.len() < 2 {
		eprintln!("usage: harness <property> --seed N --tier quick|thorough --out DIR [--only LINE]");
		std::process::exit(2);
	}
	let a = common::Args::parse(&args[2..]);
	match args[1].as_str() {
		"c04" => c04::run(&a),
		p => {
			eprintln!("unknown property {p}");
			std::process::exit(2);
		},
	}
}
