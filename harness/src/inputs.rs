//! Input implementations and decode runners used by the generic properties.
use crate::universe::Uni;
use parity_scale_codec::{CountedInput, Decode, DecodeWithMemTracking, Error, Input, IoReader, MemTrackingInput};
use std::panic::{catch_unwind, AssertUnwindSafe};

pub enum DRes<T> {
	Ok(T, usize),
	Err,
	Panic,
}
impl<T: Uni> DRes<T> {
	pub fn coq(&self) -> String {
		match self {
			DRes::Ok(v, c) => format!("(DOk {} {})", v.val(), c),
			DRes::Err => "DErr".into(),
			DRes::Panic => "DPanic".into(),
		}
	}
	pub fn tag(&self) -> &'static str {
		match self {
			DRes::Ok(..) => "ok",
			DRes::Err => "err",
			DRes::Panic => "panic",
		}
	}
	pub fn agrees(&self, o: &DRes<T>) -> bool {
		match (self, o) {
			(DRes::Ok(a, c), DRes::Ok(b, d)) => c == d && a.same(b),
			(DRes::Err, DRes::Err) => true,
			(DRes::Panic, DRes::Panic) => true,
			_ => false,
		}
	}
	pub fn is_ok(&self) -> bool {
		matches!(self, DRes::Ok(..))
	}
}

pub fn guard<T>(f: impl FnOnce() -> Option<(T, usize)>) -> DRes<T> {
	match catch_unwind(AssertUnwindSafe(f)) {
		Ok(Some((v, c))) => DRes::Ok(v, c),
		Ok(None) => DRes::Err,
		Err(_) => DRes::Panic,
	}
}

pub fn dec_slice<T: Decode>(bs: &[u8]) -> DRes<T> {
	guard(|| {
		let mut s = bs;
		T::decode(&mut s).ok().map(|v| (v, bs.len() - s.len()))
	})
}

/// std::io::Read that delivers at most `chunk` bytes per call
pub struct ShortReader<'a> {
	pub data: &'a [u8],
	pub pos: usize,
	pub chunk: usize,
}
impl std::io::Read for ShortReader<'_> {
	fn read(&mut self, buf: &mut [u8]) -> std::io::Result<usize> {
		let n = buf.len().min(self.chunk).min(self.data.len() - self.pos);
		buf[..n].copy_from_slice(&self.data[self.pos..self.pos + n]);
		self.pos += n;
		Ok(n)
	}
}
/// IoReader over a reader with short reads.  On success the position is the
/// number of bytes consumed (read_exact never over-reads).
/// a reader that, as `io::Read` allows, reports a spurious `Interrupted` before every delivery
pub struct EintrReader<'a> {
	pub inner: ShortReader<'a>,
	pub tick: u32,
}
impl std::io::Read for EintrReader<'_> {
	fn read(&mut self, buf: &mut [u8]) -> std::io::Result<usize> {
		self.tick += 1;
		if self.tick % 2 == 1 {
			return Err(std::io::Error::from(std::io::ErrorKind::Interrupted));
		}
		self.inner.read(buf)
	}
}
pub fn dec_reader_eintr<T: Decode>(bs: &[u8], chunk: usize) -> DRes<T> {
	guard(|| {
		let mut rd = IoReader(EintrReader { inner: ShortReader { data: bs, pos: 0, chunk: chunk.max(1) }, tick: 0 });
		let r = T::decode(&mut rd).ok();
		r.map(|v| (v, rd.0.inner.pos))
	})
}

pub fn dec_reader<T: Decode>(bs: &[u8], chunk: usize) -> DRes<T> {
	guard(|| {
		let mut rd = IoReader(ShortReader { data: bs, pos: 0, chunk: chunk.max(1) });
		let r = T::decode(&mut rd).ok();
		r.map(|v| (v, rd.0.pos))
	})
}

/// A public-API Input over a slice that can hide its length and records what the
/// decoder asks for.
pub struct Rec<'a> {
	pub data: &'a [u8],
	pub pos: usize,
	pub known: bool,
	pub allocs: Vec<usize>,
	pub depth: u32,
	pub max_depth: u32,
	pub read_bytes: u64,
	pub underflow: bool,
	/// record announced allocation sizes (off while the heap use of the decode is being measured)
	pub record: bool,
}
impl<'a> Rec<'a> {
	pub fn new(data: &'a [u8], known: bool) -> Self {
		Rec { data, pos: 0, known, allocs: vec![], depth: 0, max_depth: 0, read_bytes: 0, underflow: false, record: true }
	}
}
impl Input for Rec<'_> {
	fn remaining_len(&mut self) -> Result<Option<usize>, Error> {
		Ok(if self.known { Some(self.data.len() - self.pos) } else { None })
	}
	fn read(&mut self, into: &mut [u8]) -> Result<(), Error> {
		if into.len() > self.data.len() - self.pos {
			return Err("eof".into());
		}
		into.copy_from_slice(&self.data[self.pos..self.pos + into.len()]);
		self.pos += into.len();
		self.read_bytes += into.len() as u64;
		Ok(())
	}
	fn descend_ref(&mut self) -> Result<(), Error> {
		self.depth += 1;
		self.max_depth = self.max_depth.max(self.depth);
		Ok(())
	}
	fn ascend_ref(&mut self) {
		if self.depth == 0 {
			self.underflow = true;
		} else {
			self.depth -= 1;
		}
	}
	fn on_before_alloc_mem(&mut self, size: usize) -> Result<(), Error> {
		if self.record {
			self.allocs.push(size);
		}
		Ok(())
	}
}
pub fn dec_rec<T: Decode>(bs: &[u8], known: bool) -> (DRes<T>, Vec<usize>, u32, bool) {
	let mut rec = Rec::new(bs, known);
	let r = guard(|| {
		let r = T::decode(&mut rec).ok();
		let pos = rec.pos;
		r.map(|v| (v, pos))
	});
	(r, rec.allocs, rec.max_depth, rec.underflow)
}

#[derive(Clone, Copy, Debug, PartialEq)]
pub enum Layer {
	Count,
	Depth(u32),
	Mem(usize),
}
impl Layer {
	pub fn coq(&self) -> String {
		match self {
			Layer::Count => "LCount".into(),
			Layer::Depth(d) => format!("(LDepth {d})"),
			Layer::Mem(m) => format!("(LMem {m})"),
		}
	}
}

/// public-API re-implementation of nothing: the depth wrapper of the crate is private and
/// only reachable as the outermost layer through `decode_with_depth_limit`.
pub enum RRes<T> {
	Ok(T, usize, Vec<u64>),
	Err(Vec<u64>),
	Panic,
}
impl<T: Uni> RRes<T> {
	pub fn coq(&self) -> String {
		let st = |s: &Vec<u64>| format!("[{}]", s.iter().map(|x| x.to_string()).collect::<Vec<_>>().join("; "));
		match self {
			RRes::Ok(v, c, s) => format!("(ROk' {} {} {})", v.val(), c, st(s)),
			RRes::Err(s) => format!("(RErr' {})", st(s)),
			RRes::Panic => "RPanic'".into(),
		}
	}
	pub fn tag(&self) -> &'static str {
		match self {
			RRes::Ok(..) => "ok",
			RRes::Err(..) => "err",
			RRes::Panic => "panic",
		}
	}
}

/// Runs `T::decode` through a stack of the crate's wrappers (innermost first) over a
/// `Rec` base input.  Supported shapes: any order of Count / Mem, with at most one
/// Depth layer which must be outermost (the crate offers it only as an entry point).
pub fn dec_stack<T: DecodeWithMemTracking>(bs: &[u8], known: bool, layers: &[Layer]) -> RRes<T> {
	use parity_scale_codec::DecodeLimit;
	fn go<T: DecodeWithMemTracking>(input: &mut dyn Input, layers: &[Layer], st: &mut Vec<u64>) -> Option<T> {
		let mut input = DynIn(input);
		match layers.split_first() {
			None => T::decode(&mut input).ok(),
			Some((Layer::Count, rest)) => {
				let mut c = CountedInput::new(&mut input);
				let i = st.len();
				st.push(0);
				let r = go::<T>(&mut c, rest, st);
				st[i] = c.count();
				r
			},
			Some((Layer::Mem(m), rest)) => {
				let mut c = MemTrackingInput::new(&mut input, *m);
				let i = st.len();
				st.push(0);
				let r = go::<T>(&mut c, rest, st);
				st[i] = c.used_mem() as u64;
				r
			},
			Some((Layer::Depth(d), rest)) => {
				assert!(rest.is_empty());
				st.push(0);
				T::decode_with_depth_limit(*d, &mut input).ok()
			},
		}
	}
	let mut rec = Rec::new(bs, known);
	let mut st = vec![];
	let r = catch_unwind(AssertUnwindSafe(|| go::<T>(&mut rec, layers, &mut st)));
	match r {
		Ok(Some(v)) => RRes::Ok(v, rec.pos, st),
		Ok(None) => RRes::Err(st),
		Err(_) => RRes::Panic,
	}
}

/// forwards every method of a trait object (so that generic decoders can be used
/// over a dynamically built wrapper stack)
pub struct DynIn<'a>(pub &'a mut dyn Input);
impl Input for DynIn<'_> {
	fn remaining_len(&mut self) -> Result<Option<usize>, Error> {
		self.0.remaining_len()
	}
	fn read(&mut self, into: &mut [u8]) -> Result<(), Error> {
		self.0.read(into)
	}
	fn read_byte(&mut self) -> Result<u8, Error> {
		self.0.read_byte()
	}
	fn descend_ref(&mut self) -> Result<(), Error> {
		self.0.descend_ref()
	}
	fn ascend_ref(&mut self) {
		self.0.ascend_ref()
	}
	fn on_before_alloc_mem(&mut self, size: usize) -> Result<(), Error> {
		self.0.on_before_alloc_mem(size)
	}
}

/// decode over an unknown-length input without any bookkeeping allocations of the harness
pub fn dec_unknown_quiet<T: Decode>(bs: &[u8]) -> DRes<T> {
	let mut rec = Rec::new(bs, false);
	rec.record = false;
	guard(|| {
		let r = T::decode(&mut rec).ok();
		let pos = rec.pos;
		r.map(|v| (v, pos))
	})
}
