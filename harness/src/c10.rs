//! C10 — failed or panicking decodes release everything exactly once.
//! A scripted element type logs construction and drop into a ledger; every failure position
//! x failure kind is driven through arrays, boxes, shared pointers, growing collections,
//! tuples, derived structs/enums and transparent newtypes, nested two deep.
use crate::alloc::Meter;
use crate::common::*;
use parity_scale_codec::{Decode, DecodeWithMemLimit, DecodeWithMemTracking, Encode, Error, Input};
use std::cell::RefCell;
use std::collections::{BTreeMap, LinkedList, VecDeque};
use std::marker::PhantomData;
use std::panic::{catch_unwind, AssertUnwindSafe};
use std::rc::Rc;
use std::sync::Arc;

#[derive(Default)]
struct Ledger {
	next: u32,
	constructed: Vec<u32>,
	dropped: Vec<u32>,
	z_constructed: u32,
	z_dropped: u32,
}
thread_local! { static LEDGER: RefCell<Ledger> = RefCell::new(Ledger::default()); }
fn reset() {
	// capacity reserved up front: the ledger must not allocate while a decode is metered
	LEDGER.with(|l| {
		*l.borrow_mut() = Ledger { constructed: Vec::with_capacity(1024), dropped: Vec::with_capacity(1024), ..Ledger::default() }
	});
}

/// wire: 0x01..=0x7f ok, 0xEE malformed, 0xFF panic, 0xAA asks the input for an impossible
/// allocation (limit error under decode_with_mem_limit), running out of input = exhausted
fn step<I: Input>(input: &mut I) -> Result<(), Error> {
	match input.read_byte()? {
		0xEE => Err("malformed element".into()),
		0xFF => panic!("element decoder panics"),
		0xAA => input.on_before_alloc_mem(usize::MAX / 2),
		_ => Ok(()),
	}
}

/// a 4-byte element with a destructor
pub struct El {
	id: u32,
}
impl Decode for El {
	fn decode<I: Input>(input: &mut I) -> Result<Self, Error> {
		step(input)?;
		let id = LEDGER.with(|l| {
			let mut l = l.borrow_mut();
			l.next += 1;
			let id = l.next;
			l.constructed.push(id);
			id
		});
		Ok(El { id })
	}
}
impl DecodeWithMemTracking for El {}
impl Drop for El {
	fn drop(&mut self) {
		LEDGER.with(|l| l.borrow_mut().dropped.push(self.id));
	}
}
impl PartialEq for El {
	fn eq(&self, o: &Self) -> bool {
		self.id == o.id
	}
}
impl Eq for El {}
impl PartialOrd for El {
	fn partial_cmp(&self, o: &Self) -> Option<std::cmp::Ordering> {
		Some(self.cmp(o))
	}
}
impl Ord for El {
	fn cmp(&self, o: &Self) -> std::cmp::Ordering {
		self.id.cmp(&o.id)
	}
}
/// the same element declaring a fixed encoded size (one wire byte), as a hand-written codec may:
/// containers must not take that as "decoding cannot fail"
pub struct Fel(#[allow(dead_code)] El);
impl Decode for Fel {
	fn decode<I: Input>(input: &mut I) -> Result<Self, Error> {
		El::decode(input).map(Fel)
	}
	fn encoded_fixed_size() -> Option<usize> {
		Some(1)
	}
}
impl DecodeWithMemTracking for Fel {}
/// a zero-sized element with a destructor
pub struct Zel;
impl Decode for Zel {
	fn decode<I: Input>(input: &mut I) -> Result<Self, Error> {
		step(input)?;
		LEDGER.with(|l| l.borrow_mut().z_constructed += 1);
		Ok(Zel)
	}
}
impl DecodeWithMemTracking for Zel {}
impl Drop for Zel {
	fn drop(&mut self) {
		LEDGER.with(|l| l.borrow_mut().z_dropped += 1);
	}
}

#[derive(Decode, DecodeWithMemTracking)]
pub struct DS {
	a: El,
	b: El,
	c: El,
}
#[derive(Decode, DecodeWithMemTracking)]
pub enum DE {
	A(El, El),
	B { x: El, y: [El; 2] },
}
#[derive(Decode, DecodeWithMemTracking)]
#[repr(transparent)]
pub struct TW(El);
#[derive(Decode, DecodeWithMemTracking)]
#[repr(transparent)]
pub struct TWA([El; 3], PhantomData<u8>);
#[derive(Decode, DecodeWithMemTracking)]
#[repr(transparent)]
pub struct TWZ([Zel; 3]);

/// GenericArray has no DecodeWithMemTracking marker of its own: a forwarding newtype carries it
pub struct GA<T, N: generic_array::ArrayLength<T>>(pub generic_array::GenericArray<T, N>);
impl<T: Decode, N: generic_array::ArrayLength<T>> Decode for GA<T, N> {
	fn decode<I: Input>(input: &mut I) -> Result<Self, Error> {
		generic_array::GenericArray::<T, N>::decode(input).map(GA)
	}
}
impl<T: DecodeWithMemTracking, N: generic_array::ArrayLength<T>> DecodeWithMemTracking for GA<T, N> {}

struct Cx {
	cases: Cases,
	oracle: Oracle,
	stats: Stats,
}

#[derive(Clone, Copy, Debug, PartialEq)]
enum Kind {
	None,
	Exhausted,
	Malformed,
	Limit,
	Panic,
}

/// `slots` element bytes; failure of `kind` at element index `at` (None: all succeed)
fn script(prefix: &[u8], slots: usize, at: usize, kind: Kind) -> Vec<u8> {
	let mut v = prefix.to_vec();
	for i in 0..slots {
		if i == at {
			match kind {
				Kind::Exhausted => return v,
				Kind::Malformed => v.push(0xEE),
				Kind::Limit => v.push(0xAA),
				Kind::Panic => v.push(0xFF),
				Kind::None => v.push(1),
			}
			if kind != Kind::None {
				// bytes after the failing element are never read, but present
				v.extend_from_slice(&[1, 1]);
				return v;
			}
		} else {
			v.push(1);
		}
	}
	v
}

fn run_one<T: DecodeWithMemTracking>(cx: &mut Cx, tname: &str, prefix: &[u8], slots: usize, at: usize, kind: Kind) {
	let inp = script(prefix, slots, at, kind);
	reset();
	let m = Meter::start();
	let res = catch_unwind(AssertUnwindSafe(|| {
		let mut s = &inp[..];
		if kind == Kind::Limit {
			T::decode_with_mem_limit(&mut s, usize::MAX / 4).is_ok()
		} else {
			T::decode(&mut s).map(drop).is_ok()
		}
	}))
	.map_err(drop);
	let u = m.stop();
	let (c, d, zc, zd) = LEDGER.with(|l| {
		let l = l.borrow();
		(l.constructed.clone(), l.dropped.clone(), l.z_constructed, l.z_dropped)
	});
	let outcome = match res {
		Ok(true) => "ok",
		Ok(false) => "err",
		Err(_) => "panic",
	};
	cx.stats.bump(&format!("{:?}/{}", kind, outcome));
	let rp = format!("{tname}\tslots={slots}\tat={at}\tkind={:?}\tinput={}\tconstructed={:?}\tdropped={:?}\tz={}/{}\toutcome={outcome}", kind, hex(&inp), c, d, zc, zd);
	// expected outcome
	let expect = match kind {
		Kind::None => "ok",
		Kind::Panic => "panic",
		_ => "err",
	};
	let expect = if kind != Kind::None && at >= slots { "ok" } else { expect };
	cx.oracle.check(outcome == expect, "unexpected-outcome", || rp.clone());
	// every constructed element dropped exactly once (the successful value was dropped by us)
	let mut ds = d.clone();
	ds.sort();
	let mut cs = c.clone();
	cs.sort();
	let dup = ds.windows(2).any(|w| w[0] == w[1]);
	cx.oracle.check(!dup, "element-dropped-twice", || rp.clone());
	cx.oracle.check(ds.iter().all(|x| cs.binary_search(x).is_ok()), "drop-of-unconstructed-element", || rp.clone());
	cx.oracle.check(cs == ds || dup, "element-leaked", || rp.clone());
	cx.oracle.check(zc == zd, if zd > zc { "element-dropped-twice" } else { "element-leaked" }, || rp.clone());
	cx.oracle.check(u.leaked == 0, "heap-block-leaked-or-double-freed", || format!("{rp}\tlive_delta={}", u.leaked));
	cx.oracle.check(u.zero_sized_frees == 0, "free-of-a-block-never-allocated", || format!("{rp}\tzero_sized_frees={}", u.zero_sized_frees));
	// model case: the ledger of the implementation for this container shape
	let built = if kind == Kind::None || at >= slots { slots } else { at };
	cx.oracle.check(c.len() as usize + zc as usize == built, "constructed-count", || rp.clone());
	cx.cases.push(
		format!("(KLedger {} {} {} {} {})", slots, at.min(slots), kind_coq(kind, at >= slots), c.len() + zc as usize, d.len() + zd as usize),
		rp.clone(),
		true,
	);
}
fn kind_coq(k: Kind, none: bool) -> &'static str {
	if none {
		return "FNone";
	}
	match k {
		Kind::None => "FNone",
		Kind::Exhausted | Kind::Malformed | Kind::Limit => "FErr",
		Kind::Panic => "FPanic",
	}
}

/// the container's own allocation announcements as failure points: the all-success script under
/// every memory limit up to its tracked usage (each limit makes a different announcement the
/// failing one); whatever happens, the ledger and the heap must be balanced afterwards
fn limit_sweep<T: DecodeWithMemTracking>(cx: &mut Cx, tname: &str, prefix: &[u8], slots: usize) {
	use parity_scale_codec::MemTrackingInput;
	let inp = script(prefix, slots, slots, Kind::None);
	let usage = {
		let mut s = &inp[..];
		let mut m = MemTrackingInput::new(&mut s, usize::MAX);
		let r = catch_unwind(AssertUnwindSafe(|| T::decode(&mut m).map(drop).is_ok()));
		if r.is_err() {
			return;
		}
		m.used_mem()
	};
	let mut limits: Vec<usize> = (0..=usage.min(96)).collect();
	if usage > 96 {
		limits.extend([usage / 2, usage - 1, usage]);
	}
	for l in limits {
		reset();
		let m = Meter::start();
		let res = catch_unwind(AssertUnwindSafe(|| {
			let mut s = &inp[..];
			T::decode_with_mem_limit(&mut s, l).map(drop).is_ok()
		}))
		.map_err(drop);
		let u = m.stop();
		let (c, d, zc, zd) = LEDGER.with(|x| {
			let x = x.borrow();
			(x.constructed.clone(), x.dropped.clone(), x.z_constructed, x.z_dropped)
		});
		cx.stats.bump(&format!("LimitSweep/{}", match res { Ok(true) => "ok", Ok(false) => "err", Err(_) => "panic" }));
		let rp = format!("{tname}\tslots={slots}\tmem_limit={l}\tusage={usage}\tinput={}\tconstructed={:?}\tdropped={:?}\tz={}/{}\toutcome={:?}", hex(&inp), c, d, zc, zd, res);
		cx.oracle.check(res.is_ok(), "unexpected-outcome", || rp.clone());
		cx.oracle.check(res != Ok(true) || l > usage || usage == 0, "unexpected-outcome", || rp.clone());
		let (mut cs, mut ds) = (c.clone(), d.clone());
		cs.sort();
		ds.sort();
		let dup = ds.windows(2).any(|w| w[0] == w[1]);
		cx.oracle.check(!dup, "element-dropped-twice", || rp.clone());
		cx.oracle.check(cs == ds || dup, "element-leaked", || rp.clone());
		cx.oracle.check(zc == zd, if zd > zc { "element-dropped-twice" } else { "element-leaked" }, || rp.clone());
		cx.oracle.check(u.leaked == 0, "heap-block-leaked-or-double-freed", || format!("{rp}\tlive_delta={}", u.leaked));
	}
}

fn all_failures<T: DecodeWithMemTracking>(cx: &mut Cx, tname: &str, prefix: &[u8], slots: usize) {
	run_one::<T>(cx, tname, prefix, slots, slots, Kind::None);
	limit_sweep::<T>(cx, tname, prefix, slots);
	for at in 0..slots {
		for kind in [Kind::Exhausted, Kind::Malformed, Kind::Limit, Kind::Panic] {
			run_one::<T>(cx, tname, prefix, slots, at, kind);
		}
	}
}

macro_rules! arrays {
	($cx:expr, $($n:literal),*) => {$(
		all_failures::<[El; $n]>($cx, concat!("[El;", $n, "]"), &[], $n);
		all_failures::<Box<[El; $n]>>($cx, concat!("Box<[El;", $n, "]>"), &[], $n);
		all_failures::<Rc<[El; $n]>>($cx, concat!("Rc<[El;", $n, "]>"), &[], $n);
		all_failures::<[Zel; $n]>($cx, concat!("[Zel;", $n, "]"), &[], $n);
		all_failures::<Box<[Zel; $n]>>($cx, concat!("Box<[Zel;", $n, "]>"), &[], $n);
		all_failures::<[Box<El>; $n]>($cx, concat!("[Box<El>;", $n, "]"), &[], $n);
		all_failures::<[Fel; $n]>($cx, concat!("[Fel;", $n, "]"), &[], $n);
		all_failures::<Box<[Fel; $n]>>($cx, concat!("Box<[Fel;", $n, "]>"), &[], $n);
	)*};
}

pub fn run(args: &Args) {
	quiet_panics();
	let mut cx = Cx {
		cases: Cases::new("Require Import Scale.Bytes Scale.Hex Scale.Ledger.", "ledger_case", "ledger_check"),
		oracle: Oracle::new(),
		stats: Stats::new(),
	};
	let cx_ = &mut cx;
	arrays!(cx_, 1, 2, 3, 5, 8);
	if args.thorough {
		arrays!(cx_, 13, 21, 40);
	}
	// nested arrays (two deep): 2 x 3 and 3 x 2
	all_failures::<[[El; 3]; 2]>(cx_, "[[El;3];2]", &[], 6);
	all_failures::<[[El; 2]; 3]>(cx_, "[[El;2];3]", &[], 6);
	all_failures::<Box<[[El; 2]; 2]>>(cx_, "Box<[[El;2];2]>", &[], 4);
	all_failures::<[[Zel; 2]; 2]>(cx_, "[[Zel;2];2]", &[], 4);
	all_failures::<[[Fel; 2]; 3]>(cx_, "[[Fel;2];3]", &[], 6);
	// single values and pointers
	all_failures::<El>(cx_, "El", &[], 1);
	all_failures::<Box<El>>(cx_, "Box<El>", &[], 1);
	all_failures::<Rc<El>>(cx_, "Rc<El>", &[], 1);
	all_failures::<Arc<El>>(cx_, "Arc<El>", &[], 1);
	all_failures::<Box<Box<El>>>(cx_, "Box<Box<El>>", &[], 1);
	all_failures::<Arc<[El; 4]>>(cx_, "Arc<[El;4]>", &[], 4);
	// option / result / tuples / derived
	all_failures::<Option<El>>(cx_, "Option<El>", &[1], 1);
	all_failures::<Result<El, El>>(cx_, "Result<El,El>/ok", &[0], 1);
	all_failures::<Result<El, El>>(cx_, "Result<El,El>/err", &[1], 1);
	all_failures::<(El, El, El)>(cx_, "(El,El,El)", &[], 3);
	all_failures::<(El, [El; 2], Box<El>)>(cx_, "(El,[El;2],Box<El>)", &[], 4);
	all_failures::<DS>(cx_, "derived struct", &[], 3);
	all_failures::<DE>(cx_, "derived enum A", &[0], 2);
	all_failures::<DE>(cx_, "derived enum B", &[1], 3);
	all_failures::<TW>(cx_, "transparent TW(El)", &[], 1);
	all_failures::<Box<TW>>(cx_, "Box<transparent TW(El)>", &[], 1);
	all_failures::<[TW; 3]>(cx_, "[transparent TW(El);3]", &[], 3);
	all_failures::<Box<TWA>>(cx_, "Box<transparent TWA([El;3],PhantomData)>", &[], 3);
	all_failures::<Box<TWZ>>(cx_, "Box<transparent TWZ([Zel;3])>", &[], 3);
	all_failures::<Box<DS>>(cx_, "Box<derived struct>", &[], 3);
	all_failures::<GA<El, generic_array::typenum::U4>>(cx_, "GenericArray<El,U4>", &[], 4);
	all_failures::<Box<GA<El, generic_array::typenum::U3>>>(cx_, "Box<GenericArray<El,U3>>", &[], 3);
	all_failures::<GA<Zel, generic_array::typenum::U3>>(cx_, "GenericArray<Zel,U3>", &[], 3);
	// growing collections (count prefix = slots)
	let ns: &[usize] = if args.thorough { &[0, 1, 2, 3, 5, 8, 13, 40] } else { &[0, 1, 2, 3, 6] };
	for &n in ns {
		let p = [(n as u8) << 2];
		all_failures::<Vec<El>>(cx_, &format!("Vec<El> n={n}"), &p, n);
		all_failures::<VecDeque<El>>(cx_, &format!("VecDeque<El> n={n}"), &p, n);
		all_failures::<LinkedList<El>>(cx_, &format!("LinkedList<El> n={n}"), &p, n);
		all_failures::<Vec<Zel>>(cx_, &format!("Vec<Zel> n={n}"), &p, n);
		all_failures::<Vec<Box<El>>>(cx_, &format!("Vec<Box<El>> n={n}"), &p, n);
		all_failures::<Box<Vec<El>>>(cx_, &format!("Box<Vec<El>> n={n}"), &p, n);
		all_failures::<std::collections::BTreeSet<El>>(cx_, &format!("BTreeSet<El> n={n}"), &p, n);
	}
	// vectors of arrays, maps with element values (keys are plain bytes: 2 bytes per entry)
	for &n in &[1usize, 2, 3] {
		let p = [(n as u8) << 2];
		all_failures::<Vec<[El; 2]>>(cx_, &format!("Vec<[El;2]> n={n}"), &p, 2 * n);
	}
	{
		// BTreeMap<u8, El>: key bytes are ordinary bytes, so the script is built by hand
		for n in [1usize, 2, 4] {
			for at in 0..=n {
				for kind in [Kind::None, Kind::Exhausted, Kind::Malformed, Kind::Panic] {
					if (kind == Kind::None) != (at == n) {
						continue;
					}
					let mut inp = vec![(n as u8) << 2];
					for i in 0..n {
						inp.push(i as u8 + 1);
						if i == at {
							match kind {
								Kind::Exhausted => break,
								Kind::Malformed => {
									inp.push(0xEE);
									break;
								},
								Kind::Panic => {
									inp.push(0xFF);
									break;
								},
								_ => inp.push(1),
							}
						} else {
							inp.push(1);
						}
					}
					reset();
					let m = Meter::start();
					let res = catch_unwind(AssertUnwindSafe(|| <BTreeMap<u8, El>>::decode(&mut &inp[..]).map(drop).is_ok())).map_err(drop);
					let u = m.stop();
					let (c, d) = LEDGER.with(|l| (l.borrow().constructed.clone(), l.borrow().dropped.clone()));
					let mut ds = d.clone();
					ds.sort();
					let rp = format!("BTreeMap<u8,El> n={n}\tat={at}\tkind={:?}\tinput={}\tconstructed={:?}\tdropped={:?}\toutcome={:?}", kind, hex(&inp), c, d, res.as_ref().ok());
					cx_.oracle.check(ds == c, "element-leaked", || rp.clone());
					cx_.oracle.check(u.leaked == 0, "heap-block-leaked-or-double-freed", || rp.clone());
					cx_.stats.bump(&format!("map/{:?}", kind));
				}
			}
		}
	}
	// a skipped field is filled by Default, also on the in-place path of a transparent newtype
	{
		struct DEl(El);
		impl Default for DEl {
			fn default() -> Self {
				let id = LEDGER.with(|l| {
					let mut l = l.borrow_mut();
					l.next += 1;
					let id = l.next;
					l.constructed.push(id);
					id
				});
				DEl(El { id })
			}
		}
		#[derive(Decode)]
		#[repr(transparent)]
		struct TSk(#[codec(skip)] DEl, PhantomData<u8>);
		macro_rules! skipped {
			($t:ty, $n:expr, $name:expr) => {{
				reset();
				let res = catch_unwind(AssertUnwindSafe(|| <$t>::decode(&mut &[1u8, 1, 1][..]).map(drop).is_ok())).map_err(drop);
				let (c, d) = LEDGER.with(|l| (l.borrow().constructed.clone(), l.borrow().dropped.clone()));
				let mut ds = d.clone();
				ds.sort();
				cx_.stats.bump("skipped-field-in-place");
				cx_.oracle.check(res == Ok(true) && c.len() == $n && ds == c, if ds.iter().any(|x| !c.contains(x)) { "drop-of-unconstructed-element" } else { "element-leaked" }, || {
					format!("{}\tskipped field built by Default\tconstructed={:?}\tdropped={:?}\toutcome={:?}", $name, c, d, res)
				});
			}};
		}
		skipped!(TSk, 1, "transparent TSk(#[codec(skip)] DEl)");
		skipped!(Box<TSk>, 1, "Box<transparent TSk(#[codec(skip)] DEl)>");
		skipped!(Rc<TSk>, 1, "Rc<transparent TSk(#[codec(skip)] DEl)>");
		skipped!([TSk; 4], 4, "[transparent TSk(#[codec(skip)] DEl);4]");
	}
	// the repaired defect F6 (regression case): transparent struct with two fields through Box,
	// failure in the zero-sized second field after the first has been built
	{
		#[derive(Default)]
		struct ZFail;
		impl Decode for ZFail {
			fn decode<I: Input>(input: &mut I) -> Result<Self, Error> {
				step(input)?;
				Ok(ZFail)
			}
		}
		#[derive(Decode)]
		#[repr(transparent)]
		struct W([El; 3], ZFail);
		for kind in [Kind::Malformed, Kind::Panic, Kind::Exhausted] {
			let inp = script(&[], 4, 3, kind);
			reset();
			let res = catch_unwind(AssertUnwindSafe(|| <Box<W>>::decode(&mut &inp[..]).map(drop).is_ok()));
			let (c, d) = LEDGER.with(|l| (l.borrow().constructed.clone(), l.borrow().dropped.clone()));
			let mut ds = d.clone();
			ds.sort();
			cx_.oracle.check(ds == c, "element-leaked/transparent-in-place-multi-field", || {
				format!("Box<#[repr(transparent)] W([El;3], ZFail)>\tkind={:?}\tinput={}\tconstructed={:?}\tdropped={:?}\toutcome={:?}", kind, hex(&inp), c, d, res.as_ref().ok())
			});
		}
	}
	let rule = "scripted element types (a 4-byte element, the same declaring encoded_fixed_size = 1, and a zero-sized element, all with destructors that log into a ledger): for every container shape ([T;N], Box<[T;N]>, Rc/Arc, [Box<T>;N], nested arrays, Box/Rc/Arc of a value, Option, Result, tuples, derived struct / enum, repr(transparent) newtypes incl. through Box and arrays, Vec, VecDeque, LinkedList, BTreeSet, BTreeMap, Vec<Box<T>>, Box<Vec<T>>, Vec<[T;2]>, GenericArray<T,N>) every failure position 0..N x {input exhausted, malformed element, limit error from on_before_alloc_mem under decode_with_mem_limit, panic in the element decoder} plus the all-success run, plus the all-success script under every memory limit 0..=min(U,96) (U, U-1, U/2 beyond) so that each of the container's own allocation announcements is the failing one; oracle: each constructed element dropped exactly once, none dropped twice or unconstructed, live heap bytes back to the baseline, expected outcome; case = (slots, failure position, kind, #constructed, #dropped) against the ledger model";
	cx.cases.write(&args.out, "c10", args.shards);
	cx.oracle.write(&args.out);
	cx.stats.write(&args.out, cx.cases.len(), cx.cases.nontrivial, cx.cases.dups, cx.oracle.checks, rule);
}
