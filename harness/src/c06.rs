//! C06 — encoding depends only on logical content: construction histories on the real
//! containers; the encoding must equal that of a freshly built equal value (and the model's
//! encoding of the logical content).
use crate::common::*;
use crate::registry::*;
use crate::universe::Uni;
use bitvec::prelude::*;
use parity_scale_codec::Encode;
use std::borrow::Cow;

pub struct Cx {
	pub rng: Rng,
	pub cases: Cases,
	pub oracle: Oracle,
	pub stats: Stats,
}

fn model_case<T: Uni + Encode>(cx: &mut Cx, what: &str, v: &T, enc: &[u8]) {
	let term = format!("(GEnc {} {} {})", T::desc(), v.val_enc(), blist(enc));
	if cx.cases.push(term, what.to_string(), !enc.is_empty()) && enc.len() < 40 {
		cx.stats.sample(format!("{what}: content {} encodes to {}", v.val_enc(), hex(enc)));
	}
}

fn deque_history<T: Uni + Encode + Clone>(cx: &mut Cx, tn: &str, steps: usize) {
	let mut q: VecDeque<T> = if cx.rng.chance(1, 2) { VecDeque::new() } else { VecDeque::with_capacity(cx.rng.range(1, 9) as usize) };
	let mut log = vec![];
	// some histories start next to a boundary of the count prefix, filled from both ends
	let fill = *cx.rng.pick(&[0usize, 0, 0, 0, 62, 63, 64, 65, 16383]);
	// the two-to-four-byte boundary only for one-byte elements, now and then (the cases are large)
	let fill = if fill > 100 && (std::mem::size_of::<T>() != 1 || !cx.rng.chance(1, 4)) { 64 } else { fill };
	for i in 0..fill {
		if i % 3 == 0 {
			q.push_front(T::gen(&mut cx.rng, 2));
		} else {
			q.push_back(T::gen(&mut cx.rng, 2));
		}
	}
	if fill > 0 {
		log.push(format!("fill({fill})"));
	}
	for _ in 0..steps {
		match cx.rng.below(12) {
			0 | 1 | 2 => {
				q.push_back(T::gen(&mut cx.rng, 2));
				log.push("push_back".to_string())
			},
			3 | 4 | 5 => {
				q.push_front(T::gen(&mut cx.rng, 2));
				log.push("push_front".into())
			},
			6 => {
				q.pop_front();
				log.push("pop_front".into())
			},
			7 => {
				q.pop_back();
				log.push("pop_back".into())
			},
			8 => {
				if !q.is_empty() {
					let k = cx.rng.below(q.len() as u64) as usize;
					q.rotate_left(k);
					log.push(format!("rotate_left({k})"));
				}
			},
			9 => {
				if cx.rng.chance(1, 3) {
					q.make_contiguous();
					log.push("make_contiguous".into())
				}
			},
			10 => {
				let k = cx.rng.below(20) as usize;
				q.reserve(k);
				log.push(format!("reserve({k})"))
			},
			_ => {
				q.shrink_to_fit();
				log.push("shrink_to_fit".into())
			},
		}
		// check at every state of the ring buffer
		let enc = q.encode();
		let fresh: Vec<T> = q.iter().cloned().collect();
		let (a, b) = q.as_slices();
		cx.stats.bump(if b.is_empty() { "deque/contiguous" } else if b.len() == 1 || a.len() == 1 { "deque/wrapped-by-one" } else { "deque/wrapped" });
		let what = format!("VecDeque<{tn}> after [{}] slices=({},{})", log.join(","), a.len(), b.len());
		cx.oracle.check(enc == fresh.encode(), "deque-encoding-depends-on-ring-state", || what.clone());
		cx.oracle.check(enc == q.encode(), "encoding-not-repeatable", || what.clone());
		if cx.rng.chance(1, 4) {
			model_case(cx, &what, &q, &enc);
		}
	}
}

fn vec_history<T: Uni + Encode + Clone>(cx: &mut Cx, tn: &str) {
	let content: Vec<T> = Vec::<T>::gen(&mut cx.rng, 1);
	let base = content.encode();
	let mut v: Vec<T> = Vec::with_capacity(content.len() + cx.rng.below(50) as usize);
	v.extend(content.iter().cloned());
	cx.oracle.check(v.encode() == base, "vec-encoding-depends-on-capacity", || format!("Vec<{tn}> with_capacity"));
	v.reserve(1000);
	cx.oracle.check(v.encode() == base, "vec-encoding-depends-on-capacity", || format!("Vec<{tn}> reserve"));
	v.push(T::gen(&mut cx.rng, 2));
	v.pop();
	v.shrink_to_fit();
	cx.oracle.check(v.encode() == base, "vec-encoding-depends-on-capacity", || format!("Vec<{tn}> shrink"));
	cx.oracle.check(content[..].encode() == base && (&content).encode() == base, "slice-differs-from-vec", || format!("&[{tn}]"));
	// holders: clone / borrow / own transitions
	let b = Box::new(content.clone());
	let r = Rc::new(content.clone());
	let r2 = r.clone();
	let a = Arc::new(content.clone());
	let cow_b: Cow<[T]> = Cow::Borrowed(&content[..]);
	let cow_o: Cow<[T]> = Cow::Owned(content.clone());
	let mut cow_m: Cow<[T]> = Cow::Borrowed(&content[..]);
	cow_m.to_mut();
	for (k, e) in [("Box", b.encode()), ("Rc", r.encode()), ("Rc-clone", r2.encode()), ("Arc", a.encode()), ("Cow::Borrowed", cow_b.encode()), ("Cow::Owned", cow_o.encode()), ("Cow::to_mut", cow_m.encode()), ("&&", (&&content).encode())] {
		cx.oracle.check(e == base, "holder-not-transparent", || format!("{k}<Vec<{tn}>>"));
	}
	cx.stats.bump("vec+holders");
	model_case(cx, &format!("Vec<{tn}> via holders"), &content, &base);
}

fn string_history(cx: &mut Cx) {
	let s = String::gen(&mut cx.rng, 0);
	let base = s.encode();
	let mut t = String::with_capacity(s.len() + 100);
	t.push_str(&s);
	cx.oracle.check(t.encode() == base, "string-encoding-depends-on-capacity", || format!("String {:?}", s));
	t.reserve(500);
	t.push('x');
	t.pop();
	cx.oracle.check(t.encode() == base && s.as_str().encode() == base, "string-encoding-depends-on-capacity", || format!("String {:?}", s));
	let c: Cow<str> = Cow::Borrowed(&s);
	cx.oracle.check(c.encode() == base && Cow::<str>::Owned(s.clone()).encode() == base, "holder-not-transparent", || "Cow<str>".to_string());
	cx.stats.bump("string");
}

fn map_history(cx: &mut Cx, steps: usize) {
	// two different insertion/removal orders with the same final content
	let mut ops: Vec<(bool, u16, u32)> = vec![];
	for _ in 0..steps {
		ops.push((cx.rng.chance(3, 4), cx.rng.below(24) as u16 * 97, cx.rng.next() as u32));
	}
	let mut m1: BTreeMap<u16, u32> = BTreeMap::new();
	let mut s1: BTreeSet<u16> = BTreeSet::new();
	for (ins, k, v) in &ops {
		if *ins {
			m1.insert(*k, *v);
			s1.insert(*k);
		} else {
			m1.remove(k);
			s1.remove(k);
		}
	}
	// rebuild the same content in reverse key order and in a shuffled order
	let mut pairs: Vec<(u16, u32)> = m1.iter().map(|(k, v)| (*k, *v)).collect();
	let mut m2 = BTreeMap::new();
	for (k, v) in pairs.iter().rev() {
		m2.insert(*k, v.wrapping_add(1));
	}
	for (k, v) in pairs.iter() {
		m2.insert(*k, *v);
	}
	for i in (1..pairs.len()).rev() {
		let j = cx.rng.below(i as u64 + 1) as usize;
		pairs.swap(i, j);
	}
	let m3: BTreeMap<u16, u32> = pairs.iter().cloned().collect();
	let s3: BTreeSet<u16> = pairs.iter().map(|p| p.0).collect();
	let base = m1.encode();
	cx.oracle.check(m2.encode() == base && m3.encode() == base, "map-encoding-depends-on-insertion-order", || format!("ops={:?}", ops));
	cx.oracle.check(s3.encode() == s1.encode(), "set-encoding-depends-on-insertion-order", || format!("ops={:?}", ops));
	cx.stats.bump("map/set");
	model_case(cx, "BTreeMap<u16,u32> history", &m1, &base);
	model_case(cx, "BTreeSet<u16> history", &s1, &s1.encode());
}

fn list_history(cx: &mut Cx) {
	let content: Vec<u16> = Vec::<u16>::gen(&mut cx.rng, 1);
	let mut l: LinkedList<u16> = LinkedList::new();
	let k = cx.rng.below(content.len() as u64 + 1) as usize;
	let mut tail: LinkedList<u16> = content[k..].iter().cloned().collect();
	for x in content[..k].iter().rev() {
		l.push_front(*x);
	}
	l.append(&mut tail);
	let j = cx.rng.below(l.len() as u64 + 1) as usize;
	let mut back = l.split_off(j);
	l.append(&mut back);
	let fresh: LinkedList<u16> = content.iter().cloned().collect();
	cx.oracle.check(l.encode() == fresh.encode() && l.encode() == content.encode(), "list-encoding-depends-on-history", || format!("{:?} k={k} j={j}", content));
	cx.stats.bump("list");
	model_case(cx, "LinkedList<u16> history", &l, &l.encode());
}

fn bits_history<T: BitStore + Encode, O: BitOrder>(cx: &mut Cx, tn: &str)
where
	BitVec<T, O>: Uni + Encode,
{
	let w = std::mem::size_of::<T>() * 8;
	let n = *cx.rng.pick(&[0usize, 1, 7, 8, 9, w - 1, w, w + 1, 2 * w, 2 * w + 3, 70]);
	let bits: Vec<bool> = (0..n).map(|_| cx.rng.chance(1, 2)).collect();
	let mut fresh = BitVec::<T, O>::new();
	for b in &bits {
		fresh.push(*b);
	}
	let base = fresh.encode();
	// the same bits at every offset inside a larger backing store, through sub-slicing
	for off in 0..(w + 3) {
		let mut big = BitVec::<T, O>::new();
		for _ in 0..off {
			big.push(cx.rng.chance(1, 2));
		}
		for b in &bits {
			big.push(*b);
		}
		for _ in 0..cx.rng.below(11) {
			big.push(cx.rng.chance(1, 2));
		}
		let slice = &big[off..off + n];
		cx.oracle.check(slice.encode() == base, "bits-encoding-depends-on-offset", || format!("BitSlice<{tn}> offset={off} len={n}"));
		let owned: BitVec<T, O> = BitVec::<T, O>::from_bitslice(slice);
		cx.oracle.check(owned.encode() == base, "bits-encoding-depends-on-offset", || format!("BitVec<{tn}> from slice at offset={off} len={n}"));
		let boxed = owned.clone().into_boxed_bitslice();
		cx.oracle.check(boxed.encode() == base, "bits-encoding-depends-on-offset", || format!("BitBox<{tn}> offset={off} len={n}"));
		cx.stats.bump("bits/offsets");
	}
	// the same bits reached by shrinking a longer vector (dead bits keep what they held)
	{
		let mut long = BitVec::<T, O>::new();
		for b in &bits {
			long.push(*b);
		}
		for _ in 0..(1 + cx.rng.below(2 * w as u64 + 3)) {
			long.push(true);
		}
		long.truncate(n);
		cx.oracle.check(long.encode() == base, "bits-encoding-depends-on-history", || format!("BitVec<{tn}> truncated to len={n}"));
		let mut popped = long.clone();
		popped.push(true);
		popped.pop();
		cx.oracle.check(popped.encode() == base, "bits-encoding-depends-on-history", || format!("BitVec<{tn}> push/pop at len={n}"));
		let ones = BitVec::<T, O>::repeat(true, n + w + 1);
		let mut cut = ones.clone();
		cut.truncate(n);
		let mut fresh_ones = BitVec::<T, O>::new();
		for _ in 0..n {
			fresh_ones.push(true);
		}
		cx.oracle.check(cut.encode() == fresh_ones.encode(), "bits-encoding-depends-on-history", || format!("BitVec<{tn}> repeat(true) truncated to len={n}"));
		cx.stats.bump("bits/shrunk");
	}
	model_case(cx, &format!("BitVec<{tn}> len={n}"), &fresh, &base);
}

pub fn run(args: &Args) {
	quiet_panics();
	let mut cx = Cx {
		rng: Rng::new(args.seed ^ 0x06),
		cases: Cases::new("Require Import Scale.Bytes Scale.Hex Scale.Codec Scale.CorrGen.", "gcase", "g_check"),
		oracle: Oracle::new(),
		stats: Stats::new(),
	};
	let rounds = if args.thorough { 400 } else { 40 };
	for _ in 0..rounds {
		deque_history::<u8>(&mut cx, "u8", 14);
		deque_history::<u32>(&mut cx, "u32", 12);
		deque_history::<u64>(&mut cx, "u64", 8);
		deque_history::<Vec<u8>>(&mut cx, "Vec<u8>", 8);
		deque_history::<(u8, bool)>(&mut cx, "(u8,bool)", 8);
		deque_history::<Box<u16>>(&mut cx, "Box<u16>", 6);
		// element types whose memory image is not their encoding: zero-sized with a wire byte,
		// a skipped field that occupies memory, a transparent newtype around a compact
		deque_history::<crate::universe::Unit1>(&mut cx, "Unit1", 8);
		deque_history::<crate::universe::SkP>(&mut cx, "SkP", 8);
		deque_history::<crate::universe::TrC>(&mut cx, "TrC", 6);
		deque_history::<()>(&mut cx, "()", 6);
		vec_history::<crate::universe::SkP>(&mut cx, "SkP");
		vec_history::<crate::universe::Unit1>(&mut cx, "Unit1");
		vec_history::<u8>(&mut cx, "u8");
		vec_history::<u32>(&mut cx, "u32");
		vec_history::<String>(&mut cx, "String");
		vec_history::<Box<u32>>(&mut cx, "Box<u32>");
		string_history(&mut cx);
		map_history(&mut cx, 30);
		list_history(&mut cx);
		bits_history::<u8, Lsb0>(&mut cx, "u8,Lsb0");
		bits_history::<u8, Msb0>(&mut cx, "u8,Msb0");
		bits_history::<u16, Lsb0>(&mut cx, "u16,Lsb0");
		bits_history::<u32, Msb0>(&mut cx, "u32,Msb0");
		bits_history::<u64, Lsb0>(&mut cx, "u64,Lsb0");
		bits_history::<u64, Msb0>(&mut cx, "u64,Msb0");
	}
	let rule = "seeded construction histories on the real containers: VecDeque (push_front/back, pop, rotate, make_contiguous, reserve, shrink; checked after every operation, half of the histories starting from 62..65 (now and then 16383 one-byte) elements pushed from both ends, ring states counted in the distribution; element types u8/u32/u64/Vec<u8>/(u8,bool)/Box<u16> and three whose memory image is not their encoding: a zero-sized type with a wire byte, a struct with a skipped field that occupies memory, a transparent newtype around a compact), Vec/String capacity changes, Box/Rc/Arc/Cow/&& holders with clone/borrow/own transitions, BTreeMap/BTreeSet with insert/remove sequences rebuilt in reverse and shuffled order, LinkedList push/append/split_off, bit sequences placed at every offset 0..W+2 of a larger backing store (slice, owned, boxed) for six store/order combinations; oracle = equals the encoding of a freshly built equal value and is repeatable; cases = the model's encoding of the logical content; non-trivial = non-empty encoding";
	cx.cases.write(&args.out, "c06", args.shards);
	cx.oracle.write(&args.out);
	cx.stats.write(&args.out, cx.cases.len(), cx.cases.nontrivial, cx.cases.dups, cx.oracle.checks, rule);
}
