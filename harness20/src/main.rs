//! C20 — a deterministic corpus of values and byte strings; prints one digest line per
//! case (type, input, encode bytes / decode outcome).  Built three times (std+chain-error,
//! no default features, no_std+chain-error); the outputs must be identical.  With --coq it
//! also emits the cases for the model.
#[path = "../../harness/src/common.rs"]
mod common;
#[path = "../../harness/src/registry.rs"]
mod registry;
#[path = "../../harness/src/universe.rs"]
mod universe;

use common::*;
use parity_scale_codec::{Decode, DecodeAll, DecodeWithMemTracking, Encode};
use registry::*;
use std::fmt::Write as _;
use std::panic::{catch_unwind, AssertUnwindSafe};

/// The std-only paths of the crate (`impl Output for W: io::Write`, `IoReader`) over a writer and a
/// reader that behave as the io traits allow: short writes / short reads and spurious
/// `Interrupted` errors.  Without `std` the same lines are produced from the core paths, so a
/// std-only path that loses or rejects bytes shows up as a configuration-dependent result.
#[cfg(feature = "cfg-std")]
mod stdio {
	use std::io;
	pub struct ShortWriter {
		pub out: Vec<u8>,
		pub tick: u32,
	}
	impl io::Write for ShortWriter {
		fn write(&mut self, b: &[u8]) -> io::Result<usize> {
			self.tick += 1;
			if self.tick % 3 == 0 {
				return Err(io::Error::from(io::ErrorKind::Interrupted));
			}
			let n = b.len().min(1 + (self.tick as usize % 3));
			self.out.extend_from_slice(&b[..n]);
			Ok(n)
		}
		fn flush(&mut self) -> io::Result<()> {
			Ok(())
		}
	}
	pub struct ChoppyReader<'a> {
		pub data: &'a [u8],
		pub pos: usize,
		pub tick: u32,
	}
	impl<'a> io::Read for ChoppyReader<'a> {
		fn read(&mut self, b: &mut [u8]) -> io::Result<usize> {
			self.tick += 1;
			if self.tick % 2 == 0 {
				return Err(io::Error::from(io::ErrorKind::Interrupted));
			}
			let n = b.len().min(self.data.len() - self.pos).min(1 + (self.tick as usize % 5));
			b[..n].copy_from_slice(&self.data[self.pos..self.pos + n]);
			self.pos += n;
			Ok(n)
		}
	}
}

struct Cx {
	rng: Rng,
	out: String,
	cases: Cases,
	n: usize,
	nvals: usize,
}

fn one<T: Uni + Encode + Decode + DecodeWithMemTracking>(cx: &mut Cx, name: &str) {
	let desc = T::desc();
	// per-type PRNG derived from the type name so that configurations and registry order do not matter
	let mut h = 0xcbf29ce484222325u64;
	for b in name.bytes() {
		h = (h ^ b as u64).wrapping_mul(0x100000001b3);
	}
	let mut r = Rng::new(cx.rng.s ^ h);
	let mut prev = vec![];
	for _ in 0..cx.nvals {
		let v = T::gen(&mut r, 0);
		let enc = match catch_unwind(AssertUnwindSafe(|| v.encode())) {
			Ok(e) => e,
			Err(_) => {
				writeln!(cx.out, "{name}\tenc\tPANIC").unwrap();
				continue;
			},
		};
		if enc.len() > 40000 {
			continue;
		}
		writeln!(cx.out, "{name}\tenc\t{}\t{}", v.val_enc().len(), hex(&enc)).unwrap();
		cx.n += 1;
		{
			#[cfg(feature = "cfg-std")]
			let io_bytes = catch_unwind(AssertUnwindSafe(|| {
				let mut w = stdio::ShortWriter { out: vec![], tick: 0 };
				v.encode_to(&mut w);
				w.out
			}));
			#[cfg(not(feature = "cfg-std"))]
			let io_bytes: Result<Vec<u8>, ()> = Ok(enc.clone());
			match io_bytes {
				Ok(b) => writeln!(cx.out, "{name}\tencio\t{}\t{}", v.val_enc().len(), hex(&b)).unwrap(),
				Err(_) => writeln!(cx.out, "{name}\tencio\tPANIC").unwrap(),
			}
			cx.n += 1;
		}
		cx.cases.push(format!("(GEnc {} {} {})", desc, v.val_enc(), blist(&enc)), format!("{name}\tenc"), !enc.is_empty());
		let mut inputs = vec![enc.clone()];
		for _ in 0..3 {
			let (m, _) = mutate(&mut r, &enc, &prev);
			inputs.push(m);
		}
		prev = enc;
		if desc == "TDuration" {
			for n in [999_999_999u32, 1_000_000_000, 1_000_000_001, u32::MAX] {
				let mut v = 5u64.to_le_bytes().to_vec();
				v.extend_from_slice(&n.to_le_bytes());
				inputs.push(v);
			}
		}
		for inp in inputs {
			if T::zst_seq() {
				let mut s = &inp[..];
				if let Ok(c) = <parity_scale_codec::Compact<u32>>::decode(&mut s) {
					if c.0 > 4096 {
						continue;
					}
				}
			}
			let mut left_after_err = 0usize;
			let r1 = catch_unwind(AssertUnwindSafe(|| {
				let mut s = &inp[..];
				let r = T::decode(&mut s).ok().map(|v| (v, inp.len() - s.len()));
				if r.is_none() {
					// what a failed decode leaves of the slice is observable too
					left_after_err = s.len();
				}
				r
			}));
			let all = catch_unwind(AssertUnwindSafe(|| {
				let mut s = &inp[..];
				T::decode_all(&mut s).is_ok()
			}));
			let (tag, coq) = match &r1 {
				Ok(Some((v, c))) => (format!("ok\t{}\t{}", c, hex(&v.encode())), format!("(DOk {} {})", v.val(), c)),
				Ok(None) => (format!("err\tleft={left_after_err}"), "DErr".to_string()),
				Err(_) => ("PANIC".to_string(), "DPanic".to_string()),
			};
			writeln!(cx.out, "{name}\tdec\t{}\t{}\tall={:?}", hex(&inp), tag, all.ok()).unwrap();
			cx.n += 1;
			{
				#[cfg(feature = "cfg-std")]
				let rio = catch_unwind(AssertUnwindSafe(|| {
					let mut rd = stdio::ChoppyReader { data: &inp, pos: 0, tick: 0 };
					let r = T::decode(&mut parity_scale_codec::IoReader(&mut rd)).ok();
					r.map(|v| (v, rd.pos))
				}));
				#[cfg(not(feature = "cfg-std"))]
				let rio = catch_unwind(AssertUnwindSafe(|| {
					let mut s = &inp[..];
					T::decode(&mut s).ok().map(|v| (v, inp.len() - s.len()))
				}));
				let tag = match &rio {
					Ok(Some((v, c))) => format!("ok\t{}\t{}", c, hex(&v.encode())),
					Ok(None) => "err".to_string(),
					Err(_) => "PANIC".to_string(),
				};
				writeln!(cx.out, "{name}\tdecio\t{}\t{}", hex(&inp), tag).unwrap();
				cx.n += 1;
			}
			#[cfg(feature = "opt")]
			{
				// the zero-copy entry point of the optional `bytes` integration
				let rfb = catch_unwind(AssertUnwindSafe(|| parity_scale_codec::decode_from_bytes::<T>(bytes::Bytes::from(inp.clone())).ok().map(|v| hex(&v.encode()))));
				let tag = match rfb {
					Ok(Some(h)) => format!("ok\t{h}"),
					Ok(None) => "err".to_string(),
					Err(_) => "PANIC".to_string(),
				};
				writeln!(cx.out, "{name}\tdecfb\t{}\t{}", hex(&inp), tag).unwrap();
				cx.n += 1;
			}
			cx.cases.push(format!("(GDec {} true {} {})", desc, blist(&inp), coq), format!("{name}\tdec\t1\t{}", hex(&inp)), !inp.is_empty());
		}
	}
}

/// The optional integrations against the core types they stand for (`opt` configurations only):
/// GenericArray<T, N> vs [T; N] on the same values and byte strings, plain and under the depth
/// and memory limiters; bit vectors whose storage holds set bits beyond their length.  Each line
/// carries both results; they must be equal, and the lines equal in every configuration.
#[cfg(feature = "opt")]
mod integ {
	use super::*;
	use generic_array::{typenum, ArrayLength, GenericArray};
	use parity_scale_codec::{DecodeLimit, MemTrackingInput};

	fn outcome<T: Decode + Encode>(inp: &[u8], wrapper: &str) -> String {
		let r = catch_unwind(AssertUnwindSafe(|| {
			let mut s = inp;
			let v = match wrapper.split_at(1) {
				("d", l) => T::decode_with_depth_limit(l.parse().unwrap(), &mut s).ok(),
				("m", l) => {
					let mut m = MemTrackingInput::new(&mut s, l.parse().unwrap());
					T::decode(&mut m).ok()
				},
				_ => T::decode(&mut s).ok(),
			};
			v.map(|v| (hex(&v.encode()), inp.len() - s.len()))
		}));
		match r {
			Ok(Some((h, c))) => format!("ok/{c}/{h}"),
			Ok(None) => "err".into(),
			Err(_) => "PANIC".into(),
		}
	}
	fn pair<T: Uni + Encode + Decode + Clone, const K: usize, N: ArrayLength<T>>(cx: &mut Cx, name: &str) {
		let mut r = Rng::new(cx.rng.s ^ (K as u64) << 8 ^ name.len() as u64);
		let mut prev = vec![];
		for _ in 0..cx.nvals {
			let v = <[T; K]>::gen(&mut r, 0);
			let g = GenericArray::<T, N>::from_exact_iter(v.iter().cloned()).unwrap();
			let (ea, eg) = (v.encode(), g.encode());
			writeln!(cx.out, "{name}\tinteg\tenc\t-\t{}\t{}", hex(&ea), hex(&eg)).unwrap();
			cx.n += 1;
			let mut inputs = vec![ea.clone()];
			for _ in 0..3 {
				inputs.push(mutate(&mut r, &ea, &prev).0);
			}
			prev = ea;
			for inp in inputs {
				for w in ["p", "d0", "d1", "d2", "d3", "m0", "m1", "m4", "m16", "m64", "m18446744073709551615"] {
					let (a, b) = (outcome::<[T; K]>(&inp, w), outcome::<GenericArray<T, N>>(&inp, w));
					writeln!(cx.out, "{name}\tinteg\t{}\t{w}\t{a}\t{b}", hex(&inp)).unwrap();
					cx.n += 1;
				}
			}
		}
	}
	macro_rules! dirty {
		($cx:expr; $($t:ty, $o:ty);*) => {$(
			for n in [0usize, 1, 3, 7, 8, 9, 15, 17, 31, 33, 63, 65, 100] {
				// every storage bit set, then cut down: the bits beyond `n` stay set in the store
				let mut v = BitVec::<$t, $o>::repeat(true, 130);
				v.truncate(n);
				let mut clean = BitVec::<$t, $o>::repeat(false, n);
				clean.fill(true);
				let name = concat!("BitVec<", stringify!($t), ",", stringify!($o), ">");
				writeln!($cx.out, "{name}\tinteg\tdirty{n}\t-\t{}\t{}", hex(&clean.encode()), hex(&v.encode())).unwrap();
				let b = v.clone().into_boxed_bitslice();
				writeln!($cx.out, "{name}\tinteg\tdirtybox{n}\t-\t{}\t{}", hex(&clean.encode()), hex(&b.encode())).unwrap();
				$cx.n += 2;
				$cx.cases.push(format!("(GEnc {} {} {})", <BitVec<$t, $o> as Uni>::desc(), v.val_enc(), blist(&v.encode())), format!("{name}\tenc-dirty"), true);
			}
		)*};
	}
	pub fn run(cx: &mut Cx) {
		pair::<u8, 8, typenum::U8>(cx, "[u8;8]~GenericArray");
		pair::<u32, 3, typenum::U3>(cx, "[u32;3]~GenericArray");
		pair::<Vec<u8>, 2, typenum::U2>(cx, "[Vec<u8>;2]~GenericArray");
		pair::<Option<Box<u16>>, 2, typenum::U2>(cx, "[Option<Box<u16>>;2]~GenericArray");
		pair::<(u8, String), 2, typenum::U2>(cx, "[(u8,String);2]~GenericArray");
		pair::<Vec<Vec<u16>>, 1, typenum::U1>(cx, "[Vec<Vec<u16>>;1]~GenericArray");
		pair::<(), 4, typenum::U4>(cx, "[();4]~GenericArray");
		dirty!(cx; u8, Lsb0; u8, Msb0; u16, Lsb0; u16, Msb0; u32, Lsb0; u32, Msb0; u64, Lsb0; u64, Msb0);
	}
}

/// same mutation operators as the main harness (kept local: gen.rs needs std-only API)
fn mutate(r: &mut Rng, enc: &[u8], other: &[u8]) -> (Vec<u8>, &'static str) {
	let mut s = enc.to_vec();
	match r.below(8) {
		0 => {
			if !s.is_empty() {
				let k = r.below(s.len() as u64) as usize;
				s[k] ^= 1 << r.below(8);
			}
			(s, "bitflip")
		},
		1 => {
			if !s.is_empty() {
				let k = r.below(s.len().min(4) as u64) as usize;
				s[k] = *r.pick(&[0u8, 1, 2, 3, 4, 0x7f, 0x80, 0xfc, 0xfd, 0xfe, 0xff]);
			}
			(s, "boundary-byte")
		},
		2 => {
			let k = r.below(s.len() as u64 + 1) as usize;
			s.truncate(k);
			(s, "truncate")
		},
		3 => {
			let k = r.range(1, 5) as usize;
			let extra = r.bytes(k);
			s.extend(extra);
			(s, "extend")
		},
		4 => {
			let c: &[u8] = *r.pick(&[&[0xfd, 0xff, 0xff, 0xff][..], &[0x03, 0xff, 0xff, 0xff, 0xff], &[0x01, 0x01], &[0x04]]);
			let mut t = c.to_vec();
			t.extend_from_slice(&s[1.min(s.len())..]);
			(t, "count-tamper")
		},
		5 => {
			let k = r.below(s.len() as u64 + 1) as usize;
			let j = r.below(other.len() as u64 + 1) as usize;
			let mut t = s[..k].to_vec();
			t.extend_from_slice(&other[j..]);
			(t, "splice")
		},
		6 => {
			let k = r.below(10) as usize;
			(r.bytes(k), "random")
		},
		_ => {
			if !s.is_empty() {
				let k = r.below(s.len() as u64) as usize;
				s[k] = *r.pick(&[0xc0u8, 0xf5, 0xff, 0x80, 0xed]);
			}
			(s, "bad-utf8-or-tag")
		},
	}
}

fn main() {
	let args: Vec<String> = std::env::args().collect();
	let a = Args::parse(&args[1..]);
	std::panic::set_hook(Box::new(|_| {}));
	let mut cx = Cx {
		rng: Rng::new(a.seed ^ 0x20),
		out: String::new(),
		cases: {
			let mut c = Cases::new("Require Import Scale.Bytes Scale.Hex Scale.Codec Scale.CorrGen.", "gcase", "g_check");
			c.max_total = 6 << 20;
			c.max_case = 200 << 10;
			c
		},
		n: 0,
		nvals: if a.thorough { 12 } else { 3 },
	};
	{
		let cx = &mut cx;
		for_all_types!(one, cx);
		#[cfg(feature = "opt")]
		integ::run(cx);
	}
	std::fs::write(a.out.join("digest.tsv"), &cx.out).unwrap();
	if args.iter().any(|x| x == "--coq") {
		cx.cases.write(&a.out, "c20", a.shards);
	}
	let cfg = format!("std={} chain-error={}", cfg!(feature = "cfg-std"), cfg!(feature = "cfg-chain"));
	std::fs::write(a.out.join("info.txt"), format!("{}\n{}\n", cx.n, cfg)).unwrap();
}
