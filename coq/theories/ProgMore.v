(* More generic facts about decoder programs: locality (extension of the input),
   panic-freedom as a compositional predicate, independence of the "known
   remaining length" flag as a compositional predicate, repetition lemmas. *)
Require Import Scale.Bytes Scale.Prog Scale.ProgFacts.

Lemma avail_app n bs x : avail n bs = true -> avail n (bs ++ x) = true.
Proof. rewrite !avail_spec, app_length. intros H. apply N.leb_le in H. apply N.leb_le. lia. Qed.

Lemma avail_true_len n bs : avail n bs = true -> (N.to_nat n <= length bs)%nat.
Proof. rewrite avail_spec. intros H. apply N.leb_le in H. lia. Qed.

(* ---------- locality: a successful decode does not depend on what follows ---------- *)
Theorem runo_extend A (p : prog A) known x : forall bs v r,
  runo p known bs = OOk v r -> runo p known (bs ++ x) = OOk v (r ++ x).
Proof.
  induction p as [a| | | |n k IH|k IH|nd k IH|h k IH]; intros bs v r; cbn [runo]; try discriminate.
  - intros [= <- <-]. reflexivity.
  - destruct (avail n bs) eqn:Ha; [|discriminate]. rewrite (avail_app _ _ x Ha).
    pose proof (avail_true_len _ _ Ha) as Hl.
    rewrite firstn_app, skipn_app.
    replace (N.to_nat n - length bs)%nat with 0%nat by lia. cbn [firstn skipn]. rewrite app_nil_r.
    apply IH.
  - destruct bs as [|b r0]; [discriminate|]. cbn [app]. apply IH.
  - destruct known; cbn [andb].
    + destruct (avail nd bs) eqn:Ha; cbn [negb]; [|discriminate]. rewrite (avail_app _ _ x Ha). cbn [negb]. apply IH.
    + apply IH.
  - apply IH.
Qed.

(* ---------- panic-freedom ---------- *)
(* [okP Q p]: on every input, p ends in a value satisfying Q or in an error; it
   never panics and never runs out of fuel *)
Definition okP {A} (Q : A -> Prop) (p : prog A) : Prop :=
  forall known bs,
    match runo p known bs with
    | OOk a _ => Q a
    | OErr _ => True
    | OPanic => False
    | ONoFuel => False
    end.

Lemma okP_weaken A (Q R : A -> Prop) (p : prog A) : (forall a, Q a -> R a) -> okP Q p -> okP R p.
Proof. intros H Hp known bs. specialize (Hp known bs). destruct (runo p known bs); auto. Qed.

Lemma okP_ret A (Q : A -> Prop) a : Q a -> okP Q (Ret a).
Proof. intros H known bs. exact H. Qed.
Lemma okP_fail A (Q : A -> Prop) : okP Q (@Fail A).
Proof. intros known bs. exact I. Qed.

Lemma okP_bind A B (Q : A -> Prop) (R : B -> Prop) (p : prog A) (f : A -> prog B) :
  okP Q p -> (forall a, Q a -> okP R (f a)) -> okP R (bindp p f).
Proof.
  intros Hp Hf known bs. rewrite runo_bind. specialize (Hp known bs).
  destruct (runo p known bs) as [a r|r| |]; auto. now apply Hf.
Qed.

Lemma okP_read n : okP (fun bs => length bs = N.to_nat n) (read n).
Proof.
  intros known bs. cbn [read runo]. destruct (avail n bs) eqn:Ha; [|exact I].
  cbn [runo]. rewrite firstn_length. pose proof (avail_true_len _ _ Ha). lia.
Qed.
Lemma okP_read_byte : okP (fun _ => True) read_byte.
Proof. intros known bs. cbn [read_byte runo]. destruct bs; exact I. Qed.
Lemma okP_emit h : okP (fun _ => True) (emit h).
Proof. intros known bs. exact I. Qed.
Lemma okP_need n : okP (fun _ => True) (need n).
Proof. intros known bs. cbn [need runo]. destruct (known && negb (avail n bs)); exact I. Qed.

Lemma okP_rep_nat A (Q : A -> Prop) (c : prog A) n :
  okP Q c -> okP (fun l => Forall Q l /\ length l = n) (rep_nat n c).
Proof.
  intros Hc. induction n as [|n IH]; cbn [rep_nat].
  - apply okP_ret. split; [constructor|reflexivity].
  - eapply okP_bind; [exact Hc|]. intros a Ha.
    eapply okP_bind; [exact IH|]. intros l [Hl Hn]. apply okP_ret. split; [now constructor|cbn; lia].
Qed.

Lemma okP_peq A (Q : A -> Prop) (p q : prog A) : peq p q -> okP Q q -> okP Q p.
Proof. intros H Hq known bs. rewrite (peq_runo _ _ _ H). apply Hq. Qed.

Lemma okP_rep A (Q : A -> Prop) (c : prog A) n :
  okP Q c -> okP (fun l => Forall Q l /\ length l = N.to_nat n) (rep n c).
Proof. intros Hc. eapply okP_peq; [apply rep_rep_nat|]. now apply okP_rep_nat. Qed.

(* ---------- independence of the known-length flag ---------- *)
Definition oview {A} (o : out A) : out A := match o with OErr _ => OErr [] | x => x end.

Lemma oview_ok A (o : out A) v r : oview o = OOk v r -> o = OOk v r.
Proof. destruct o; cbn [oview]; congruence. Qed.

Definition keq {A} (p : prog A) : Prop :=
  forall bs, oview (runo p true bs) = oview (runo p false bs).

Lemma keq_ret A (a : A) : keq (Ret a). Proof. intros bs; reflexivity. Qed.
Lemma keq_fail A : keq (@Fail A). Proof. intros bs; reflexivity. Qed.
Lemma keq_crash A : keq (@Crash A). Proof. intros bs; reflexivity. Qed.

Lemma keq_bind A B (p : prog A) (f : A -> prog B) :
  keq p -> (forall a, keq (f a)) -> keq (bindp p f).
Proof.
  intros Hp Hf bs. rewrite !runo_bind. specialize (Hp bs).
  destruct (runo p true bs) as [a r|r| |]; destruct (runo p false bs) as [a' r'|r'| |];
    cbn [oview] in Hp; try discriminate; try reflexivity.
  inversion Hp; subst. apply Hf.
Qed.

Lemma keq_read A n (f : list byte -> prog A) : (forall b, keq (f b)) -> keq (Read n f).
Proof. intros Hf bs. cbn [runo]. destruct (avail n bs); [apply Hf|reflexivity]. Qed.
Lemma keq_read_byte A (f : byte -> prog A) : (forall b, keq (f b)) -> keq (ReadByte f).
Proof. intros Hf bs. cbn [runo]. destruct bs; [reflexivity|apply Hf]. Qed.
Lemma keq_emit A h (p : prog A) : keq p -> keq (Emit h p).
Proof. intros Hp bs. cbn [runo]. apply Hp. Qed.

Lemma keq_rep_nat A (c : prog A) n : keq c -> keq (rep_nat n c).
Proof.
  intros Hc. induction n as [|n IH]; cbn [rep_nat]; [apply keq_ret|].
  apply keq_bind; [exact Hc|]. intros a. apply keq_bind; [exact IH|]. intros l. apply keq_ret.
Qed.

Lemma keq_peq A (p q : prog A) : peq p q -> keq q -> keq p.
Proof. intros H Hq bs. rewrite !(peq_runo _ _ _ H). apply Hq. Qed.

Lemma keq_rep A (c : prog A) n : keq c -> keq (rep n c).
Proof. intros Hc. eapply keq_peq; [apply rep_rep_nat|]. now apply keq_rep_nat. Qed.

(* ---------- emit is invisible to the pure outcome ---------- *)
Lemma runo_emit A h (p : prog A) known bs : runo (emit h ;;; p) known bs = runo p known bs.
Proof. reflexivity. Qed.

(* ---------- repetition over a concatenation of encodings ---------- *)
Lemma runo_rep_nat_ok A B (c : prog B) (enc : A -> option (list byte)) (g : A -> B) known (l : list A) :
  (forall a, In a l -> forall bs, enc a = Some bs -> forall rest, runo c known (bs ++ rest) = OOk (g a) rest) ->
  forall bss, map enc l = map Some bss ->
  forall rest, runo (rep_nat (length l) c) known (concat bss ++ rest) = OOk (map g l) rest.
Proof.
  induction l as [|a l IH]; intros Hc bss Hb rest.
  - destruct bss; [reflexivity|discriminate].
  - destruct bss as [|bs bss]; [discriminate|]. cbn [map] in Hb. inversion Hb as [[Ha Hl]].
    cbn [length rep_nat concat map]. rewrite runo_bind, <- app_assoc.
    rewrite (Hc a (or_introl eq_refl) bs Ha). rewrite runo_bind.
    rewrite IH; [reflexivity| |exact Hl]. intros a' Hin. apply Hc. now right.
Qed.

Lemma runo_rep A (c : prog A) n known bs : runo (rep n c) known bs = runo (rep_nat (N.to_nat n) c) known bs.
Proof. apply peq_runo, rep_rep_nat. Qed.
