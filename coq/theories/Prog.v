(* The decoding "program" monad: a free monad over the operations of the Rust
   `Input` trait.  A decoder is a finite tree of requests; interpreters give it
   meaning:
     runo  - pure outcome on a byte string (slice / unknown-length reader);
     runt  - outcome together with the trace of events the decoder issued;
     run   - execution against a monitor (a stack of input wrappers), which may
             reject an event and which carries the wrapper state.
   [run_runt] (ProgFacts.v) shows that for EVERY program the monitored run is the
   traced run cut at the first rejected event, so every decoder written in this
   monad is covered at once. *)
Require Import Scale.Bytes.

(* HAlloc n: on_before_alloc_mem(n) - what the decoder announces to the input;
   HReal n: a heap reservation the decoder (or the container it fills) makes - not an
   Input call, invisible to every wrapper, used only by the C09 accounting *)
Inductive hook := HDescend | HAscend | HAlloc (n : N) | HReal (n : N).
Inductive event := ERead (n : N) | EHook (h : hook).

Inductive prog (A : Type) : Type :=
| Ret (a : A)
| Fail                                   (* Err(..) *)
| Crash                                  (* a Rust panic *)
| NoFuel                                 (* model artefact: recursion budget exhausted *)
| Read (n : N) (k : list byte -> prog A) (* Input::read of n bytes *)
| ReadByte (k : byte -> prog A)          (* Input::read_byte *)
| Need (n : N) (k : prog A)              (* `if let Some(len) = input.remaining_len()? { if len < n { return Err } }` *)
| Emit (h : hook) (k : prog A).          (* descend_ref / ascend_ref / on_before_alloc_mem *)
Arguments Ret {A}. Arguments Fail {A}. Arguments Crash {A}. Arguments NoFuel {A}.
Arguments Read {A}. Arguments ReadByte {A}. Arguments Need {A}. Arguments Emit {A}.

Fixpoint bindp {A B} (p : prog A) (f : A -> prog B) : prog B :=
  match p with
  | Ret a => f a
  | Fail => Fail
  | Crash => Crash
  | NoFuel => NoFuel
  | Read n k => Read n (fun bs => bindp (k bs) f)
  | ReadByte k => ReadByte (fun b => bindp (k b) f)
  | Need n k => Need n (bindp k f)
  | Emit h k => Emit h (bindp k f)
  end.

Declare Scope prog_scope.
Delimit Scope prog_scope with prog.
Notation "x <- c ;; f" := (bindp c (fun x => f))
  (at level 61, c at next level, right associativity) : prog_scope.
Notation "c ;;; f" := (bindp c (fun _ => f))
  (at level 61, right associativity) : prog_scope.
Open Scope prog_scope.

Definition emit (h : hook) : prog unit := Emit h (Ret tt).
Definition read (n : N) : prog (list byte) := Read n (fun bs => Ret bs).
Definition read_byte : prog byte := ReadByte (fun b => Ret b).
Definition need (n : N) : prog unit := Need n (Ret tt).

(* repetition: Peano version (for proofs) and binary version (for execution
   with hostile counts: O(log n) work before the first request) *)
Fixpoint rep_nat {A} (n : nat) (c : prog A) : prog (list A) :=
  match n with
  | O => Ret []
  | S n' => a <- c ;; r <- rep_nat n' c ;; Ret (a :: r)
  end.

Fixpoint rep_pos {A} (p : positive) (c : prog A) : prog (list A) :=
  match p with
  | xH => a <- c ;; Ret [a]
  | xO q => l1 <- rep_pos q c ;; l2 <- rep_pos q c ;; Ret (l1 ++ l2)
  | xI q => a <- c ;; l1 <- rep_pos q c ;; l2 <- rep_pos q c ;; Ret (a :: l1 ++ l2)
  end.

Definition rep {A} (n : N) (c : prog A) : prog (list A) :=
  match n with N0 => Ret [] | Npos p => rep_pos p c end.

(* sequencing a list of programs *)
Fixpoint seqp {A} (l : list (prog A)) : prog (list A) :=
  match l with
  | [] => Ret []
  | c :: r => a <- c ;; rs <- seqp r ;; Ret (a :: rs)
  end.

(* ---------------------------------------------------------------- *)
(* pure outcome *)
Inductive out (A : Type) :=
| OOk (a : A) (rest : list byte) | OErr (rest : list byte) | OPanic | ONoFuel.
Arguments OOk {A}. Arguments OErr {A}. Arguments OPanic {A}. Arguments ONoFuel {A}.

(* [avail n bs]: at least n bytes are there.  Computed by dropping n bytes with a
   binary recursion on n, so that a read costs O(n) (not O(length bs)) and a
   hostile n of 2^32 never becomes a unary number; [avail_spec] gives the
   arithmetic reading used in every proof. *)
Fixpoint drop_pos (p : positive) (bs : list byte) : option (list byte) :=
  match p with
  | xH => match bs with [] => None | _ :: r => Some r end
  | xO q => match drop_pos q bs with Some r => drop_pos q r | None => None end
  | xI q => match bs with
            | [] => None
            | _ :: r => match drop_pos q r with Some r' => drop_pos q r' | None => None end
            end
  end.
Definition avail (n : N) (bs : list byte) : bool :=
  match n with
  | N0 => true
  | Npos p => match drop_pos p bs with Some _ => true | None => false end
  end.

Lemma skipn_skipn' {A} (a b : nat) : forall l : list A, skipn a (skipn b l) = skipn (b + a) l.
Proof.
  induction b as [|b IH]; intros l; [reflexivity|].
  destruct l as [|x l]; cbn [skipn Nat.add]; [now rewrite skipn_nil|apply IH].
Qed.

Lemma drop_pos_spec p : forall bs,
  drop_pos p bs = if (Pos.to_nat p <=? length bs)%nat then Some (skipn (Pos.to_nat p) bs) else None.
Proof.
  induction p as [q IH|q IH|]; intros bs; cbn [drop_pos].
  - destruct bs as [|b r]; [destruct (Nat.leb_spec (Pos.to_nat q~1) (length (@nil byte))); [cbn [length] in *; lia|reflexivity]|].
    rewrite IH. cbn [length].
    destruct (Nat.leb_spec (Pos.to_nat q) (length r)).
    + rewrite IH, skipn_length.
      destruct (Nat.leb_spec (Pos.to_nat q) (length r - Pos.to_nat q));
        destruct (Nat.leb_spec (Pos.to_nat q~1) (S (length r))); try lia.
      * f_equal. rewrite skipn_skipn'. replace (Pos.to_nat q~1) with (S (Pos.to_nat q + Pos.to_nat q)) by lia.
        reflexivity.
      * reflexivity.
    + destruct (Nat.leb_spec (Pos.to_nat q~1) (S (length r))); [lia|reflexivity].
  - rewrite IH.
    destruct (Nat.leb_spec (Pos.to_nat q) (length bs)).
    + rewrite IH, skipn_length.
      destruct (Nat.leb_spec (Pos.to_nat q) (length bs - Pos.to_nat q));
        destruct (Nat.leb_spec (Pos.to_nat q~0) (length bs)); try lia.
      * f_equal. rewrite skipn_skipn'. replace (Pos.to_nat q~0) with (Pos.to_nat q + Pos.to_nat q)%nat by lia.
        reflexivity.
      * reflexivity.
    + destruct (Nat.leb_spec (Pos.to_nat q~0) (length bs)); [lia|reflexivity].
  - destruct bs as [|b r]; reflexivity.
Qed.

Lemma avail_spec n bs : avail n bs = (n <=? N.of_nat (length bs)).
Proof.
  destruct n as [|p]; cbn [avail].
  - symmetry. apply N.leb_le. lia.
  - rewrite drop_pos_spec.
    destruct (Nat.leb_spec (Pos.to_nat p) (length bs)); destruct (N.leb_spec (N.pos p) (N.of_nat (length bs))); try reflexivity; lia.
Qed.
Global Opaque avail.

Fixpoint runo {A} (p : prog A) (known : bool) (bs : list byte) : out A :=
  match p with
  | Ret a => OOk a bs
  | Fail => OErr bs
  | Crash => OPanic
  | NoFuel => ONoFuel
  | Read n k =>
      if avail n bs
      then runo (k (firstn (N.to_nat n) bs)) known (skipn (N.to_nat n) bs)
      else OErr bs
  | ReadByte k => match bs with [] => OErr bs | b :: r => runo (k b) known r end
  | Need n k => if known && negb (avail n bs) then OErr bs else runo k known bs
  | Emit _ k => runo k known bs
  end.

(* outcome + trace of events (up to the end, or up to the failure) *)
Definition cons_ev {A} (e : event) (r : out A * list event) : out A * list event :=
  (fst r, e :: snd r).

Fixpoint runt {A} (p : prog A) (known : bool) (bs : list byte) : out A * list event :=
  match p with
  | Ret a => (OOk a bs, [])
  | Fail => (OErr bs, [])
  | Crash => (OPanic, [])
  | NoFuel => (ONoFuel, [])
  | Read n k =>
      if avail n bs
      then cons_ev (ERead n) (runt (k (firstn (N.to_nat n) bs)) known (skipn (N.to_nat n) bs))
      else (OErr bs, [])
  | ReadByte k =>
      match bs with [] => (OErr bs, []) | b :: r => cons_ev (ERead 1) (runt (k b) known r) end
  | Need n k => if known && negb (avail n bs) then (OErr bs, []) else runt k known bs
  | Emit h k => cons_ev (EHook h) (runt k known bs)
  end.

(* ---------------------------------------------------------------- *)
(* monitors: the state machines of the input wrappers.  A step returns the new
   state and whether the event is accepted (the wrappers update their state
   before they compare it with the limit). *)
Record monitor := { mst : Type; mstep : event -> mst -> mst * bool }.

Inductive res (S A : Type) :=
| ROk (a : A) (rest : list byte) (s : S) | RErr (s : S) | RPanic | RNoFuel.
Arguments ROk {S A}. Arguments RErr {S A}. Arguments RPanic {S A}. Arguments RNoFuel {S A}.

Fixpoint run (m : monitor) {A} (p : prog A) (known : bool) (bs : list byte) (s : mst m)
  : res (mst m) A :=
  match p with
  | Ret a => ROk a bs s
  | Fail => RErr s
  | Crash => RPanic
  | NoFuel => RNoFuel
  | Read n k =>
      if avail n bs
      then match mstep m (ERead n) s with
           | (s', true) => run m (k (firstn (N.to_nat n) bs)) known (skipn (N.to_nat n) bs) s'
           | (s', false) => RErr s'
           end
      else RErr s
  | ReadByte k =>
      match bs with
      | [] => RErr s
      | b :: r => match mstep m (ERead 1) s with
                  | (s', true) => run m (k b) known r s'
                  | (s', false) => RErr s'
                  end
      end
  | Need n k => if known && negb (avail n bs) then RErr s else run m k known bs s
  | Emit h k =>
      match mstep m (EHook h) s with
      | (s', true) => run m k known bs s'
      | (s', false) => RErr s'
      end
  end.

(* feeding a trace through a monitor: final (or rejecting) state, and whether
   every event was accepted *)
Fixpoint feed (m : monitor) (s : mst m) (evs : list event) : mst m * bool :=
  match evs with
  | [] => (s, true)
  | e :: r => match mstep m e s with
              | (s', true) => feed m s' r
              | (s', false) => (s', false)
              end
  end.

Definition lift_out {S A} (o : out A) (s : S) : res S A :=
  match o with
  | OOk a rest => ROk a rest s
  | OErr _ => RErr s
  | OPanic => RPanic
  | ONoFuel => RNoFuel
  end.

(* ---------------------------------------------------------------- *)
(* the three wrappers of the crate, and stacks of them *)
Definition u64max : N := 18446744073709551615.
Definition u32max : N := 4294967295.
Definition usize_max : N := u64max.
Definition sat_add (mx a b : N) : N := N.min mx (a + b).

(* CountedInput: counter += len (saturating) after a successful inner read *)
Definition counted : monitor :=
  {| mst := N;
     mstep := fun e c => match e with
                         | ERead n => (sat_add u64max c n, true)
                         | EHook _ => (c, true)
                         end |}.

(* DepthTrackingInput: (depth, max_depth).  `depth -= 1` on a u32: the model
   keeps the mathematical predecessor saturating at 0 and [balanced] traces
   (ProgFacts) never reach that case. *)
Definition depthmon (max_depth : N) : monitor :=
  {| mst := N;
     mstep := fun e d => match e with
                         | EHook HDescend => (d + 1, d + 1 <=? max_depth)
                         | EHook HAscend => (d - 1, true)
                         | _ => (d, true)
                         end |}.

(* MemTrackingInput: used_mem = used_mem.saturating_add(size); fails when >= limit *)
Definition memmon (limit : N) : monitor :=
  {| mst := N;
     mstep := fun e u => match e with
                         | EHook (HAlloc n) =>
                             let u' := sat_add usize_max u n in (u', negb (limit <=? u'))
                         | _ => (u, true)
                         end |}.

(* an outer wrapper around an inner one: the inner sees the event first *)
Definition mstack (inner outer : monitor) : monitor :=
  {| mst := mst inner * mst outer;
     mstep := fun e s =>
       match mstep inner e (fst s) with
       | (i', true) => let '(o', ok) := mstep outer e (snd s) in ((i', o'), ok)
       | (i', false) => ((i', snd s), false)
       end |}.

Definition nullmon : monitor := {| mst := unit; mstep := fun _ s => (s, true) |}.
