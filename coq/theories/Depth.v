(* C11, the value side: the descend/ascend nesting of the trace of decoding an encoding is
   exactly the container nesting depth of the value.  Together with Monitors.depth_limit_exact:
   a depth-limited decode of an encoding succeeds iff L >= ddepth. *)
Require Import Scale.Bytes Scale.Eres Scale.Prog Scale.ProgFacts Scale.ProgMore Scale.Chunks Scale.TraceEq Scale.Monitors
  Scale.CompactImpl Scale.CompactSpec Scale.CompactProofs Scale.CompactTheorems Scale.Utf8 Scale.Codec Scale.CodecEnc Scale.CodecDec Scale.CodecRt.

Definition is_depth (e : event) : bool :=
  match e with EHook HDescend | EHook HAscend => true | _ => false end.
Definition dpi (evs : list event) : list event := filter is_depth evs.
Lemma dpi_app a b : dpi (a ++ b) = dpi a ++ dpi b.
Proof. apply filter_app. Qed.

Fixpoint end_depth (d : N) (evs : list event) : N :=
  match evs with
  | [] => d
  | EHook HDescend :: r => end_depth (d + 1) r
  | EHook HAscend :: r => end_depth (d - 1) r
  | _ :: r => end_depth d r
  end.

Lemma max_depth_dpi evs : forall d, max_depth d (dpi evs) = max_depth d evs.
Proof.
  induction evs as [|e r IH]; intros d; [reflexivity|].
  destruct e as [n|[| |n|n]]; cbn [dpi filter is_depth max_depth]; fold (dpi r); now rewrite ?IH.
Qed.
Lemma end_depth_dpi evs : forall d, end_depth d (dpi evs) = end_depth d evs.
Proof.
  induction evs as [|e r IH]; intros d; [reflexivity|].
  destruct e as [n|[| |n|n]]; cbn [dpi filter is_depth end_depth]; fold (dpi r); now rewrite ?IH.
Qed.

Lemma max_depth_app a : forall b d, max_depth d (a ++ b) = N.max (max_depth d a) (max_depth (end_depth d a) b).
Proof.
  induction a as [|e a IH]; intros b d; cbn [app max_depth end_depth].
  - pose proof (max_depth_ge d b). lia.
  - destruct e as [n|[| |n|n]]; rewrite ?IH; try reflexivity; lia.
Qed.
Lemma end_depth_app a : forall b d, end_depth d (a ++ b) = end_depth (end_depth d a) b.
Proof.
  induction a as [|e a IH]; intros b d; cbn [app end_depth]; [reflexivity|].
  destruct e as [n|[| |n|n]]; now rewrite ?IH.
Qed.

(* the depth-visible trace *)
Definition dtr {A} (p : prog A) known bs : list event := dpi (snd (runt p known bs)).

Lemma dtr_bind_ok A B (p : prog A) (f : A -> prog B) known bs a r :
  runo p known bs = OOk a r -> dtr (bindp p f) known bs = dtr p known bs ++ dtr (f a) known r.
Proof.
  intros H. unfold dtr. rewrite runt_bind. rewrite <- runt_fst in H.
  destruct (runt p known bs) as [o e1]. cbn [fst] in H. subst o. unfold app_ev. cbn [snd]. apply dpi_app.
Qed.

(* programs that never descend or ascend *)
Fixpoint nodepth {A} (p : prog A) : Prop :=
  match p with
  | Emit HDescend _ | Emit HAscend _ => False
  | Emit _ k => nodepth k
  | Read _ k => forall bs, nodepth (k bs)
  | ReadByte k => forall b, nodepth (k b)
  | Need _ k => nodepth k
  | _ => True
  end.
Lemma nodepth_bind A B (p : prog A) (g : A -> prog B) : nodepth p -> (forall a, nodepth (g a)) -> nodepth (bindp p g).
Proof.
  intros Hp Hg. induction p as [a| | | |n k IH|k IH|nd k IH|h k IH]; cbn [nodepth bindp] in *; auto.
  destruct h; auto.
Qed.
Lemma nodepth_rep_nat A (c : prog A) n : nodepth c -> nodepth (rep_nat n c).
Proof.
  intros Hc. induction n as [|n IH]; cbn [rep_nat nodepth]; auto.
  apply nodepth_bind; [exact Hc|]. intros a. apply nodepth_bind; [exact IH|]. intros l. exact I.
Qed.
Lemma nodepth_dtr A (p : prog A) known : nodepth p -> forall bs, dtr p known bs = [].
Proof.
  unfold dtr. induction p as [a| | | |n k IH|k IH|nd k IH|h k IH]; intros Hp bs; cbn [runt nodepth] in *; auto.
  - destruct (avail n bs); [|reflexivity]. unfold cons_ev. cbn [snd dpi filter is_depth]. now apply IH.
  - destruct bs as [|b r]; [reflexivity|]. unfold cons_ev. cbn [snd dpi filter is_depth]. now apply IH.
  - destruct (known && negb (avail nd bs)); [reflexivity|]. now apply IH.
  - unfold cons_ev. destruct h; try contradiction; cbn [snd dpi filter is_depth]; now apply IH.
Qed.

Ltac nd := repeat first
  [ progress cbn [nodepth bindp read read_byte prefixed emit need]
  | progress intros
  | apply nodepth_bind
  | apply nodepth_rep_nat
  | match goal with |- nodepth (match ?x with _ => _ end) => destruct x end
  | match goal with |- nodepth (if ?x then _ else _) => destruct x end
  | exact I ].

Lemma nodepth_dec_compact B : nodepth (dec_compact B).
Proof.
  unfold dec_compact, dec_c8, dec_c16, dec_c32, dec_cbig.
  destruct (B =? 1); [nd|]. destruct (B =? 2); [nd|]. destruct (B =? 4); nd.
Qed.
Lemma nodepth_dec_prim B : nodepth (dec_prim B).
Proof. unfold dec_prim. nd. Qed.
Lemma nodepth_rep A (c : prog A) n : nodepth c -> forall known bs, dtr (rep n c) known bs = [].
Proof.
  intros Hc known bs. unfold dtr. rewrite (rep_rep_nat _ c n known bs). apply (nodepth_dtr _ (rep_nat (N.to_nat n) c) known).
  now apply nodepth_rep_nat.
Qed.
Lemma nodepth_bulk B n : nodepth (bulk_bytes B n).
Proof.
  unfold bulk_bytes, one_bulk. cbv zeta. apply nodepth_bind; [nd|]. intros _.
  apply nodepth_bind.
  - destruct (n / chunk_len B =? 0); [exact I|]. unfold rep. destruct (n / chunk_len B) as [|p]; [exact I|].
    (* rep_pos: go through rep_nat by the trace equation is not available syntactically; prove directly *)
    induction p as [q IH|q IH|]; cbn [rep_pos]; nd; auto.
  - intros full. destruct (n mod chunk_len B =? 0); nd.
Qed.

(* ---------- the nesting depth of a value ---------- *)
Definition maxl (l : list N) : N := fold_right N.max 0 l.

Fixpoint ddepth (t : ty) (v : val) {struct t} : N :=
  match t, v with
  | TOption t', VSome v' => ddepth t' v'
  | TResult t' _, VOk v' => ddepth t' v'
  | TResult _ e, VErr v' => ddepth e v'
  | TColl k _ t', VSeq l =>
      match k, t' with
      | CVec, TPrim _ | CHeap, TPrim _ => 0
      | _, _ => 1 + maxl (map (ddepth t') l)
      end
  | TArray _ t', VSeq l => maxl (map (ddepth t') l)
  | TPair a b, VPair x y => N.max (ddepth a x) (ddepth b y)
  | TBox _ t', _ => 1 + ddepth t' v
  | TEnum vs, VVar k v' => ddepth_vars vs k v'
  | _, _ => 0
  end
with ddepth_vars (vs : variants) (k : nat) (v : val) {struct vs} : N :=
  match vs, k with
  | VsNil, _ => 0
  | VsCons _ t _, O => ddepth t v
  | VsCons _ _ r, S k' => ddepth_vars r k' v
  end.

(* what a balanced sub-trace does to the depth bookkeeping *)
Definition bal (evs : list event) (n : N) : Prop :=
  forall d, max_depth d evs = d + n /\ end_depth d evs = d.

Lemma bal_nil : bal [] 0.
Proof. intros d. cbn. split; [lia|reflexivity]. Qed.
Lemma bal_app a b n m : bal a n -> bal b m -> bal (a ++ b) (N.max n m).
Proof.
  intros Ha Hb d. destruct (Ha d) as [A1 A2]. rewrite max_depth_app, end_depth_app, A1, A2.
  destruct (Hb d) as [B1 B2]. rewrite B1, B2. split; [lia|reflexivity].
Qed.
Lemma bal_wrap a n : bal a n -> bal ([EHook HDescend] ++ a ++ [EHook HAscend]) (1 + n).
Proof.
  intros Ha d. cbn [app max_depth end_depth].
  destruct (Ha (d + 1)) as [A1 A2]. rewrite max_depth_app, end_depth_app, A1, A2. cbn [max_depth end_depth].
  split; [lia|lia].
Qed.
Lemma bal_dpi evs n : bal (dpi evs) n -> bal evs n.
Proof. intros H d. destruct (H d) as [A B]. now rewrite max_depth_dpi in A; rewrite end_depth_dpi in B. Qed.

(* ---------- trace of the building blocks ---------- *)
Lemma dtr_emit A h (p : prog A) known bs : dtr (emit h ;;; p) known bs = dpi [EHook h] ++ dtr p known bs.
Proof. unfold dtr. cbn [emit bindp runt]. unfold cons_ev. cbn [snd]. change (EHook h :: ?x) with ([EHook h] ++ x). apply dpi_app. Qed.

Lemma dtr_read_byte A (k : byte -> prog A) known b bs :
  dtr (x <- read_byte ;; k x) known (b :: bs) = dtr (k b) known bs.
Proof. unfold dtr. cbn [read_byte bindp runt]. unfold cons_ev. cbn [snd]. reflexivity. Qed.

Lemma dtr_ret A (a : A) known bs : dtr (Ret a) known bs = [].
Proof. reflexivity. Qed.

Lemma teq_dtr A (p q : prog A) : teq dpi p q -> forall known bs, dtr p known bs = dtr q known bs.
Proof. intros H known bs. apply (H known bs). Qed.

Lemma teq_node sz c : teq dpi (node sz c) c.
Proof.
  intros known bs. unfold node. rewrite runt_bind. destruct (runt c known bs) as [[v r|r| |] evs]; cbn [fst snd]; auto.
  cbn [emit bindp runt]. unfold cons_ev, app_ev. cbn [fst snd]. split; [reflexivity|].
  rewrite dpi_app. cbn [dpi filter is_depth]. now rewrite app_nil_r.
Qed.

Lemma teq_chunked sz n c : sz <= max_prealloc -> teq dpi (chunked_items sz n c) (rep n c).
Proof.
  intros H. unfold chunked_items, one_chunk. cbv zeta.
  apply (chunked_is_rep_t dpi dpi_app val c (fun k => emit (HAlloc (sat_mul k sz)) ;;; emit (HReal (sat_mul k sz)))).
  - now apply chunk_len_pos.
  - intros k B p known bs. cbn [emit bindp runt]. unfold cons_ev. cbn [fst snd dpi filter is_depth]. split; reflexivity.
Qed.

(* repetition over the items of a sequence *)
Lemma rep_bal (c : prog val) (f : val -> eres (list byte)) (g : val -> val) (dd : val -> N) known l :
  (forall v, In v l -> forall bs, f v = EOk bs -> forall rest,
     runo c known (bs ++ rest) = OOk (g v) rest /\ bal (dtr c known (bs ++ rest)) (dd v)) ->
  forall bs, econcat (map f l) = EOk bs ->
  forall rest, bal (dtr (rep (N.of_nat (length l)) c) known (bs ++ rest)) (maxl (map dd l)).
Proof.
  intros Hc bs Hb rest.
  rewrite (teq_dtr _ _ _ (peq_teq dpi _ _ _ (rep_rep_nat _ c (N.of_nat (length l))))), Nat2N.id.
  revert Hc bs Hb rest.
  induction l as [|a l IH]; intros Hc bs Hb rest; cbn [map econcat] in Hb.
  - injection Hb as <-. cbn [length rep_nat map maxl fold_right]. apply bal_nil.
  - unfold ebind at 1 in Hb. destruct (f a) as [x| | |] eqn:Ea; try discriminate.
    unfold ebind in Hb. destruct (econcat (map f l)) as [y| | |] eqn:El; try discriminate.
    injection Hb as <-. cbn [length rep_nat map maxl fold_right]. rewrite <- app_assoc.
    destruct (Hc a (or_introl eq_refl) x Ea (y ++ rest)) as [Ho Hbal].
    rewrite (dtr_bind_ok _ _ c _ known _ _ _ Ho).
    apply bal_app; [exact Hbal|].
    specialize (IH (fun v Hv => Hc v (or_intror Hv)) y eq_refl rest).
    (* the tail: r <- rep_nat n c ;; Ret (a :: r) has the trace of rep_nat n c *)
    assert (Hr: exists items, runo (rep_nat (length l) c) known (y ++ rest) = OOk items rest).
    { pose proof (rep_rt c f g known l (fun v Hv bs0 Hbs rest0 => proj1 (Hc v (or_intror Hv) bs0 Hbs rest0)) y El rest) as H.
      rewrite runo_rep, Nat2N.id in H. eauto. }
    destruct Hr as [items Hr]. rewrite (dtr_bind_ok _ _ (rep_nat (length l) c) _ known _ _ _ Hr), dtr_ret, app_nil_r.
    exact IH.
Qed.

Definition DD (t : ty) : Prop :=
  forall v bs, wf t v = true -> enc spec_c t v = EOk bs ->
  forall known rest, bal (dtr (dec t) known (bs ++ rest)) (ddepth t v).

Lemma bal_nodepth A (p : prog A) known bs : nodepth p -> bal (dtr p known bs) 0.
Proof. intros H. rewrite nodepth_dtr by exact H. apply bal_nil. Qed.

Lemma dd_items t l y known rest : RT t -> DD t -> forallb (wf t) l = true ->
  econcat (map (enc spec_c t) l) = EOk y ->
  bal (dtr (rep (N.of_nat (length l)) (dec t)) known (y ++ rest)) (maxl (map (ddepth t) l)).
Proof.
  intros Hrt Hdd Hl Hy. apply (rep_bal (dec t) (enc spec_c t) (canon t) (ddepth t) known l); [|exact Hy].
  intros v Hv bs Hbs rest0. rewrite forallb_forall in Hl. split; [apply Hrt|apply Hdd]; auto.
Qed.

Theorem ddepth_mut :
  (forall t, wf_ty t = true -> DD t) /\
  (forall vs, wf_vars_ty vs = true ->
     forall k v bs, idx_ok vs = true -> wf_vars vs k v = true -> enc_vars spec_c vs k v = EOk bs ->
     exists i pb, bs = byte_of i :: pb /\ i < 256 /\
       forall known rest k0, bal (dtr (dec_vars vs i k0) known (pb ++ rest)) (ddepth_vars vs k v)).
Proof.
  pose proof (proj1 roundtrip_mut) as RTall.
  apply ty_variants_ind; unfold DD; cbn [wf_ty wf_vars_ty].
  - (* TUnit *) intros _ v bs _ _ known rest. destruct v; cbn [ddepth]; apply bal_nodepth; exact I.
  - (* TBool *) intros _ v bs _ _ known rest. destruct v; cbn [ddepth]; apply bal_nodepth; cbn [dec]; nd.
  - (* TPrim *) intros B _ v bs _ _ known rest. destruct v; cbn [ddepth]; apply bal_nodepth; cbn [dec]; (apply nodepth_bind; [apply nodepth_dec_prim|nd]).
  - (* TCompact *) intros B _ v bs _ _ known rest. destruct v; cbn [ddepth]; apply bal_nodepth; cbn [dec]; (apply nodepth_bind; [apply nodepth_dec_compact|nd]).
  - (* TNonZero *) intros B _ v bs _ _ known rest. destruct v; cbn [ddepth]; apply bal_nodepth; cbn [dec]; (apply nodepth_bind; [apply nodepth_dec_prim|nd]).
  - (* TOption *) intros t IH Ht [ | | | |v'| | | | | | ] bs; cbn [wf enc dec ddepth]; try discriminate.
    + intros _ [= <-] known rest. cbn [app]. rewrite dtr_read_byte. cbn [Byte.to_N byte_of]. apply bal_nil.
    + intros Hv He known rest. apply eapp_ok in He as (x & y & [= <-] & Hy & ->). cbn [app].
      rewrite dtr_read_byte. cbn [Byte.to_N].
      rewrite (dtr_bind_ok _ _ (dec t) _ known _ _ _ (RTall t Ht v' y Hv Hy known rest)), dtr_ret, app_nil_r.
      now apply IH.
  - (* TResult *) intros t IHt e IHe H. apply andb_prop in H as [Ht He].
    intros [ | | | | |v'|v'| | | | ] bs; cbn [wf enc dec ddepth]; try discriminate; intros Hv Hx known rest;
      apply eapp_ok in Hx as (x & y & [= <-] & Hy & ->); cbn [app]; rewrite dtr_read_byte; cbn [Byte.to_N].
    + rewrite (dtr_bind_ok _ _ (dec t) _ known _ _ _ (RTall t Ht v' y Hv Hy known rest)), dtr_ret, app_nil_r. now apply IHt.
    + rewrite (dtr_bind_ok _ _ (dec e) _ known _ _ _ (RTall e He v' y Hv Hy known rest)), dtr_ret, app_nil_r. now apply IHe.
  - (* TOptionBool *) intros _ v bs _ _ known rest. destruct v; cbn [ddepth]; apply bal_nodepth; cbn [dec]; nd.
  - (* TColl *) intros k sz t IH H. apply andb_prop in H as [Ht Hsz]. apply N.leb_le in Hsz.
    intros [ | | | | | | |l| | | ] bs; cbn [wf enc]; try discriminate.
    intros Hw He known rest. apply andb_prop in Hw as [Hw Hsorted]. apply andb_prop in Hw as [Hl Hn].
    apply eapp_ok in He as (x & y & Hx & Hy & ->). rewrite (enc_count_spec _ Hn) in Hx. injection Hx as <-.
    cbn [dec]. rewrite <- app_assoc.
    rewrite (dtr_bind_ok _ _ (dec_compact 4) _ known _ _ _ (rt_compact 4 _ known (y ++ rest) okwidth4 (u32_fits _ Hn))).
    rewrite (nodepth_dtr _ _ known (nodepth_dec_compact 4)). cbn [app].
    pose proof (dd_items t l y known rest (RTall t Ht) (IH Ht) Hl Hy) as Hitems.
    pose proof (rt_items t l y known rest (RTall t Ht) Hl Hy) as Hrun.
    (* the wrapped element-wise body *)
    assert (Hgen: forall (fin : list val -> val),
              bal (dtr (items <- (emit HDescend ;;; l0 <- chunked_items sz (N.of_nat (length l)) (dec t) ;; emit HAscend ;;; Ret l0) ;; Ret (fin items)) known (y ++ rest))
                  (1 + maxl (map (ddepth t) l))).
    { intros fin.
      assert (Hinner: runo (emit HDescend ;;; l0 <- chunked_items sz (N.of_nat (length l)) (dec t) ;; emit HAscend ;;; Ret l0) known (y ++ rest)
                      = OOk (map (canon t) l) rest).
      { rewrite runo_emit, runo_bind, (chunked_items_is_rep sz _ (dec t) Hsz), Hrun. reflexivity. }
      rewrite (dtr_bind_ok _ _ _ _ known _ _ _ Hinner), dtr_ret, app_nil_r.
      rewrite dtr_emit.
      assert (Hch: runo (chunked_items sz (N.of_nat (length l)) (dec t)) known (y ++ rest) = OOk (map (canon t) l) rest)
        by (rewrite (chunked_items_is_rep sz _ (dec t) Hsz); exact Hrun).
      rewrite (dtr_bind_ok _ _ _ _ known _ _ _ Hch), dtr_emit, dtr_ret, app_nil_r.
      rewrite (teq_dtr _ _ _ (teq_chunked sz _ (dec t) Hsz)).
      apply bal_wrap. exact Hitems. }
    assert (Hnodes: forall (a : N) (fin : list val -> val),
              bal (dtr (emit HDescend ;;; emit (HAlloc a) ;;; items <- rep (N.of_nat (length l)) (node sz (dec t)) ;; emit HAscend ;;; Ret (fin items)) known (y ++ rest))
                  (1 + maxl (map (ddepth t) l))).
    { intros a fin. rewrite !dtr_emit. cbn [dpi filter is_depth app].
      assert (Hr: runo (rep (N.of_nat (length l)) (node sz (dec t))) known (y ++ rest) = OOk (map (canon t) l) rest)
        by (rewrite (oeq_rep _ _ _ _ (oeq_node sz (dec t))); exact Hrun).
      rewrite (dtr_bind_ok _ _ _ _ known _ _ _ Hr), dtr_emit, dtr_ret, app_nil_r.
      rewrite (teq_dtr _ _ _ (teq_rep dpi dpi_app _ _ _ _ (teq_node sz (dec t)))).
      change (EHook HDescend :: ?x ++ dpi [EHook HAscend]) with ([EHook HDescend] ++ x ++ [EHook HAscend]).
      apply bal_wrap. exact Hitems. }
    cbn [ddepth].
    destruct k; try (apply Hnodes).
    + (* CVec *) destruct t; try (apply (Hgen (fun items => VSeq items))).
      apply bal_nodepth. apply nodepth_bind; [|nd]. apply nodepth_bind; [apply nodepth_bulk|nd].
    + (* CHeap *) destruct t; try (apply (Hgen (fun items => VSeq (sort_vals items)))).
      apply bal_nodepth. apply nodepth_bind; [|nd]. apply nodepth_bind; [apply nodepth_bulk|nd].
  - (* TStr *) intros _ v bs _ _ known rest. destruct v; cbn [ddepth]; apply bal_nodepth; cbn [dec];
      (apply nodepth_bind; [apply nodepth_dec_compact|]; intros m; apply nodepth_bind; [apply nodepth_bulk|nd]).
  - (* TArray *) intros n t IH Ht [ | | | | | | |l| | | ] bs; cbn [wf enc]; try discriminate.
    intros Hw He known rest. apply andb_prop in Hw as [Hl Hn]. rewrite Hn in He. apply N.eqb_eq in Hn. subst n.
    pose proof (dd_items t l bs known rest (RTall t Ht) (IH Ht) Hl He) as Hitems.
    pose proof (rt_items t l bs known rest (RTall t Ht) Hl He) as Hrun.
    cbn [dec ddepth].
    assert (Hgen: bal (dtr (items <- rep (N.of_nat (length l)) (dec t) ;; Ret (VSeq items)) known (bs ++ rest)) (maxl (map (ddepth t) l))).
    { rewrite (dtr_bind_ok _ _ _ _ known _ _ _ Hrun), dtr_ret, app_nil_r. exact Hitems. }
    destruct t; try exact Hgen.
    (* primitive elements: a single read; every element has depth 0 *)
    assert (Hz: maxl (map (ddepth (TPrim B)) l) = 0).
    { clear. induction l as [|v l IHl]; cbn [map maxl fold_right]; [reflexivity|]. fold (maxl (map (ddepth (TPrim B)) l)). rewrite IHl. destruct v; reflexivity. }
    rewrite Hz. apply bal_nodepth. nd.
  - (* TPair *) intros a IHa b IHb H. apply andb_prop in H as [Ha Hb'].
    intros [ | | | | | | | |x y| | ] bs; cbn [wf enc]; try discriminate.
    intros Hw He known rest. apply andb_prop in Hw as [Hx Hy]. apply eapp_ok in He as (bx & by' & Ex & Ey & ->).
    cbn [dec ddepth]. rewrite <- app_assoc.
    rewrite (dtr_bind_ok _ _ (dec a) _ known _ _ _ (RTall a Ha x bx Hx Ex known (by' ++ rest))).
    rewrite (dtr_bind_ok _ _ (dec b) _ known _ _ _ (RTall b Hb' y by' Hy Ey known rest)), dtr_ret, app_nil_r.
    apply bal_app; [now apply IHa|now apply IHb].
  - (* TBox *) intros sz t IH Ht v bs Hw He known rest. cbn [wf enc dec ddepth] in *.
    rewrite !dtr_emit. cbn [dpi filter is_depth app].
    rewrite (dtr_bind_ok _ _ (dec t) _ known _ _ _ (RTall t Ht v bs Hw He known rest)), dtr_emit, dtr_ret, app_nil_r.
    change (EHook HDescend :: ?x ++ dpi [EHook HAscend]) with ([EHook HDescend] ++ x ++ [EHook HAscend]).
    apply bal_wrap. now apply IH.
  - (* TDuration *) intros _ v bs _ _ known rest. destruct v; cbn [ddepth]; apply bal_nodepth; cbn [dec]; nd.
  - (* TBits *) intros B msb _ v bs _ _ known rest. destruct v; cbn [ddepth]; apply bal_nodepth; cbn [dec];
      (apply nodepth_bind; [apply nodepth_dec_compact|]; intros bits; destruct (_ <? _); [exact I|];
       apply nodepth_bind; [apply nodepth_bulk|]; intros bb; cbv zeta; destruct (_ <? _); exact I).
  - (* TEnum *) intros vs IH Hvs [ | | | | | | | | | |k v'] bs; cbn [wf enc]; try discriminate.
    intros Hw He known rest. apply andb_prop in Hw as [Hidx Hw].
    destruct (IH Hvs k v' bs Hidx Hw He) as (i & pb & -> & Hi & Hdec).
    cbn [dec app ddepth]. rewrite dtr_read_byte.
    rewrite to_byte_of, N.mod_small by exact Hi. apply (Hdec known rest 0%nat).
  - (* VsNil *) intros _ k v bs _ H. discriminate.
  - (* VsCons *) intros idx t IHt vs IHvs H. apply andb_prop in H as [Ht Hvs].
    intros [|k] v bs Hidx Hw He; cbn [idx_ok wf_vars enc_vars ddepth_vars] in *.
    + apply andb_prop in Hidx as [Hidx _]. apply andb_prop in Hidx as [Hlt _]. rewrite Hlt in He.
      apply eapp_ok in He as (x & y & [= <-] & Hy & ->). apply N.ltb_lt in Hlt.
      exists idx, y. split; [reflexivity|split; [exact Hlt|]].
      intros known rest k0. cbn [dec_vars]. rewrite N.mod_small by exact Hlt. rewrite N.eqb_refl.
      rewrite (dtr_bind_ok _ _ (dec t) _ known _ _ _ (RTall t Ht v y Hw Hy known rest)), dtr_ret, app_nil_r. now apply IHt.
    + apply andb_prop in Hidx as [Hidx Hrest]. apply andb_prop in Hidx as [Hlt Hnotin].
      destruct (IHvs Hvs k v bs Hrest Hw He) as (i & pb & -> & Hi & Hdec).
      (* the index of a later variant differs from idx *)
      destruct (proj2 roundtrip_mut vs Hvs k v (byte_of i :: pb) Hrest Hw He) as (i' & pb' & Heq & Hi' & Hin & _).
      injection Heq as Hbi Hpb. assert (i = i').
      { apply (f_equal Byte.to_N) in Hbi. rewrite !to_byte_of, !N.mod_small in Hbi by assumption. exact Hbi. }
      subst i'. exists i, pb. split; [reflexivity|split; [exact Hi|]].
      intros known rest k0. cbn [dec_vars]. apply N.ltb_lt in Hlt. rewrite N.mod_small by exact Hlt.
      destruct (N.eqb_spec i idx) as [->|Hne]; [rewrite Hin in Hnotin; discriminate|]. apply (Hdec known rest (S k0)).
Qed.

(* the nesting of the trace of decoding an encoding is the nesting depth of the value *)
Theorem trace_depth_is_value_depth t v bs known rest :
  wf_ty t = true -> wf t v = true -> enc_spec t v = EOk bs ->
  max_depth 0 (snd (runt (dec t) known (bs ++ rest))) = ddepth t v.
Proof.
  intros Ht Hw He. pose proof (proj1 ddepth_mut t Ht v bs Hw He known rest) as H.
  apply bal_dpi in H. destruct (H 0) as [H1 _]. rewrite H1. lia.
Qed.

(* hence: depth-limited decoding of an encoding succeeds exactly when L >= the value's depth *)
Theorem depth_limit_on_encodings t v bs known rest L :
  wf_ty t = true -> wf t v = true -> enc_spec t v = EOk bs ->
  if ddepth t v <=? L
  then exists d, run (depthmon L) (dec t) known (bs ++ rest) 0 = ROk (canon t v) rest d
  else exists d, run (depthmon L) (dec t) known (bs ++ rest) 0 = RErr d.
Proof.
  intros Ht Hw He. pose proof (depth_limit_exact _ (dec t) known (bs ++ rest) L) as H.
  pose proof (trace_depth_is_value_depth t v bs known rest Ht Hw He) as Hd.
  pose proof (roundtrip t v bs known rest Ht Hw He) as Hr. rewrite <- runt_fst in Hr.
  destruct (runt (dec t) known (bs ++ rest)) as [o evs]. cbn [fst snd] in *. subst o. rewrite Hd in H.
  destruct (ddepth t v <=? L); exact H.
Qed.
