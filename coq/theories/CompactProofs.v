(* The per-width compact code of src/compact.rs (CompactImpl.v) computes the
   specification (CompactSpec.v). *)
Require Import Scale.Bytes Scale.Eres Scale.Prog Scale.ProgFacts Scale.ProgMore Scale.CompactImpl Scale.CompactSpec.

Lemma E6 : 2^6 = 64. Proof. reflexivity. Qed.
Lemma E14 : 2^14 = 16384. Proof. reflexivity. Qed.
Lemma E30 : 2^30 = 1073741824. Proof. reflexivity. Qed.

Lemma wrap_small bits v : v < 2 ^ bits -> wrap bits v = v.
Proof. intros H. unfold wrap. now apply N.mod_small. Qed.

Lemma mode0_spec v : v < 64 -> mode0 v = le_enc 1 (4 * v).
Proof.
  intros H. unfold mode0. rewrite (wrap_small 8 v) by (change (2^8) with 256; lia).
  rewrite shl2. rewrite wrap_small by (change (2^8) with 256; lia). reflexivity.
Qed.

Lemma mode1_spec v : v < 16384 -> mode1 v = le_enc 2 (4 * v + 1).
Proof.
  intros H. unfold mode1. rewrite (wrap_small 16 v) by (change (2^16) with 65536; lia).
  rewrite shl2. rewrite wrap_small by (change (2^16) with 65536; lia).
  now rewrite lor_low by lia.
Qed.

Lemma mode2_spec v : v < 1073741824 -> mode2 v = le_enc 4 (4 * v + 2).
Proof.
  intros H. unfold mode2. rewrite (wrap_small 32 v) by (change (2^32) with 4294967296; lia).
  rewrite shl2. rewrite wrap_small by (change (2^32) with 4294967296; lia).
  now rewrite lor_low by lia.
Qed.

Lemma push_loop_spec : forall n v, push_loop n v = (le_enc n v, v / 256 ^ N.of_nat n).
Proof.
  induction n as [|n IH]; intros v; cbn [push_loop le_enc].
  - change (256 ^ N.of_nat 0) with 1. now rewrite N.div_1_r.
  - rewrite IH, shr8. unfold wrap. change (2^8) with 256. rewrite byte_of_mod.
    rewrite Nat2N.inj_succ, N.pow_succ_r' by lia.
    rewrite N.div_div; [reflexivity|lia|apply N.pow_nonzero; lia].
Qed.

Lemma bytes_needed_spec B v : N.size v <= 8 * B ->
  B - leading_zeros B v / 8 = N.of_nat (byte_len v).
Proof.
  intros H. unfold leading_zeros, byte_len. rewrite N2Nat.id.
  set (s := N.size v) in *. clearbody s. lia.
Qed.

Lemma size_le_bits v b : v < 2 ^ b -> N.size v <= b.
Proof.
  intros H. destruct (N.eq_dec v 0) as [->|Hz]; [change (N.size 0) with 0; lia|].
  rewrite N.size_log2 by lia. assert (N.log2 v < b) by (apply N.log2_lt_pow2; lia). lia.
Qed.

Lemma byte_len_big v : 2^30 <= v -> (4 <= byte_len v)%nat.
Proof.
  intros H. assert (Hpos: 0 < v) by (rewrite E30 in H; lia).
  pose proof (byte_len_spec v Hpos) as [_ Hhi].
  destruct (Nat.leb_spec 4 (byte_len v)); auto. exfalso.
  assert (256 ^ N.of_nat (byte_len v) <= 256 ^ 3) by (apply N.pow_le_mono_r; lia).
  change (256^3) with 16777216 in *. rewrite E30 in H. lia.
Qed.

Lemma byte_len_le v B : 0 < v -> v < 2 ^ (8 * B) -> N.of_nat (byte_len v) <= B.
Proof.
  intros Hpos H. pose proof (byte_len_spec v Hpos) as [Hlo _].
  destruct (N.leb_spec (N.of_nat (byte_len v)) B); auto. exfalso.
  assert (256 ^ B <= 256 ^ (N.of_nat (byte_len v) - 1)) by (apply N.pow_le_mono_r; lia).
  replace (2 ^ (8 * B)) with (256 ^ B) in H by (change 256 with (2^8); now rewrite <- N.pow_mul_r).
  lia.
Qed.

Definition okwidth (B : N) : Prop := B = 1 \/ B = 2 \/ B = 4 \/ B = 8 \/ B = 16.

Lemma enc_cbig_spec B v : B = 8 \/ B = 16 -> v < 2 ^ (8 * B) -> enc_cbig B v = EOk (spec_compact v).
Proof.
  intros HB Hv. unfold enc_cbig, spec_compact. rewrite E6, E14, E30.
  destruct (N.leb_spec v 63); [destruct (N.ltb_spec v 64); [|lia]; now rewrite mode0_spec by lia|].
  destruct (N.ltb_spec v 64); [lia|].
  destruct (N.leb_spec v 16383); [destruct (N.ltb_spec v 16384); [|lia]; now rewrite mode1_spec by lia|].
  destruct (N.ltb_spec v 16384); [lia|].
  destruct (N.leb_spec v 1073741823); [destruct (N.ltb_spec v 1073741824); [|lia]; now rewrite mode2_spec by lia|].
  destruct (N.ltb_spec v 1073741824); [lia|].
  assert (Hpos: 0 < v) by lia.
  rewrite bytes_needed_spec by (apply size_le_bits; exact Hv).
  pose proof (byte_len_big v) as Hbl4. rewrite E30 in Hbl4. specialize (Hbl4 ltac:(lia)).
  pose proof (byte_len_le v B Hpos Hv) as HleB.
  pose proof (byte_len_spec v Hpos) as [Hlo Hhi].
  set (n := byte_len v) in *.
  destruct (N.ltb_spec (N.of_nat n) 4); [lia|].
  rewrite Nat2N.id, push_loop_spec.
  rewrite N.div_small by exact Hhi. cbn [N.eqb]. change (0 =? 0) with true. cbv iota.
  rewrite shl2.
  assert (4 * (N.of_nat n - 4) < 64) by (destruct HB; subst B; lia).
  rewrite (wrap_small 32) by (change (2^32) with 4294967296; lia).
  rewrite (wrap_small 8) by (change (2^8) with 256; lia).
  do 3 f_equal. lia.
Qed.

Theorem enc_compact_spec B v : okwidth B -> v < 2 ^ (8 * B) ->
  enc_compact B v = EOk (spec_compact v).
Proof.
  intros HB Hv. unfold enc_compact.
  destruct HB as [->|[->|[->|HB]]].
  - (* u8 *) change (2 ^ (8 * 1)) with 256 in Hv. cbn [N.eqb]. change (1 =? 1) with true. cbv iota.
    unfold enc_c8, spec_compact. rewrite E6, E14.
    destruct (N.leb_spec v 63); [destruct (N.ltb_spec v 64); [|lia]; now rewrite mode0_spec by lia|].
    destruct (N.ltb_spec v 64); [lia|]. destruct (N.ltb_spec v 16384); [|lia].
    now rewrite mode1_spec by lia.
  - (* u16 *) change (2 ^ (8 * 2)) with 65536 in Hv. change (2 =? 1) with false. change (2 =? 2) with true. cbv iota.
    unfold enc_c16, spec_compact. rewrite E6, E14, E30.
    destruct (N.leb_spec v 63); [destruct (N.ltb_spec v 64); [|lia]; now rewrite mode0_spec by lia|].
    destruct (N.ltb_spec v 64); [lia|].
    destruct (N.leb_spec v 16383); [destruct (N.ltb_spec v 16384); [|lia]; now rewrite mode1_spec by lia|].
    destruct (N.ltb_spec v 16384); [lia|]. destruct (N.ltb_spec v 1073741824); [|lia].
    now rewrite mode2_spec by lia.
  - (* u32 *) change (2 ^ (8 * 4)) with 4294967296 in Hv.
    change (4 =? 1) with false. change (4 =? 2) with false. change (4 =? 4) with true. cbv iota.
    unfold enc_c32, spec_compact. rewrite E6, E14, E30.
    destruct (N.leb_spec v 63); [destruct (N.ltb_spec v 64); [|lia]; now rewrite mode0_spec by lia|].
    destruct (N.ltb_spec v 64); [lia|].
    destruct (N.leb_spec v 16383); [destruct (N.ltb_spec v 16384); [|lia]; now rewrite mode1_spec by lia|].
    destruct (N.ltb_spec v 16384); [lia|].
    destruct (N.leb_spec v 1073741823); [destruct (N.ltb_spec v 1073741824); [|lia]; now rewrite mode2_spec by lia|].
    destruct (N.ltb_spec v 1073741824); [lia|].
    assert (Hbl: byte_len v = 4%nat).
    { apply byte_len_unique; [lia| |lia]. change (256 ^ (N.of_nat 4 - 1)) with 16777216.
      change (256 ^ N.of_nat 4) with 4294967296. lia. }
    rewrite Hbl. reflexivity.
  - assert (HB' : B = 8 \/ B = 16) by exact HB.
    destruct HB as [->| ->]; cbn [N.eqb]; (apply enc_cbig_spec; [tauto|exact Hv]).
Qed.

(* ---------------- compact_len ---------------- *)
Theorem len_compact_spec B v : okwidth B -> v < 2 ^ (8 * B) ->
  len_compact B v = N.of_nat (length (spec_compact v)).
Proof.
  intros HB Hv. unfold len_compact, spec_compact. rewrite E6, E14, E30.
  destruct (N.leb_spec v 63); [destruct (N.ltb_spec v 64); [|lia]; now rewrite le_enc_len|].
  destruct (N.ltb_spec v 64); [lia|].
  destruct (N.eqb_spec B 1) as [->|HB1].
  { change (2 ^ (8 * 1)) with 256 in Hv. destruct (N.ltb_spec v 16384); [|lia]. now rewrite le_enc_len. }
  destruct (N.leb_spec v 16383); [destruct (N.ltb_spec v 16384); [|lia]; now rewrite le_enc_len|].
  destruct (N.ltb_spec v 16384); [lia|].
  destruct (N.eqb_spec B 2) as [->|HB2].
  { change (2 ^ (8 * 2)) with 65536 in Hv. destruct (N.ltb_spec v 1073741824); [|lia]. now rewrite le_enc_len. }
  destruct (N.leb_spec v 1073741823); [destruct (N.ltb_spec v 1073741824); [|lia]; now rewrite le_enc_len|].
  destruct (N.ltb_spec v 1073741824); [lia|].
  cbn [length]. rewrite le_enc_len.
  destruct (N.eqb_spec B 4) as [->|HB4].
  { change (2 ^ (8 * 4)) with 4294967296 in Hv.
    assert (Hbl: byte_len v = 4%nat).
    { apply byte_len_unique; [lia| |lia]. change (256 ^ (N.of_nat 4 - 1)) with 16777216.
      change (256 ^ N.of_nat 4) with 4294967296. lia. }
    rewrite Hbl. reflexivity. }
  rewrite bytes_needed_spec by (apply size_le_bits; exact Hv). lia.
Qed.

(* ---------------- decoders ---------------- *)
Definition of_opt {A} (x : option (A * list byte)) : out A :=
  match x with Some (a, r) => OOk a r | None => OErr [] end.

Lemma runo_read_bind A (k : N) (f : list byte -> prog A) known bs :
  runo (b <- read k ;; f b) known bs =
  match take (N.to_nat k) bs with
  | Some (b, r) => runo (f b) known r
  | None => OErr bs
  end.
Proof.
  cbn [read bindp runo]. rewrite avail_spec. unfold take.
  destruct (N.leb_spec k (N.of_nat (length bs))); destruct (Nat.leb_spec (N.to_nat k) (length bs)); try lia; reflexivity.
Qed.

Lemma lor_bytes_spec : forall bs i, lor_bytes i bs = le_dec bs * 2 ^ (i * 8).
Proof.
  induction bs as [|b r IH]; intros i; cbn [lor_bytes le_dec]; [lia|].
  rewrite IH. pose proof (Byte.to_N_bounded b) as Hb.
  rewrite N.shiftl_mul_pow2.
  replace (le_dec r * 2 ^ ((i + 1) * 8)) with (N.shiftl (le_dec r) ((i + 1) * 8)) by apply N.shiftl_mul_pow2.
  rewrite lor_shift_add.
  - replace ((i + 1) * 8) with (8 + i * 8) by lia. rewrite N.pow_add_r. change (2 ^ 8) with 256. lia.
  - replace ((i + 1) * 8) with (8 + i * 8) by lia. rewrite N.pow_add_r. change (2 ^ 8) with 256.
    assert (0 < 2 ^ (i * 8)) by (apply N.neq_0_lt_0, N.pow_nonzero; lia). nia.
Qed.

Lemma lor_bytes_0 bs : lor_bytes 0 bs = le_dec bs.
Proof. rewrite lor_bytes_spec. change (2 ^ (0 * 8)) with 1. lia. Qed.

Lemma pow2_sub1_shiftr a k : k <= a -> N.shiftr (2 ^ a - 1) k = 2 ^ (a - k) - 1.
Proof.
  intros H. rewrite N.shiftr_div_pow2.
  assert (Hk: 0 < 2 ^ k) by (apply N.neq_0_lt_0, N.pow_nonzero; lia).
  assert (Hak: 0 < 2 ^ (a - k)) by (apply N.neq_0_lt_0, N.pow_nonzero; lia).
  assert (E: 2 ^ a = 2 ^ (a - k) * 2 ^ k) by (rewrite <- N.pow_add_r; f_equal; lia).
  symmetry. apply N.div_unique with (r := 2 ^ k - 1); [lia|]. rewrite E. nia.
Qed.

Lemma pow256 n : 256 ^ n = 2 ^ (8 * n).
Proof. change 256 with (2 ^ 8). now rewrite <- N.pow_mul_r. Qed.

Lemma mod4_cases pn : pn mod 4 = 0 \/ pn mod 4 = 1 \/ pn mod 4 = 2 \/ pn mod 4 = 3.
Proof. lia. Qed.

(* common to all widths: modes 1 and 2 *)
Lemma mode1_dec W p r0 known (hi : N) :
  8 <= W -> (hi = 255 /\ W = 8 \/ hi = 16383 /\ 14 <= W) ->
  oview (runo (x <- prefixed p 1 ;; if (63 <? x) && (x <=? hi) then Ret x else Fail) known r0) =
  of_opt (match take 1 r0 with
          | Some (b, r) => let x := le_dec (p :: b) / 4 in
                           if (2 ^ 6 <=? x) && (x <? 2 ^ W) then Some (x, r) else None
          | None => None end).
Proof.
  intros HW Hhi. unfold prefixed. rewrite runo_bind, runo_read_bind. change (N.to_nat 1) with 1%nat.
  destruct (take 1 r0) as [[b r]|] eqn:Et; [|reflexivity].
  apply take_inv in Et as [-> Hlen]. cbn [runo]. rewrite shr2. cbv zeta.
  pose proof (le_dec_bound (p :: b)) as Hb. cbn [length] in Hb. rewrite Hlen in Hb.
  change (256 ^ N.of_nat 2) with 65536 in Hb.
  set (x := le_dec (p :: b) / 4) in *. assert (Hx: x < 16384) by (unfold x; lia).
  rewrite E6.
  assert (H14W: W = 8 \/ 2 ^ 14 <= 2 ^ W).
  { destruct (N.eq_dec W 8); auto. right. apply N.pow_le_mono_r; lia. }
  rewrite E14 in H14W.
  destruct (N.ltb_spec 63 x); destruct (N.leb_spec 64 x); try lia; cbn [andb]; [|reflexivity].
  destruct Hhi as [[-> ->]|[-> HW14]].
  - change (2 ^ 8) with 256. destruct (N.leb_spec x 255); destruct (N.ltb_spec x 256); try lia; reflexivity.
  - destruct H14W as [->|H14W]; [lia|].
    destruct (N.leb_spec x 16383); destruct (N.ltb_spec x (2 ^ W)); try lia; reflexivity.
Qed.

Lemma mode2_dec W p r0 known (f : N -> bool) :
  (W = 16 /\ f = (fun x => (16383 <? x) && (x <? 65536)) \/
   32 <= W /\ f = (fun x => (16383 <? x) && (x <=? N.shiftr u32max 2))) ->
  oview (runo (x <- prefixed p 3 ;; if f x then Ret x else Fail) known r0) =
  of_opt (match take 3 r0 with
          | Some (b, r) => let x := le_dec (p :: b) / 4 in
                           if (2 ^ 14 <=? x) && (x <? 2 ^ W) then Some (x, r) else None
          | None => None end).
Proof.
  intros Hf. unfold prefixed. rewrite runo_bind, runo_read_bind. change (N.to_nat 3) with 3%nat.
  destruct (take 3 r0) as [[b r]|] eqn:Et; [|reflexivity].
  apply take_inv in Et as [-> Hlen]. cbn [runo]. rewrite shr2. cbv zeta.
  pose proof (le_dec_bound (p :: b)) as Hb. cbn [length] in Hb. rewrite Hlen in Hb.
  change (256 ^ N.of_nat 4) with 4294967296 in Hb.
  set (x := le_dec (p :: b) / 4) in *. assert (Hx: x < 1073741824) by (unfold x; lia).
  rewrite E14.
  destruct Hf as [[-> ->]|[HW ->]].
  - change (2 ^ 16) with 65536.
    destruct (N.ltb_spec 16383 x); destruct (N.leb_spec 16384 x); try lia; cbn [andb]; [|reflexivity].
    destruct (N.ltb_spec x 65536); reflexivity.
  - change (N.shiftr u32max 2) with 1073741823.
    assert (2 ^ 32 <= 2 ^ W) by (apply N.pow_le_mono_r; lia). change (2 ^ 32) with 4294967296 in *.
    destruct (N.ltb_spec 16383 x); destruct (N.leb_spec 16384 x); try lia; cbn [andb]; [|reflexivity].
    destruct (N.leb_spec x 1073741823); destruct (N.ltb_spec x (2 ^ W)); try lia; reflexivity.
Qed.

(* big-integer mode with one bulk read of n bytes *)
Lemma big_read_dec W n r0 known (lo : N) :
  8 * n <= W -> 4 <= n -> lo + 1 = N.max (256 ^ (n - 1)) (2 ^ 30) ->
  oview (runo (b <- read n ;; let x := le_dec b in if lo <? x then Ret x else Fail) known r0) =
  of_opt (match take (N.to_nat n) r0 with
          | Some (b, r) => let x := le_dec b in
              if (2 ^ 30 <=? x) && (256 ^ (N.of_nat (N.to_nat n) - 1) <=? x) && (x <? 2 ^ W)
              then Some (x, r) else None
          | None => None end).
Proof.
  intros HW Hn Hlo. rewrite runo_read_bind.
  destruct (take (N.to_nat n) r0) as [[b r]|] eqn:Et; [|reflexivity].
  apply take_inv in Et as [-> Hlen]. cbv zeta. rewrite N2Nat.id.
  pose proof (le_dec_bound b) as Hb. rewrite Hlen, N2Nat.id in Hb.
  assert (HnW: 256 ^ n <= 2 ^ W) by (rewrite pow256; apply N.pow_le_mono_r; lia).
  rewrite E30 in *.
  set (x := le_dec b) in *. set (P := 256 ^ (n - 1)) in *.
  destruct (N.ltb_spec lo x); cbn [runo oview].
  - destruct (N.leb_spec 1073741824 x); [|lia].
    destruct (N.leb_spec P x); [|lia]. destruct (N.ltb_spec x (2 ^ W)); [|lia]. reflexivity.
  - destruct (N.leb_spec 1073741824 x); cbn [andb]; [|reflexivity].
    destruct (N.leb_spec P x); [lia|]. reflexivity.
Qed.

Lemma big_loop_dec W n r0 known (lo : N) :
  8 * n <= W -> 4 <= n -> lo + 1 = N.max (256 ^ (n - 1)) (2 ^ 30) ->
  oview (runo (bs <- rep_nat (N.to_nat n) read_byte ;;
               let x := lor_bytes 0 bs in if lo <? x then Ret x else Fail) known r0) =
  of_opt (match take (N.to_nat n) r0 with
          | Some (b, r) => let x := le_dec b in
              if (2 ^ 30 <=? x) && (256 ^ (N.of_nat (N.to_nat n) - 1) <=? x) && (x <? 2 ^ W)
              then Some (x, r) else None
          | None => None end).
Proof.
  intros HW Hn Hlo. rewrite <- (big_read_dec W n r0 known lo HW Hn Hlo).
  rewrite runo_bind, runo_rep_read_byte, runo_read_bind.
  destruct (take (N.to_nat n) r0) as [[b r]|]; [|reflexivity].
  cbv zeta. now rewrite lor_bytes_0.
Qed.

Lemma mode0_dec W pn : 8 <= W -> pn < 256 -> N.shiftr pn 2 = pn / 4.
Proof. intros _ _. apply shr2. Qed.

Lemma runo_read_byte_bind A (f : byte -> prog A) known bs :
  runo (p <- read_byte ;; f p) known bs =
  match bs with [] => OErr [] | p :: r => runo (f p) known r end.
Proof. cbn [read_byte bindp runo]. destruct bs; reflexivity. Qed.

Lemma pow256_ge n : 4 <= n -> 2 ^ 30 <= 256 ^ n.
Proof.
  intros H. assert (256 ^ 4 <= 256 ^ n) by (apply N.pow_le_mono_r; lia).
  change (256 ^ 4) with 4294967296 in *. rewrite E30. lia.
Qed.

Ltac fin := try reflexivity; rewrite ?andb_false_r; try reflexivity; cbn [andb]; try reflexivity.

Theorem dec_compact_spec B known bs : okwidth B ->
  oview (runo (dec_compact B) known bs) = of_opt (sdec (8 * B) bs).
Proof.
  intros HB. unfold dec_compact.
  destruct HB as [->|[->|[->|HB]]].
  - (* u8 *)
    change (1 =? 1) with true. cbv iota. unfold dec_c8. rewrite runo_read_byte_bind.
    destruct bs as [|p r0]; [reflexivity|]. cbv zeta. unfold sdec.
    pose proof (Byte.to_N_bounded p) as Hp. set (pn := Byte.to_N p) in *.
    destruct (mod4_cases pn) as [Em|[Em|[Em|Em]]]; rewrite Em.
    + cbn [runo oview of_opt]. now rewrite shr2.
    + change (8 * 1) with 8. apply (mode1_dec 8 p r0 known 255); [lia|left; auto].
    + cbn [runo oview].
      destruct (take 3 r0) as [[b r]|] eqn:Et; [|reflexivity].
      apply take_inv in Et as [-> Hlen]. cbv zeta.
      (* x >= 2^14 can never be < 2^8 *)
      rewrite E14. change (2 ^ (8 * 1)) with 256.
      destruct (N.leb_spec 16384 (le_dec (p :: b) / 4)); destruct (N.ltb_spec (le_dec (p :: b) / 4) 256); try lia; reflexivity.
    + cbn [runo oview].
      destruct (take (N.to_nat (pn / 4 + 4)) r0) as [[b r]|] eqn:Et; [|reflexivity].
      cbv zeta. rewrite E30. change (2 ^ (8 * 1)) with 256.
      destruct (N.leb_spec 1073741824 (le_dec b)); destruct (N.ltb_spec (le_dec b) 256); try lia; fin.
  - (* u16 *)
    change (2 =? 1) with false. change (2 =? 2) with true. cbv iota. unfold dec_c16.
    rewrite runo_read_byte_bind.
    destruct bs as [|p r0]; [reflexivity|]. cbv zeta. unfold sdec.
    pose proof (Byte.to_N_bounded p) as Hp. set (pn := Byte.to_N p) in *.
    destruct (mod4_cases pn) as [Em|[Em|[Em|Em]]]; rewrite Em.
    + cbn [runo oview of_opt]. now rewrite shr2.
    + change (8 * 2) with 16. apply (mode1_dec 16 p r0 known 16383); [lia|right; split; [auto|lia]].
    + change (8 * 2) with 16. apply (mode2_dec 16 p r0 known). left; auto.
    + cbn [runo oview].
      destruct (take (N.to_nat (pn / 4 + 4)) r0) as [[b r]|] eqn:Et; [|reflexivity].
      cbv zeta. rewrite E30. change (2 ^ (8 * 2)) with 65536.
      destruct (N.leb_spec 1073741824 (le_dec b)); destruct (N.ltb_spec (le_dec b) 65536); try lia; fin.
  - (* u32 *)
    change (4 =? 1) with false. change (4 =? 2) with false. change (4 =? 4) with true. cbv iota.
    unfold dec_c32. rewrite runo_read_byte_bind.
    destruct bs as [|p r0]; [reflexivity|]. cbv zeta. unfold sdec.
    pose proof (Byte.to_N_bounded p) as Hp. set (pn := Byte.to_N p) in *.
    destruct (mod4_cases pn) as [Em|[Em|[Em|Em]]]; rewrite Em.
    + cbn [runo oview of_opt]. now rewrite shr2.
    + change (8 * 4) with 32. apply (mode1_dec 32 p r0 known 16383); [lia|right; split; [auto|lia]].
    + change (8 * 4) with 32. apply (mode2_dec 32 p r0 known). right; split; [lia|auto].
    + rewrite shr2. change (8 * 4) with 32.
      destruct (N.eqb_spec (pn / 4) 0) as [E0|E0].
      * rewrite E0. change (0 + 4) with 4.
        apply (big_read_dec 32 4 r0 known); [lia|lia|reflexivity].
      * cbn [runo oview].
        destruct (take (N.to_nat (pn / 4 + 4)) r0) as [[b r]|] eqn:Et; [|reflexivity].
        apply take_inv in Et as [_ Hlen]. cbv zeta.
        assert (Hlo: 256 ^ 4 <= 256 ^ (N.of_nat (N.to_nat (pn / 4 + 4)) - 1)) by (apply N.pow_le_mono_r; lia).
        change (256 ^ 4) with 4294967296 in Hlo. change (2 ^ 32) with 4294967296.
        destruct (N.leb_spec (256 ^ (N.of_nat (N.to_nat (pn / 4 + 4)) - 1)) (le_dec b));
          destruct (N.ltb_spec (le_dec b) 4294967296); try lia; fin.
  - (* u64 / u128 *)
    assert (HB8: 8 <= B) by (destruct HB; subst; lia).
    destruct (N.eqb_spec B 1) as [?|_]; [lia|]. destruct (N.eqb_spec B 2) as [?|_]; [lia|]. destruct (N.eqb_spec B 4) as [?|_]; [lia|].
    unfold dec_cbig. rewrite runo_read_byte_bind.
    destruct bs as [|p r0]; [reflexivity|]. cbv zeta. unfold sdec.
    pose proof (Byte.to_N_bounded p) as Hp. set (pn := Byte.to_N p) in *.
    destruct (mod4_cases pn) as [Em|[Em|[Em|Em]]]; rewrite Em.
    + cbn [runo oview of_opt]. now rewrite shr2.
    + apply (mode1_dec (8 * B) p r0 known 16383); [lia|right; split; [auto|lia]].
    + apply (mode2_dec (8 * B) p r0 known). right; split; [lia|auto].
    + rewrite shr2. set (n := pn / 4 + 4).
      assert (Hn4: 4 <= n) by (unfold n; lia).
      destruct (N.eqb_spec n 4) as [E4|E4].
      { rewrite E4. apply (big_read_dec (8 * B) 4 r0 known); [lia|lia|reflexivity]. }
      destruct (N.eqb_spec n 8) as [E8|E8].
      { rewrite E8. apply (big_read_dec (8 * B) 8 r0 known); [lia|lia|reflexivity]. }
      destruct ((B =? 16) && (n =? 16)) eqn:E16.
      { apply andb_prop in E16 as [EB En]. apply N.eqb_eq in EB, En. rewrite En. subst B.
        apply (big_read_dec (8 * 16) 16 r0 known); [lia|lia|reflexivity]. }
      destruct (N.ltb_spec B n) as [HBn|HBn].
      { (* more bytes than the width: the value would be >= 256^(n-1) >= 2^(8B) *)
        cbn [runo oview].
        destruct (take (N.to_nat n) r0) as [[b r]|] eqn:Et; [|reflexivity].
        cbv zeta. rewrite N2Nat.id.
        assert (Hlo: 256 ^ B <= 256 ^ (n - 1)) by (apply N.pow_le_mono_r; lia).
        rewrite pow256 in Hlo.
        destruct (N.leb_spec (256 ^ (n - 1)) (le_dec b));
          destruct (N.ltb_spec (le_dec b) (2 ^ (8 * B))); try lia; fin. }
      apply (big_loop_dec (8 * B) n r0 known); [lia|lia|].
      assert (Hge: 2 ^ 30 <= 256 ^ (n - 1)) by (apply pow256_ge; lia).
      rewrite N.max_l by lia.
      unfold umax. rewrite pow2_sub1_shiftr by lia.
      replace (8 * B - (B - n + 1) * 8) with (8 * (n - 1)) by lia.
      rewrite <- pow256.
      assert (0 < 256 ^ (n - 1)) by (apply N.neq_0_lt_0, N.pow_nonzero; lia). lia.
Qed.
