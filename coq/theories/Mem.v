(* C12, the value side: the sizes announced to the memory tracker while decoding an encoding sum to
   a closed form of the value: element count times element size per sequence, list node size per
   list element, the B-tree estimate per map/set, the boxed size per Box/Rc/Arc, the byte length per
   string, summed over the nesting.  Together with Monitors.mem_limit_threshold: the threshold U of
   a memory-limited decode of an encoding is that closed form. *)
Require Import Scale.Bytes Scale.Eres Scale.Prog Scale.ProgFacts Scale.ProgMore Scale.Chunks Scale.TraceEq Scale.Monitors
  Scale.CompactImpl Scale.CompactSpec Scale.CompactProofs Scale.CompactTheorems Scale.Utf8 Scale.Codec Scale.CodecEnc Scale.CodecDec Scale.CodecRt.

Fixpoint asum (evs : list event) : N :=
  match evs with
  | [] => 0
  | EHook (HAlloc n) :: r => n + asum r
  | _ :: r => asum r
  end.
Lemma asum_app a b : asum (a ++ b) = asum a + asum b.
Proof. induction a as [|e a IH]; cbn [app asum]; [lia|]. destruct e as [n|[| |n|n]]; lia. Qed.

(* below the saturation point the tracker's usage is the plain sum *)
Lemma used_after_asum evs : forall u, u + asum evs <= usize_max -> used_after u evs = u + asum evs.
Proof.
  induction evs as [|e r IH]; intros u H; cbn [used_after asum] in *; [lia|].
  destruct e as [n|[| |n|n]]; try (now apply IH).
  unfold sat_add. rewrite N.min_r by lia. rewrite IH by lia. lia.
Qed.

Definition atr {A} (p : prog A) known bs : N := asum (snd (runt p known bs)).

Lemma atr_bind_ok A B (p : prog A) (f : A -> prog B) known bs a r :
  runo p known bs = OOk a r -> atr (bindp p f) known bs = atr p known bs + atr (f a) known r.
Proof.
  intros H. unfold atr. rewrite runt_bind. rewrite <- runt_fst in H.
  destruct (runt p known bs) as [o e1]. cbn [fst] in H. subst o. unfold app_ev. cbn [snd]. apply asum_app.
Qed.
Lemma bind_ok_inv A B (p : prog A) (f : A -> prog B) known bs b r :
  runo (bindp p f) known bs = OOk b r -> exists a r', runo p known bs = OOk a r' /\ runo (f a) known r' = OOk b r.
Proof. rewrite runo_bind. destruct (runo p known bs) as [a r'|r'| |]; try discriminate. eauto. Qed.

Lemma atr_emit A h (p : prog A) known bs : atr (emit h ;;; p) known bs = asum [EHook h] + atr p known bs.
Proof. unfold atr. cbn [emit bindp runt]. unfold cons_ev. cbn [snd]. change (EHook h :: ?x) with ([EHook h] ++ x). apply asum_app. Qed.
Lemma atr_read_byte A (k : byte -> prog A) known b bs :
  atr (x <- read_byte ;; k x) known (b :: bs) = atr (k b) known bs.
Proof. unfold atr. cbn [read_byte bindp runt]. unfold cons_ev. cbn [snd asum]. reflexivity. Qed.
Lemma atr_ret A (a : A) known bs : atr (Ret a) known bs = 0.
Proof. reflexivity. Qed.

(* programs that announce nothing *)
Fixpoint noalloc {A} (p : prog A) : Prop :=
  match p with
  | Emit (HAlloc _) _ => False
  | Emit _ k => noalloc k
  | Read _ k => forall bs, noalloc (k bs)
  | ReadByte k => forall b, noalloc (k b)
  | Need _ k => noalloc k
  | _ => True
  end.
Lemma noalloc_bind A B (p : prog A) (g : A -> prog B) : noalloc p -> (forall a, noalloc (g a)) -> noalloc (bindp p g).
Proof.
  intros Hp Hg. induction p as [a| | | |n k IH|k IH|nd k IH|h k IH]; cbn [noalloc bindp] in *; auto.
  destruct h; auto.
Qed.
Lemma noalloc_atr A (p : prog A) known : noalloc p -> forall bs, atr p known bs = 0.
Proof.
  unfold atr. induction p as [a| | | |n k IH|k IH|nd k IH|h k IH]; intros Hp bs; cbn [runt noalloc] in *; auto.
  - destruct (avail n bs); [|reflexivity]. unfold cons_ev. cbn [snd asum]. now apply IH.
  - destruct bs as [|b r]; [reflexivity|]. unfold cons_ev. cbn [snd asum]. now apply IH.
  - destruct (known && negb (avail nd bs)); [reflexivity|]. now apply IH.
  - unfold cons_ev. destruct h; try contradiction; cbn [snd asum]; now apply IH.
Qed.

Lemma noalloc_rep_nat A (c : prog A) n : noalloc c -> noalloc (rep_nat n c).
Proof.
  intros Hc. induction n as [|n IH]; cbn [rep_nat noalloc]; auto.
  apply noalloc_bind; [exact Hc|]. intros a. apply noalloc_bind; [exact IH|]. intros l. exact I.
Qed.

Ltac na := repeat first
  [ progress cbn [noalloc bindp read read_byte prefixed emit need]
  | progress intros
  | apply noalloc_bind
  | apply noalloc_rep_nat
  | match goal with |- noalloc (match ?x with _ => _ end) => destruct x end
  | match goal with |- noalloc (if ?x then _ else _) => destruct x end
  | exact I ].

Lemma noalloc_dec_compact B : noalloc (dec_compact B).
Proof.
  unfold dec_compact, dec_c8, dec_c16, dec_c32, dec_cbig.
  destruct (B =? 1); [na|]. destruct (B =? 2); [na|]. destruct (B =? 4); na.
Qed.
Lemma noalloc_dec_prim B : noalloc (dec_prim B).
Proof. unfold dec_prim. na. Qed.

(* programs whose every successful run announces the same total *)
Definition csum {A} (p : prog A) (w : N) : Prop :=
  forall known bs a r, runo p known bs = OOk a r -> atr p known bs = w.
Lemma csum_noalloc A (p : prog A) : noalloc p -> csum p 0.
Proof. intros H known bs a r _. now apply noalloc_atr. Qed.
Lemma csum_bind A B (p : prog A) (f : A -> prog B) w1 w2 :
  csum p w1 -> (forall a, csum (f a) w2) -> csum (bindp p f) (w1 + w2).
Proof.
  intros Hp Hf known bs b r H. apply bind_ok_inv in H as (a & r' & H1 & H2).
  rewrite (atr_bind_ok _ _ p f known bs a r' H1), (Hp known bs a r' H1), (Hf a known r' b r H2). reflexivity.
Qed.
Lemma csum_rep_nat A (c : prog A) w n : csum c w -> csum (rep_nat n c) (N.of_nat n * w).
Proof.
  intros Hc. induction n as [|n IH]; cbn [rep_nat].
  - intros known bs a r _. reflexivity.
  - replace (N.of_nat (S n) * w) with (w + (N.of_nat n * w + 0)) by lia.
    apply csum_bind; [exact Hc|]. intros a. apply csum_bind; [exact IH|]. intros l known bs x r _. reflexivity.
Qed.
Lemma csum_rep A (c : prog A) w n : csum c w -> csum (rep n c) (n * w).
Proof.
  intros Hc known bs a r H. unfold atr. rewrite (rep_rep_nat _ c n known bs).
  rewrite (peq_runo _ _ _ (rep_rep_nat _ c n)) in H.
  rewrite <- (N2Nat.id n) at 2. apply (csum_rep_nat _ c w (N.to_nat n) Hc known bs a r H).
Qed.
Lemma csum_emit A h (p : prog A) w : csum p w -> csum (emit h ;;; p) (asum [EHook h] + w).
Proof. intros Hp known bs a r H. rewrite atr_emit. rewrite runo_emit in H. now rewrite (Hp known bs a r H). Qed.

Lemma sat_mul_chunk k sz : sz <= max_prealloc -> k <= chunk_len sz -> sat_mul k sz = k * sz.
Proof.
  intros Hsz Hk. unfold sat_mul. apply N.min_r. unfold chunk_len in Hk.
  destruct (N.eqb_spec sz 0) as [->|Hz]; [unfold usize_max, u64max; lia|].
  assert (k * sz <= max_prealloc).
  { pose proof (N.mul_div_le max_prealloc sz Hz). nia. }
  unfold max_prealloc, usize_max, u64max in *. lia.
Qed.

(* the bulk path announces exactly the bytes it is about to read *)
Lemma csum_bulk B n : B <= max_prealloc -> csum (bulk_bytes B n) (n * B).
Proof.
  intros HB. unfold bulk_bytes. cbv zeta.
  pose proof (chunk_len_pos B HB) as Hcl. set (cl := chunk_len B) in *.
  pose proof (N.div_mod n cl ltac:(lia)) as Hdm. pose proof (N.mod_lt n cl ltac:(lia)) as Hlt.
  assert (Hone: forall k, k <= cl -> csum (one_bulk B k) (k * B)).
  { intros k Hk. unfold one_bulk. rewrite <- (sat_mul_chunk k B HB Hk).
    replace (sat_mul k B) with (asum [EHook (HAlloc (sat_mul k B))] + (asum [EHook (HReal (sat_mul k B))] + 0)) at 2 by (cbn [asum]; lia).
    apply csum_emit, csum_emit, csum_noalloc. na. }
  replace (n * B) with (0 + ((n / cl) * (cl * B) + (n mod cl) * B)) by nia.
  apply csum_bind; [apply csum_noalloc; na|]. intros _.
  apply csum_bind.
  - destruct (N.eqb_spec (n / cl) 0) as [E|E].
    + rewrite E. intros known bs a r _. reflexivity.
    + apply csum_rep, Hone. lia.
  - intros full. destruct (N.eqb_spec (n mod cl) 0) as [E|E].
    + rewrite E. intros known bs a r _. reflexivity.
    + replace (n mod cl * B) with (n mod cl * B + 0) by lia.
      apply csum_bind; [apply Hone; lia|]. intros l known bs a r _. reflexivity.
Qed.

(* ---------- the chunked path against an element-wise twin ---------- *)
Lemma runt_emit A h (p : prog A) known bs :
  runt (emit h ;;; p) known bs = (fst (runt p known bs), EHook h :: snd (runt p known bs)).
Proof. reflexivity. Qed.

Lemma rep_nat_announce A (c : prog A) sz k : forall known bs,
  fst (runt (rep_nat k (emit (HAlloc sz) ;;; c)) known bs) = fst (runt (rep_nat k c) known bs) /\
  (is_ok (fst (runt (rep_nat k c) known bs)) = true ->
   asum (snd (runt (rep_nat k (emit (HAlloc sz) ;;; c)) known bs)) = N.of_nat k * sz + asum (snd (runt (rep_nat k c) known bs))).
Proof.
  induction k as [|k IH]; intros known bs; cbn [rep_nat].
  - cbn. split; [reflexivity|lia].
  - rewrite (runt_bind _ _ (emit (HAlloc sz) ;;; c)), (runt_bind _ _ c), runt_emit.
    destruct (runt c known bs) as [o e1]. cbn [fst snd].
    destruct o as [a r|r| |]; cbn [fst snd is_ok]; try (split; [reflexivity|discriminate]).
    rewrite !runt_bind. destruct (IH known r) as [H1 H2].
    destruct (runt (rep_nat k (emit (HAlloc sz) ;;; c)) known r) as [o1 ev1].
    destruct (runt (rep_nat k c) known r) as [o2 ev2]. cbn [fst snd] in *. subst o1.
    destruct o2 as [l r2|r2| |]; unfold app_ev; cbn [fst snd is_ok runt]; try (split; [reflexivity|discriminate]).
    split; [reflexivity|]. intros _. specialize (H2 eq_refl).
    cbn [asum]. rewrite !asum_app, H2. cbn [asum]. lia.
Qed.

Lemma seq_chunked sz n (c : prog val) : sz <= max_prealloc ->
  seq asum (chunked_items sz n c) (rep n (emit (HAlloc sz) ;;; c)).
Proof.
  intros Hsz. unfold chunked_items, one_chunk. cbv zeta.
  apply (chunked_is_rep_s asum asum_app eq_refl val c (emit (HAlloc sz) ;;; c)
           (fun k => emit (HAlloc (sat_mul k sz)) ;;; emit (HReal (sat_mul k sz)))).
  - now apply chunk_len_pos.
  - intros k Hk known bs. cbn [emit bindp runt]. unfold cons_ev. cbn [fst snd].
    rewrite (rep_rep_nat _ c k known bs).
    destruct (rep_nat_announce _ c sz (N.to_nat k) known bs) as [H1 H2]. cbn [emit bindp] in H1, H2.
    split; [now rewrite H1|].
    intros E. rewrite H2 by exact E. cbn [asum]. rewrite (sat_mul_chunk k sz Hsz Hk). lia.
Qed.

Lemma seq_atr A (p q : prog A) known bs a r :
  seq asum p q -> runo p known bs = OOk a r -> atr p known bs = atr q known bs.
Proof. intros H E. destruct (H known bs) as [_ H2]. apply H2. rewrite runt_fst, E. reflexivity. Qed.

Lemma seq_node sz c : seq asum (node sz c) c.
Proof.
  intros known bs. unfold node. rewrite runt_bind. destruct (runt c known bs) as [[v r|r| |] evs]; cbn [fst snd]; auto.
  cbn [emit bindp runt]. unfold cons_ev, app_ev. cbn [fst snd]. split; [reflexivity|]. intros _.
  rewrite asum_app. cbn [asum]. lia.
Qed.

(* ---------- the closed form ---------- *)
Definition suml (l : list N) : N := fold_right N.add 0 l.

Fixpoint ann (t : ty) (v : val) {struct t} : N :=
  match t, v with
  | TOption t', VSome v' => ann t' v'
  | TResult t' _, VOk v' => ann t' v'
  | TResult _ e, VErr v' => ann e v'
  | TColl k sz t', VSeq l =>
      let n := N.of_nat (length l) in
      match k with
      | CVec | CHeap => match t' with TPrim B => n * B | _ => n * sz + suml (map (ann t') l) end
      | CList => n * sz + suml (map (ann t') l)
      | CSet | CMap => btree_mem sz n + suml (map (ann t') l)
      end
  | TStr, VSeq l => N.of_nat (length l)
  | TArray _ t', VSeq l => suml (map (ann t') l)
  | TPair a b, VPair x y => ann a x + ann b y
  | TBox sz t', _ => sz + ann t' v
  | TBits B _, VBits l => (N.of_nat (length l) + 8 * B - 1) / (8 * B) * B
  | TEnum vs, VVar k v' => ann_vars vs k v'
  | _, _ => 0
  end
with ann_vars (vs : variants) (k : nat) (v : val) {struct vs} : N :=
  match vs, k with
  | VsNil, _ => 0
  | VsCons _ t _, O => ann t v
  | VsCons _ _ r, S k' => ann_vars r k' v
  end.

Lemma suml_shift (f : val -> N) sz l : suml (map (fun v => sz + f v) l) = N.of_nat (length l) * sz + suml (map f l).
Proof. induction l as [|a l IH]; cbn [map suml fold_right length]; [lia|]. fold (suml (map (fun v => sz + f v) l)). fold (suml (map f l)). rewrite IH. lia. Qed.

Lemma rep_sum (c : prog val) (f : val -> eres (list byte)) (g : val -> val) (dd : val -> N) known l :
  (forall v, In v l -> forall bs, f v = EOk bs -> forall rest,
     runo c known (bs ++ rest) = OOk (g v) rest /\ atr c known (bs ++ rest) = dd v) ->
  forall bs, econcat (map f l) = EOk bs ->
  forall rest, atr (rep (N.of_nat (length l)) c) known (bs ++ rest) = suml (map dd l).
Proof.
  intros Hc bs Hb rest. unfold atr. rewrite (rep_rep_nat _ c (N.of_nat (length l)) known (bs ++ rest)), Nat2N.id.
  change (atr (rep_nat (length l) c) known (bs ++ rest) = suml (map dd l)).
  revert Hc bs Hb rest.
  induction l as [|a l IH]; intros Hc bs Hb rest; cbn [map econcat] in Hb.
  - injection Hb as <-. reflexivity.
  - unfold ebind at 1 in Hb. destruct (f a) as [x| | |] eqn:Ea; try discriminate.
    unfold ebind in Hb. destruct (econcat (map f l)) as [y| | |] eqn:El; try discriminate.
    injection Hb as <-. cbn [length rep_nat map suml fold_right]. fold (suml (map dd l)). rewrite <- app_assoc.
    destruct (Hc a (or_introl eq_refl) x Ea (y ++ rest)) as [Ho Hs].
    rewrite (atr_bind_ok _ _ c _ known _ _ _ Ho), Hs. f_equal.
    specialize (IH (fun v Hv => Hc v (or_intror Hv)) y eq_refl rest).
    assert (Hr: exists items, runo (rep_nat (length l) c) known (y ++ rest) = OOk items rest).
    { pose proof (rep_rt c f g known l (fun v Hv bs0 Hbs rest0 => proj1 (Hc v (or_intror Hv) bs0 Hbs rest0)) y El rest) as H.
      rewrite runo_rep, Nat2N.id in H. eauto. }
    destruct Hr as [items Hr]. rewrite (atr_bind_ok _ _ (rep_nat (length l) c) _ known _ _ _ Hr), atr_ret, IH. lia.
Qed.

Definition AN (t : ty) : Prop :=
  forall v bs, wf t v = true -> enc spec_c t v = EOk bs ->
  forall known rest, atr (dec t) known (bs ++ rest) = ann t v.

Lemma an_items t l y known rest (pre : N) : RT t -> AN t -> forallb (wf t) l = true ->
  econcat (map (enc spec_c t) l) = EOk y ->
  atr (rep (N.of_nat (length l)) (emit (HAlloc pre) ;;; dec t)) known (y ++ rest)
  = N.of_nat (length l) * pre + suml (map (ann t) l).
Proof.
  intros Hrt Han Hl Hy. rewrite <- suml_shift.
  apply (rep_sum (emit (HAlloc pre) ;;; dec t) (enc spec_c t) (canon t) (fun v => pre + ann t v) known l); [|exact Hy].
  intros v Hv bs Hbs rest0. rewrite forallb_forall in Hl. rewrite runo_emit, atr_emit. cbn [asum].
  split; [apply Hrt; auto|]. rewrite (Han v bs (Hl v Hv) Hbs known rest0). lia.
Qed.
Lemma an_items0 t l y known rest (c : prog val) : RT t -> AN t -> forallb (wf t) l = true ->
  econcat (map (enc spec_c t) l) = EOk y -> seq asum c (dec t) ->
  atr (rep (N.of_nat (length l)) c) known (y ++ rest) = suml (map (ann t) l).
Proof.
  intros Hrt Han Hl Hy Hc.
  apply (rep_sum c (enc spec_c t) (canon t) (ann t) known l); [|exact Hy].
  intros v Hv bs Hbs rest0. rewrite forallb_forall in Hl.
  destruct (Hc known (bs ++ rest0)) as [H1 H2]. rewrite !runt_fst in H1.
  pose proof (Hrt v bs (Hl v Hv) Hbs known rest0) as Ho. split; [congruence|].
  unfold atr. rewrite H2 by (rewrite runt_fst, H1, Ho; reflexivity). apply (Han v bs (Hl v Hv) Hbs known rest0).
Qed.

Lemma ann_prim_zero B l : suml (map (ann (TPrim B)) l) = 0.
Proof. induction l as [|v l IH]; cbn [map suml fold_right]; [reflexivity|]. fold (suml (map (ann (TPrim B)) l)). rewrite IH. destruct v; reflexivity. Qed.

Lemma okB_small B : okB B = true -> B <= max_prealloc.
Proof.
  unfold okB, max_prealloc. intros H. repeat (apply orb_prop in H as [H|H]); try apply N.eqb_eq in H; subst; lia.
Qed.

Theorem ann_mut :
  (forall t, wf_ty t = true -> AN t) /\
  (forall vs, wf_vars_ty vs = true ->
     forall k v bs, idx_ok vs = true -> wf_vars vs k v = true -> enc_vars spec_c vs k v = EOk bs ->
     exists i pb, bs = byte_of i :: pb /\ i < 256 /\
       forall known rest k0, atr (dec_vars vs i k0) known (pb ++ rest) = ann_vars vs k v).
Proof.
  pose proof (proj1 roundtrip_mut) as RTall.
  apply ty_variants_ind; unfold AN; cbn [wf_ty wf_vars_ty].
  - (* TUnit *) intros _ v bs _ _ known rest. destruct v; reflexivity.
  - (* TBool *) intros _ v bs _ _ known rest. destruct v; cbn [ann]; apply noalloc_atr; cbn [dec]; na.
  - (* TPrim *) intros B _ v bs _ _ known rest. destruct v; cbn [ann]; apply noalloc_atr; cbn [dec]; (apply noalloc_bind; [apply noalloc_dec_prim|na]).
  - (* TCompact *) intros B _ v bs _ _ known rest. destruct v; cbn [ann]; apply noalloc_atr; cbn [dec]; (apply noalloc_bind; [apply noalloc_dec_compact|na]).
  - (* TNonZero *) intros B _ v bs _ _ known rest. destruct v; cbn [ann]; apply noalloc_atr; cbn [dec]; (apply noalloc_bind; [apply noalloc_dec_prim|na]).
  - (* TOption *) intros t IH Ht [ | | | |v'| | | | | | ] bs; cbn [wf enc dec ann]; try discriminate.
    + intros _ [= <-] known rest. cbn [app]. rewrite atr_read_byte. reflexivity.
    + intros Hv He known rest. apply eapp_ok in He as (x & y & [= <-] & Hy & ->). cbn [app].
      rewrite atr_read_byte. cbn [Byte.to_N].
      rewrite (atr_bind_ok _ _ (dec t) _ known _ _ _ (RTall t Ht v' y Hv Hy known rest)), atr_ret, N.add_0_r.
      now apply IH.
  - (* TResult *) intros t IHt e IHe H. apply andb_prop in H as [Ht He].
    intros [ | | | | |v'|v'| | | | ] bs; cbn [wf enc dec ann]; try discriminate; intros Hv Hx known rest;
      apply eapp_ok in Hx as (x & y & [= <-] & Hy & ->); cbn [app]; rewrite atr_read_byte; cbn [Byte.to_N].
    + rewrite (atr_bind_ok _ _ (dec t) _ known _ _ _ (RTall t Ht v' y Hv Hy known rest)), atr_ret, N.add_0_r. now apply IHt.
    + rewrite (atr_bind_ok _ _ (dec e) _ known _ _ _ (RTall e He v' y Hv Hy known rest)), atr_ret, N.add_0_r. now apply IHe.
  - (* TOptionBool *) intros _ v bs _ _ known rest. destruct v; cbn [ann]; apply noalloc_atr; cbn [dec]; na.
  - (* TColl *) intros k sz t IH H. apply andb_prop in H as [Ht Hsz]. apply N.leb_le in Hsz.
    intros v bs Hw He known rest.
    pose proof (RTall (TColl k sz t) ltac:(cbn [wf_ty]; rewrite Ht; cbn [andb]; now apply N.leb_le) v bs Hw He known rest) as Hwhole.
    destruct v as [ | | | | | | |l| | | ]; cbn [wf enc] in Hw, He; try discriminate.
    apply andb_prop in Hw as [Hw Hsorted]. apply andb_prop in Hw as [Hl Hn].
    apply eapp_ok in He as (x & y & Hx & Hy & ->). rewrite (enc_count_spec _ Hn) in Hx. injection Hx as <-.
    cbn [dec] in *. rewrite <- app_assoc in *.
    pose proof (rt_compact 4 _ known (y ++ rest) okwidth4 (u32_fits _ Hn)) as Hc.
    rewrite (atr_bind_ok _ _ (dec_compact 4) _ known _ _ _ Hc), (noalloc_atr _ _ known (noalloc_dec_compact 4)), N.add_0_l.
    rewrite runo_bind, Hc in Hwhole.
    pose proof (rt_items t l y known rest (RTall t Ht) Hl Hy) as Hrun.
    set (n := N.of_nat (length l)) in *.
    (* the wrapped element-wise body of Vec / BinaryHeap *)
    assert (Hgen: forall (fin : list val -> val),
              atr (items <- (emit HDescend ;;; l0 <- chunked_items sz n (dec t) ;; emit HAscend ;;; Ret l0) ;; Ret (fin items)) known (y ++ rest)
              = n * sz + suml (map (ann t) l)).
    { intros fin.
      assert (Hch: runo (chunked_items sz n (dec t)) known (y ++ rest) = OOk (map (canon t) l) rest)
        by (rewrite (chunked_items_is_rep sz _ (dec t) Hsz); exact Hrun).
      assert (Hinner: runo (emit HDescend ;;; l0 <- chunked_items sz n (dec t) ;; emit HAscend ;;; Ret l0) known (y ++ rest)
                      = OOk (map (canon t) l) rest).
      { rewrite runo_emit, runo_bind, Hch. reflexivity. }
      rewrite (atr_bind_ok _ _ _ _ known _ _ _ Hinner), atr_ret, N.add_0_r.
      rewrite atr_emit. cbn [asum]. rewrite N.add_0_l.
      rewrite (atr_bind_ok _ _ _ _ known _ _ _ Hch), atr_emit, atr_ret. cbn [asum]. rewrite !N.add_0_r.
      rewrite (seq_atr _ _ _ known _ _ _ (seq_chunked sz n (dec t) Hsz) Hch).
      apply (an_items t l y known rest sz (RTall t Ht) (IH Ht) Hl Hy). }
    assert (Hnodes: forall (a : N) (fin : list val -> val),
              atr (emit HDescend ;;; emit (HAlloc a) ;;; items <- rep n (node sz (dec t)) ;; emit HAscend ;;; Ret (fin items)) known (y ++ rest)
              = a + suml (map (ann t) l)).
    { intros a fin. rewrite !atr_emit. cbn [asum]. rewrite N.add_0_l, N.add_0_r. f_equal.
      assert (Hr: runo (rep n (node sz (dec t))) known (y ++ rest) = OOk (map (canon t) l) rest)
        by (rewrite (oeq_rep _ _ _ _ (oeq_node sz (dec t))); exact Hrun).
      rewrite (atr_bind_ok _ _ _ _ known _ _ _ Hr), atr_emit, atr_ret. cbn [asum]. rewrite !N.add_0_r.
      apply (an_items0 t l y known rest _ (RTall t Ht) (IH Ht) Hl Hy). apply seq_node. }
    cbn [ann]. fold n.
    assert (Hsat: sat_mul n sz = n * sz).
    { unfold sat_mul. apply N.min_r. apply N.leb_le in Hn. unfold u32max in Hn. unfold max_prealloc, usize_max, u64max in *. subst n. nia. }
    destruct k.
    + (* CVec *) destruct t; try (apply (Hgen (fun items => VSeq items))).
      rewrite runo_bind in Hwhole.
      destruct (runo (bs0 <- bulk_bytes B n ;; Ret (map VN (words B bs0))) known (y ++ rest)) as [a r| | |] eqn:E; try discriminate.
      rewrite (atr_bind_ok _ _ _ _ known _ _ _ E), atr_ret, N.add_0_r.
      apply bind_ok_inv in E as (bb & r' & E1 & E2).
      rewrite (atr_bind_ok _ _ _ _ known _ _ _ E1), atr_ret, N.add_0_r.
      apply (csum_bulk B n (okB_small B Ht) known _ _ _ E1).
    + (* CHeap *) destruct t; try (apply (Hgen (fun items => VSeq (sort_vals items)))).
      rewrite runo_bind in Hwhole.
      destruct (runo (bs0 <- bulk_bytes B n ;; Ret (map VN (words B bs0))) known (y ++ rest)) as [a r| | |] eqn:E; try discriminate.
      rewrite (atr_bind_ok _ _ _ _ known _ _ _ E), atr_ret, N.add_0_r.
      apply bind_ok_inv in E as (bb & r' & E1 & E2).
      rewrite (atr_bind_ok _ _ _ _ known _ _ _ E1), atr_ret, N.add_0_r.
      apply (csum_bulk B n (okB_small B Ht) known _ _ _ E1).
    + (* CList *) rewrite <- Hsat. apply Hnodes.
    + (* CSet *) apply Hnodes.
    + (* CMap *) apply Hnodes.
  - (* TStr *) intros _ v bs Hw He known rest.
    pose proof (RTall TStr eq_refl v bs Hw He known rest) as Hwhole.
    destruct v as [ | | | | | | |l| | | ]; cbn [wf enc] in Hw, He; try discriminate.
    apply andb_prop in Hw as [Hn Hu].
    destruct (bytes_of_vals l) as [bl|] eqn:Eb; [|discriminate].
    apply eapp_ok in He as (x & y & Hx & [= <-] & ->). rewrite (enc_count_spec _ Hn) in Hx. injection Hx as <-.
    cbn [dec ann] in *. rewrite <- app_assoc in *.
    pose proof (rt_compact 4 _ known (bl ++ rest) okwidth4 (u32_fits _ Hn)) as Hc.
    rewrite (atr_bind_ok _ _ _ _ known _ _ _ Hc), (noalloc_atr _ _ known (noalloc_dec_compact 4)), N.add_0_l.
    rewrite runo_bind, Hc in Hwhole.
    apply bind_ok_inv in Hwhole as (bb & r2 & E2 & Hwhole).
    rewrite (atr_bind_ok _ _ _ _ known _ _ _ E2).
    rewrite (csum_bulk 1 _ ltac:(unfold max_prealloc; lia) known _ _ _ E2).
    assert (Hz: atr (if utf8_valid bb then Ret (VSeq (map (fun b => VN (to_N b)) bb)) else Fail) known r2 = 0)
      by (destruct (utf8_valid bb); reflexivity).
    rewrite Hz. lia.
  - (* TArray *) intros n t IH Ht [ | | | | | | |l| | | ] bs; cbn [wf enc]; try discriminate.
    intros Hw He known rest. apply andb_prop in Hw as [Hl Hn]. rewrite Hn in He. apply N.eqb_eq in Hn. subst n.
    pose proof (rt_items t l bs known rest (RTall t Ht) Hl He) as Hrun.
    cbn [dec ann].
    assert (Hgen: atr (items <- rep (N.of_nat (length l)) (dec t) ;; Ret (VSeq items)) known (bs ++ rest) = suml (map (ann t) l)).
    { rewrite (atr_bind_ok _ _ _ _ known _ _ _ Hrun), atr_ret, N.add_0_r. apply (an_items0 t l bs known rest _ (RTall t Ht) (IH Ht) Hl He). apply seq_refl. }
    destruct t; try exact Hgen.
    rewrite ann_prim_zero. apply noalloc_atr. na.
  - (* TPair *) intros a IHa b IHb H. apply andb_prop in H as [Ha Hb'].
    intros [ | | | | | | | |x y| | ] bs; cbn [wf enc]; try discriminate.
    intros Hw He known rest. apply andb_prop in Hw as [Hx Hy]. apply eapp_ok in He as (bx & by' & Ex & Ey & ->).
    cbn [dec ann]. rewrite <- app_assoc.
    rewrite (atr_bind_ok _ _ (dec a) _ known _ _ _ (RTall a Ha x bx Hx Ex known (by' ++ rest))).
    rewrite (atr_bind_ok _ _ (dec b) _ known _ _ _ (RTall b Hb' y by' Hy Ey known rest)), atr_ret, N.add_0_r.
    f_equal; [now apply IHa|now apply IHb].
  - (* TBox *) intros sz t IH Ht v bs Hw He known rest. cbn [wf enc dec ann] in *.
    rewrite !atr_emit. cbn [asum]. rewrite N.add_0_l, !N.add_0_r. f_equal.
    rewrite (atr_bind_ok _ _ (dec t) _ known _ _ _ (RTall t Ht v bs Hw He known rest)), atr_emit, atr_ret. cbn [asum].
    rewrite !N.add_0_r. now apply IH.
  - (* TDuration *) intros _ v bs _ _ known rest. destruct v; cbn [ann]; apply noalloc_atr; cbn [dec]; na.
  - (* TBits *) intros B msb H v bs Hw He known rest.
    pose proof (RTall (TBits B msb) H v bs Hw He known rest) as Hwhole.
    destruct v as [ | | | | | | | | |l| ]; cbn [wf enc] in Hw, He; try discriminate.
    apply andb_prop in Hw as [Hw Hlen]. apply andb_prop in Hw as [HB HB8]. apply N.ltb_lt in Hlen.
    destruct (N.ltb_spec (2 ^ 29 - 1) (N.of_nat (length l))) as [Hbig|_]; [change (2 ^ 29) with 536870912 in *; lia|].
    apply eapp_ok in He as (x & y & Hx & [= <-] & ->). unfold spec_c in Hx. injection Hx as <-.
    cbn [dec ann] in *. rewrite <- app_assoc in *.
    assert (Hfit: N.of_nat (length l) < 2 ^ (8 * 4)) by (change (2 ^ (8 * 4)) with 4294967296; change (2 ^ 29) with 536870912 in Hlen; lia).
    pose proof (rt_compact 4 _ known (concat (map (fun c => le_enc (N.to_nat B) (word_of_chunk B msb c)) (chunks (N.to_nat (8 * B)) l)) ++ rest) okwidth4 Hfit) as Hc.
    rewrite (atr_bind_ok _ _ _ _ known _ _ _ Hc), (noalloc_atr _ _ known (noalloc_dec_compact 4)), N.add_0_l.
    rewrite runo_bind, Hc in Hwhole.
    destruct (N.ltb_spec (2 ^ 29 - 1) (N.of_nat (length l))) as [Hbig|_]; [change (2 ^ 29) with 536870912 in *; lia|].
    apply bind_ok_inv in Hwhole as (bb & r2 & E2 & Hwhole).
    rewrite (atr_bind_ok _ _ _ _ known _ _ _ E2).
    rewrite (csum_bulk B _ (okB_small B HB) known _ _ _ E2).
    cbv zeta. destruct (_ <? _); cbn [atr runt snd asum]; lia.
  - (* TEnum *) intros vs IH Hvs [ | | | | | | | | | |k v'] bs; cbn [wf enc]; try discriminate.
    intros Hw He known rest. apply andb_prop in Hw as [Hidx Hw].
    destruct (IH Hvs k v' bs Hidx Hw He) as (i & pb & -> & Hi & Hdec).
    cbn [dec app ann]. rewrite atr_read_byte.
    rewrite to_byte_of, N.mod_small by exact Hi. apply (Hdec known rest 0%nat).
  - (* VsNil *) intros _ k v bs _ H. discriminate.
  - (* VsCons *) intros idx t IHt vs IHvs H. apply andb_prop in H as [Ht Hvs].
    intros [|k] v bs Hidx Hw He; cbn [idx_ok wf_vars enc_vars ann_vars] in *.
    + apply andb_prop in Hidx as [Hidx _]. apply andb_prop in Hidx as [Hlt _]. rewrite Hlt in He.
      apply eapp_ok in He as (x & y & [= <-] & Hy & ->). apply N.ltb_lt in Hlt.
      exists idx, y. split; [reflexivity|split; [exact Hlt|]].
      intros known rest k0. cbn [dec_vars]. rewrite N.mod_small by exact Hlt. rewrite N.eqb_refl.
      rewrite (atr_bind_ok _ _ (dec t) _ known _ _ _ (RTall t Ht v y Hw Hy known rest)), atr_ret, N.add_0_r. now apply IHt.
    + apply andb_prop in Hidx as [Hidx Hrest]. apply andb_prop in Hidx as [Hlt Hnotin].
      destruct (IHvs Hvs k v bs Hrest Hw He) as (i & pb & -> & Hi & Hdec).
      destruct (proj2 roundtrip_mut vs Hvs k v (byte_of i :: pb) Hrest Hw He) as (i' & pb' & Heq & Hi' & Hin & _).
      injection Heq as Hbi Hpb. assert (i = i').
      { apply (f_equal Byte.to_N) in Hbi. rewrite !to_byte_of, !N.mod_small in Hbi by assumption. exact Hbi. }
      subst i'. exists i, pb. split; [reflexivity|split; [exact Hi|]].
      intros known rest k0. cbn [dec_vars]. apply N.ltb_lt in Hlt. rewrite N.mod_small by exact Hlt.
      destruct (N.eqb_spec i idx) as [->|Hne]; [rewrite Hin in Hnotin; discriminate|]. apply (Hdec known rest (S k0)).
Qed.

(* ---------- the theorems ---------- *)
Theorem announced_is_closed_form t v bs known rest :
  wf_ty t = true -> wf t v = true -> enc_spec t v = EOk bs ->
  asum (snd (runt (dec t) known (bs ++ rest))) = ann t v.
Proof. intros Ht Hw He. exact (proj1 ann_mut t Ht v bs Hw He known rest). Qed.

Theorem tracked_usage_is_closed_form t v bs known rest :
  wf_ty t = true -> wf t v = true -> enc_spec t v = EOk bs -> ann t v <= usize_max ->
  used_after 0 (snd (runt (dec t) known (bs ++ rest))) = ann t v.
Proof.
  intros Ht Hw He Hu. rewrite used_after_asum; rewrite (announced_is_closed_form t v bs known rest Ht Hw He); lia.
Qed.

(* memory-limited decoding of an encoding: the value when L exceeds the closed form, an error when
   the closed form is positive and L does not *)
Theorem mem_limit_on_encodings t v bs known rest L :
  wf_ty t = true -> wf t v = true -> enc_spec t v = EOk bs -> ann t v <= usize_max ->
  (ann t v < L -> exists u, run (memmon L) (dec t) known (bs ++ rest) 0 = ROk (canon t v) rest u) /\
  (0 < ann t v -> L <= ann t v -> exists u, run (memmon L) (dec t) known (bs ++ rest) 0 = RErr u).
Proof.
  intros Ht Hw He Hu.
  pose proof (mem_limit_threshold _ (dec t) known (bs ++ rest) L) as H.
  pose proof (tracked_usage_is_closed_form t v bs known rest Ht Hw He Hu) as HU.
  pose proof (roundtrip t v bs known rest Ht Hw He) as Hr. rewrite <- runt_fst in Hr.
  destruct (runt (dec t) known (bs ++ rest)) as [o evs]. cbn [fst snd] in *. subst o. cbv zeta in H.
  rewrite HU in H. destruct H as (H1 & H2 & H3). split.
  - intros HL. exact (H1 HL).
  - intros Hpos HL. apply H2; [apply H3; exact Hpos|exact HL].
Qed.

(* ---------- the closed form covers the heap payload ---------- *)
(* payload: what the decoded value holds on the heap, counted as the property does: elements times
   element size, list nodes, boxed sizes, string bytes, summed over the nesting; for maps and sets
   an entry is at most a leaf node divided by its 11 slots *)
Fixpoint payload (t : ty) (v : val) {struct t} : N :=
  match t, v with
  | TOption t', VSome v' => payload t' v'
  | TResult t' _, VOk v' => payload t' v'
  | TResult _ e, VErr v' => payload e v'
  | TColl k sz t', VSeq l =>
      let n := N.of_nat (length l) in
      match k with
      | CVec | CHeap => match t' with TPrim B => n * B | _ => n * sz + suml (map (payload t') l) end
      | CList => n * sz + suml (map (payload t') l)
      | CSet | CMap => n * (sz / 11) + suml (map (payload t') l)
      end
  | TStr, VSeq l => N.of_nat (length l)
  | TArray _ t', VSeq l => suml (map (payload t') l)
  | TPair a b, VPair x y => payload a x + payload b y
  | TBox sz t', _ => sz + payload t' v
  | TBits B _, VBits l => (N.of_nat (length l) + 8 * B - 1) / (8 * B) * B
  | TEnum vs, VVar k v' => payload_vars vs k v'
  | _, _ => 0
  end
with payload_vars (vs : variants) (k : nat) (v : val) {struct vs} : N :=
  match vs, k with
  | VsNil, _ => 0
  | VsCons _ t _, O => payload t v
  | VsCons _ _ r, S k' => payload_vars r k' v
  end.

Lemma suml_le2 (f g : val -> N) l : (forall v, In v l -> f v <= 2 * g v) -> suml (map f l) <= 2 * suml (map g l).
Proof.
  induction l as [|a l IH]; intros H; cbn [map suml fold_right]; [lia|].
  fold (suml (map f l)). fold (suml (map g l)).
  pose proof (H a (or_introl eq_refl)). specialize (IH (fun v Hv => H v (or_intror Hv))). lia.
Qed.

Lemma btree_half sz n : sz <= max_prealloc -> n <= u32max -> n * (sz / 11) <= 2 * btree_mem sz n.
Proof.
  intros Hsz Hn. unfold max_prealloc, u32max in *.
  pose proof (N.mul_div_le sz 11 ltac:(lia)) as Hd.
  unfold btree_mem.
  destruct (N.eqb_spec n 0) as [->|Hn0]; [lia|].
  pose proof (N.div_mod n 10 ltac:(lia)) as Hdm. pose proof (N.mod_lt n 10 ltac:(lia)) as Hm'.
  destruct (N.eqb_spec (n / 10) 0) as [E|E].
  - assert (n <= 9) by lia. nia.
  - set (q := n / 10) in *. assert (H19: n <= 19 * q) by lia.
    assert (H3: q * (sz + 96) <= 4294967296 * 17000) by (apply N.mul_le_mono; lia).
    unfold sat_mul, usize_max, u64max. rewrite N.min_r by lia. nia.
Qed.

Theorem payload_within_twice_announced :
  (forall t, wf_ty t = true -> forall v, wf t v = true -> payload t v <= 2 * ann t v) /\
  (forall vs, wf_vars_ty vs = true -> forall k v, wf_vars vs k v = true -> payload_vars vs k v <= 2 * ann_vars vs k v).
Proof.
  apply ty_variants_ind; cbn [wf_ty wf_vars_ty].
  - intros _ v _. destruct v; cbn; lia.
  - intros _ v _. destruct v; cbn; lia.
  - intros B _ v _. destruct v; cbn; lia.
  - intros B _ v _. destruct v; cbn; lia.
  - intros B _ v _. destruct v; cbn; lia.
  - intros t IH Ht v Hw. destruct v; cbn [payload ann wf] in *; try lia. now apply IH.
  - intros t IHt e IHe H v Hw. apply andb_prop in H as [Ht He]. destruct v; cbn [payload ann wf] in *; try lia; [now apply IHt|now apply IHe].
  - intros _ v _. destruct v; cbn; lia.
  - intros k sz t IH H v Hw. apply andb_prop in H as [Ht Hsz]. apply N.leb_le in Hsz.
    destruct v as [ | | | | | | |l| | | ]; cbn [payload ann]; try lia. cbn [wf] in Hw.
    apply andb_prop in Hw as [Hw _]. apply andb_prop in Hw as [Hl Hn]. apply N.leb_le in Hn.
    rewrite forallb_forall in Hl.
    pose proof (suml_le2 (payload t) (ann t) l (fun v Hv => IH Ht v (Hl v Hv))) as Hs.
    pose proof (btree_half sz (N.of_nat (length l)) Hsz Hn) as Hbt.
    destruct k; try lia; destruct t; lia.
  - intros _ v _. destruct v; cbn; lia.
  - intros n t IH Ht v Hw. destruct v as [ | | | | | | |l| | | ]; cbn [payload ann]; try lia. cbn [wf] in Hw.
    apply andb_prop in Hw as [Hl _]. rewrite forallb_forall in Hl.
    apply (suml_le2 (payload t) (ann t) l (fun v Hv => IH Ht v (Hl v Hv))).
  - intros a IHa b IHb H v Hw. apply andb_prop in H as [Ha Hb]. destruct v; cbn [payload ann wf] in *; try lia.
    apply andb_prop in Hw as [Hx Hy]. specialize (IHa Ha _ Hx). specialize (IHb Hb _ Hy). lia.
  - intros sz t IH Ht v Hw. cbn [payload ann wf] in *. specialize (IH Ht v Hw). lia.
  - intros _ v _. destruct v; cbn; lia.
  - intros B msb _ v _. destruct v; cbn [payload ann]; lia.
  - intros vs IH Hvs v Hw. destruct v; cbn [payload ann wf] in *; try lia. apply andb_prop in Hw as [_ Hw]. now apply IH.
  - intros _ k v Hw. cbn in *. lia.
  - intros idx t IHt vs IHvs H k v Hw. apply andb_prop in H as [Ht Hvs]. destruct k; cbn [payload_vars ann_vars wf_vars] in *; [now apply IHt|now apply IHvs].
Qed.
