(* C15: append_or_new_impl of src/encode_append.rs.  Items are abstract: n items whose
   encodings concatenate to p (so the theorems hold for any item type, alias form and
   zero-sized items). *)
Require Import Scale.Bytes Scale.Eres Scale.Prog Scale.ProgFacts Scale.ProgMore Scale.CompactImpl
  Scale.CompactSpec Scale.CompactProofs Scale.CompactTheorems.

Inductive ares := AOk (bs : list byte) | AErr | APanic.

(* `vec[..k].copy_from_slice(src)` : panics unless src has length k *)
Definition overwrite (k : N) (src vec : list byte) : option (list byte) :=
  if (N.of_nat (length src) =? k) && (k <=? N.of_nat (length vec))
  then Some (src ++ skipn (N.to_nat k) vec) else None.

Definition append (vec : list byte) (n : N) (p : list byte) : ares :=
  match vec with
  | [] =>
      (* compact_encode_len_to(&mut vec, items_to_append)? *)
      if u32max <? n then AErr
      else match enc_compact 4 n with EOk c => AOk (c ++ p) | _ => APanic end
  | _ =>
      match runo (dec_compact 4) true vec with
      | OOk old _ =>
          (* u32::try_from(items_to_append).ok().and_then(|n| old.checked_add(n)) *)
          if u32max <? n then AErr
          else let new := old + n in
               if u32max <? new then AErr
               else
                 let ol := len_compact 4 old in
                 let nl := len_compact 4 new in
                 match enc_compact 4 new with
                 | EOk c =>
                     if ol =? nl then
                       match overwrite ol c vec with Some v' => AOk (v' ++ p) | None => APanic end
                     else AOk (c ++ skipn (N.to_nat ol) vec ++ p)
                 | _ => APanic
                 end
      | OErr _ => AErr
      | _ => APanic
      end
  end.

Lemma lt32 c : c <= u32max -> c < 2 ^ (8 * 4).
Proof. unfold u32max. change (2 ^ (8 * 4)) with 4294967296. lia. Qed.

Lemma spec_compact_nonempty v : spec_compact v <> [].
Proof.
  unfold spec_compact. destruct (v <? 2 ^ 6); [discriminate|]. destruct (v <? 2 ^ 14); [discriminate|].
  destruct (v <? 2 ^ 30); discriminate.
Qed.

Theorem append_spec c n body p : c + n <= u32max ->
  append (spec_compact c ++ body) n p = AOk (spec_compact (c + n) ++ body ++ p).
Proof.
  intros H. unfold append.
  destruct (spec_compact c ++ body) as [|b0 r0] eqn:E.
  { exfalso. apply app_eq_nil in E as [E _]. now apply spec_compact_nonempty in E. }
  rewrite <- E.
  assert (Hd: runo (dec_compact 4) true (spec_compact c ++ body) = OOk c body).
  { apply oview_ok. apply compact_dec_iff; [unfold okwidth; auto|]. split; [apply lt32; lia|reflexivity]. }
  rewrite Hd. destruct (N.ltb_spec u32max n); [lia|]. cbv zeta.
  destruct (N.ltb_spec u32max (c + n)); [lia|].
  rewrite enc_compact_spec by (unfold okwidth; auto || apply lt32; lia).
  rewrite !len_compact_spec by (unfold okwidth; auto || apply lt32; lia).
  assert (Hsk: skipn (length (spec_compact c)) (spec_compact c ++ body) = body).
  { rewrite skipn_app, Nat.sub_diag, skipn_all. reflexivity. }
  destruct (N.eqb_spec (N.of_nat (length (spec_compact c))) (N.of_nat (length (spec_compact (c + n))))) as [El|El].
  - unfold overwrite. rewrite N.eqb_sym. rewrite (proj2 (N.eqb_eq _ _) El). rewrite app_length.
    destruct (N.leb_spec (N.of_nat (length (spec_compact c))) (N.of_nat (length (spec_compact c) + length body))); [|lia].
    cbn [andb]. rewrite Nat2N.id, Hsk. now rewrite <- app_assoc.
  - rewrite Nat2N.id, Hsk. reflexivity.
Qed.

Theorem append_new n p :
  append [] n p = if n <=? u32max then AOk (spec_compact n ++ p) else AErr.
Proof.
  unfold append. destruct (N.ltb_spec u32max n); destruct (N.leb_spec n u32max); try lia; [reflexivity|].
  rewrite enc_compact_spec by (unfold okwidth; auto || apply lt32; lia). reflexivity.
Qed.

(* the combined count cannot be represented: an error, never a wrong count *)
Theorem append_overflow_err c n body p : c <= u32max -> u32max < c + n ->
  append (spec_compact c ++ body) n p = AErr.
Proof.
  intros Hc H. unfold append.
  destruct (spec_compact c ++ body) as [|b0 r0] eqn:E.
  { exfalso. apply app_eq_nil in E as [E _]. now apply spec_compact_nonempty in E. }
  rewrite <- E.
  assert (Hd: runo (dec_compact 4) true (spec_compact c ++ body) = OOk c body).
  { apply oview_ok. apply compact_dec_iff; [unfold okwidth; auto|]. split; [apply lt32; lia|reflexivity]. }
  rewrite Hd. destruct (N.ltb_spec u32max n); [reflexivity|]. cbv zeta.
  destruct (N.ltb_spec u32max (c + n)); [reflexivity|lia].
Qed.

(* input that does not begin with a valid count is rejected *)
Theorem append_bad_prefix_err vec n p : vec <> [] ->
  (forall c body, c <= u32max -> vec <> spec_compact c ++ body) -> append vec n p = AErr.
Proof.
  intros Hne Hbad. unfold append. destruct vec as [|b0 r0]; [contradiction|].
  pose proof (compact_dec_no_panic 4 true (b0 :: r0) ltac:(unfold okwidth; auto)) as [Hp Hf].
  destruct (runo (dec_compact 4) true (b0 :: r0)) as [old rest|r| |] eqn:Ed; try contradiction; [|reflexivity].
  exfalso. assert (Hv: oview (runo (dec_compact 4) true (b0 :: r0)) = OOk old rest) by (now rewrite Ed).
  apply compact_dec_iff in Hv as [Hlt Heq]; [|unfold okwidth; auto].
  apply (Hbad old rest); [|exact Heq]. change (2 ^ (8 * 4)) with 4294967296 in Hlt. unfold u32max. lia.
Qed.

Theorem append_no_panic vec n p : append vec n p <> APanic.
Proof.
  unfold append. destruct vec as [|b0 r0].
  - destruct (N.ltb_spec u32max n); [discriminate|].
    rewrite enc_compact_spec by (unfold okwidth; auto || apply lt32; lia). discriminate.
  - pose proof (compact_dec_no_panic 4 true (b0 :: r0) ltac:(unfold okwidth; auto)) as [Hp Hf].
    destruct (runo (dec_compact 4) true (b0 :: r0)) as [old rest|r| |] eqn:Ed; try contradiction; [|discriminate].
    assert (Hv: oview (runo (dec_compact 4) true (b0 :: r0)) = OOk old rest) by (now rewrite Ed).
    apply compact_dec_iff in Hv as [Hlt Heq]; [|unfold okwidth; auto].
    destruct (N.ltb_spec u32max n); [discriminate|]. cbv zeta.
    destruct (N.ltb_spec u32max (old + n)); [discriminate|].
    pose proof (append_spec old n rest p ltac:(lia)) as Hs. unfold append in Hs. rewrite <- Heq in Hs.
    rewrite Ed in Hs. destruct (N.ltb_spec u32max n); [lia|]. cbv zeta in Hs.
    destruct (N.ltb_spec u32max (old + n)); [lia|]. rewrite Hs. discriminate.
Qed.

(* any history of appends from the empty input is the encoding of the concatenation *)
Fixpoint append_history (acc : ares) (ops : list (N * list byte)) : ares :=
  match ops with
  | [] => acc
  | (n, p) :: r => match acc with AOk v => append_history (append v n p) r | e => e end
  end.

Definition total (ops : list (N * list byte)) : N := fold_right (fun o s => fst o + s) 0 ops.
Definition payload (ops : list (N * list byte)) : list byte := concat (map snd ops).

Theorem append_history_spec ops : forall c body, c + total ops <= u32max ->
  append_history (AOk (spec_compact c ++ body)) ops = AOk (spec_compact (c + total ops) ++ body ++ payload ops).
Proof.
  induction ops as [|[n p] r IH]; intros c body H.
  - cbn. now rewrite N.add_0_r, app_nil_r.
  - change (total ((n, p) :: r)) with (n + total r) in *. change (payload ((n, p) :: r)) with (p ++ payload r).
    cbn [append_history]. rewrite append_spec by lia. rewrite IH by lia.
    rewrite <- !app_assoc. replace (c + n + total r) with (c + (n + total r)) by lia. reflexivity.
Qed.

Theorem append_history_from_empty n p ops : n + total ops <= u32max ->
  append_history (append [] n p) ops = AOk (spec_compact (n + total ops) ++ p ++ payload ops).
Proof.
  intros H. rewrite append_new. destruct (N.leb_spec n u32max); [|lia]. now apply append_history_spec.
Qed.
