(* Bit sequences: packing bits into store words and back (the pure part of the BitVec codec). *)
Require Import Scale.Bytes Scale.Eres Scale.Prog Scale.CompactImpl Scale.CompactSpec Scale.Utf8 Scale.Codec.

Lemma N_to_bits_of_bits l : N_to_bits (length l) (bits_to_N l) = l.
Proof.
  induction l as [|b l IH]; cbn [length N_to_bits bits_to_N]; [reflexivity|].
  f_equal.
  - destruct b.
    + rewrite N.odd_add_mul_2. reflexivity.
    + rewrite N.odd_add_mul_2. reflexivity.
  - replace (((if b then 1 else 0) + 2 * bits_to_N l) / 2) with (bits_to_N l); [exact IH|].
    destruct b.
    + apply N.div_unique with (r := 1); lia.
    + apply N.div_unique with (r := 0); lia.
Qed.

Lemma bits_to_N_lt l : bits_to_N l < 2 ^ N.of_nat (length l).
Proof.
  induction l as [|b l IH]; cbn [length bits_to_N]; [cbn; lia|].
  rewrite Nat2N.inj_succ, N.pow_succ_r'. destruct b; lia.
Qed.

Lemma pad_to_len n (l : list bool) : (length l <= n)%nat -> length (pad_to n l) = n.
Proof. intros H. unfold pad_to. rewrite app_length, repeat_length. lia. Qed.

Lemma chunk_word_rt B msb c : (length c <= N.to_nat (8 * B))%nat ->
  chunk_of_word B msb (word_of_chunk B msb c) = pad_to (N.to_nat (8 * B)) c.
Proof.
  intros H. unfold chunk_of_word, word_of_chunk. cbv zeta.
  pose proof (pad_to_len _ c H) as Hl. destruct msb.
  - rewrite <- (rev_length (pad_to _ c)) in Hl. rewrite <- Hl at 1. rewrite N_to_bits_of_bits. apply rev_involutive.
  - rewrite <- Hl at 1. apply N_to_bits_of_bits.
Qed.

Lemma word_lt B msb c : (length c <= N.to_nat (8 * B))%nat -> word_of_chunk B msb c < 2 ^ (8 * B).
Proof.
  intros H. unfold word_of_chunk. cbv zeta. pose proof (pad_to_len _ c H) as Hl.
  destruct msb.
  - pose proof (bits_to_N_lt (rev (pad_to (N.to_nat (8 * B)) c))) as Hlt. rewrite rev_length, Hl, N2Nat.id in Hlt. exact Hlt.
  - pose proof (bits_to_N_lt (pad_to (N.to_nat (8 * B)) c)) as Hlt. rewrite Hl, N2Nat.id in Hlt. exact Hlt.
Qed.

Lemma chunks_fuel_spec (n : nat) : (0 < n)%nat -> forall f (l : list bool), (length l <= f)%nat ->
  (exists k, concat (map (pad_to n) (chunks_fuel f n l)) = l ++ repeat false k) /\
  Forall (fun c => (length c <= n)%nat) (chunks_fuel f n l) /\
  N.of_nat (length (chunks_fuel f n l)) = (N.of_nat (length l) + N.of_nat n - 1) / N.of_nat n.
Proof.
  intros Hn. induction f as [|f IH]; intros l Hl.
  - destruct l; [|cbn in Hl; lia]. cbn. repeat split; [exists 0%nat; reflexivity|constructor|].
    symmetry. apply N.div_small. lia.
  - destruct l as [|b l']; cbn [chunks_fuel].
    + cbn. repeat split; [exists 0%nat; reflexivity|constructor|]. symmetry. apply N.div_small. lia.
    + set (l := b :: l') in *.
      assert (Hsk: (length (skipn n l) <= f)%nat) by (rewrite skipn_length; subst l; cbn [length] in *; lia).
      destruct (IH (skipn n l) Hsk) as ((k & Hc) & Hall & Hcnt).
      destruct (Nat.le_gt_cases n (length l)) as [Hge|Hlt].
      * (* a full chunk *)
        assert (Hfl: length (firstn n l) = n) by (rewrite firstn_length; lia).
        split; [|split].
        -- exists k. cbn [map concat]. unfold pad_to at 1. rewrite Hfl, Nat.sub_diag. cbn [repeat]. rewrite app_nil_r, Hc, app_assoc, firstn_skipn. reflexivity.
        -- constructor; [lia|exact Hall].
        -- cbn [length]. rewrite Nat2N.inj_succ, Hcnt, skipn_length.
           replace (N.of_nat (length l) + N.of_nat n - 1) with ((N.of_nat (length l - n) + N.of_nat n - 1) + 1 * N.of_nat n) by lia.
           rewrite N.div_add by lia. lia.
      * (* the last, partial chunk *)
        assert (Hf: firstn n l = l) by (apply firstn_all2; lia).
        assert (Hs: skipn n l = []) by (apply skipn_all2; lia).
        rewrite Hf, Hs. assert (Hnil: chunks_fuel f n (@nil bool) = []) by (destruct f; reflexivity). rewrite Hnil.
        split; [|split].
        -- exists (n - length l)%nat. cbn [map concat]. rewrite app_nil_r. reflexivity.
        -- constructor; [lia|constructor].
        -- cbn [length]. change (N.of_nat 1) with 1. apply N.div_unique with (r := N.of_nat (length l) - 1); subst l; cbn [length] in *; lia.
Qed.

(* the padded chunks of l are l followed by padding; their number is ceil(|l| / n) *)
Lemma chunks_spec (n : nat) (l : list bool) : (0 < n)%nat ->
  (exists k, concat (map (pad_to n) (chunks n l)) = l ++ repeat false k) /\
  Forall (fun c => (length c <= n)%nat) (chunks n l) /\
  N.of_nat (length (chunks n l)) = (N.of_nat (length l) + N.of_nat n - 1) / N.of_nat n.
Proof. intros Hn. apply chunks_fuel_spec; auto. Qed.
