(* The three input wrappers as monitors: what a decode through them returns, for
   EVERY decoder program (hence every type), derived from [run_runt]. *)
Require Import Scale.Bytes Scale.Prog Scale.ProgFacts.

(* ---------- any monitor: a limited decode is the unlimited one or an error ---------- *)
Theorem run_transparent (m : monitor) A (p : prog A) known bs (s : mst m) :
  match run m p known bs s with
  | ROk v rest _ => runo p known bs = OOk v rest
  | RErr _ => True
  | RPanic => runo p known bs = OPanic
  | RNoFuel => runo p known bs = ONoFuel
  end.
Proof.
  rewrite run_runt, <- runt_fst. destruct (runt p known bs) as [o evs]. cbn [fst].
  destruct (feed m s evs) as [s' [|]]; [|exact I]. destruct o; cbn [lift_out]; auto.
Qed.

Theorem run_err_of_err (m : monitor) A (p : prog A) known bs (s : mst m) r :
  runo p known bs = OErr r -> exists s', run m p known bs s = RErr s'.
Proof.
  rewrite run_runt, <- runt_fst. destruct (runt p known bs) as [o evs]. cbn [fst]. intros ->.
  destruct (feed m s evs) as [s' [|]]; cbn [lift_out]; eauto.
Qed.

(* a monitor that accepts the whole trace does not change the outcome *)
Theorem run_accepting (m : monitor) A (p : prog A) known bs (s s' : mst m) :
  feed m s (snd (runt p known bs)) = (s', true) ->
  run m p known bs s = lift_out (runo p known bs) s'.
Proof.
  intros H. rewrite run_runt, <- runt_fst. destruct (runt p known bs) as [o evs]. cbn [fst snd] in *.
  now rewrite H.
Qed.

(* ---------- CountedInput ---------- *)
Theorem counted_feed evs : forall c, c <= u64max ->
  feed counted c evs = (N.min u64max (c + sum_reads evs), true).
Proof.
  induction evs as [|e r IH]; intros c Hc; cbn [feed sum_reads].
  - f_equal. lia.
  - destruct e as [n|h]; cbn [mstep counted].
    + rewrite IH by (unfold sat_add; lia). unfold sat_add. f_equal. lia.
    + now apply IH.
Qed.

(* the count after a decode, successful or not, is the number of bytes the wrapped
   input delivered (saturating at u64::MAX, never wrapping); on failure [rest] is
   what the wrapped input still holds at the failure point *)
Theorem counted_exact A (p : prog A) known bs :
  match run counted p known bs 0, runo p known bs with
  | ROk v rest c, OOk v' rest' =>
      v = v' /\ rest = rest' /\ c = N.min u64max (N.of_nat (length bs) - N.of_nat (length rest))
  | RErr c, OErr rest => c = N.min u64max (N.of_nat (length bs) - N.of_nat (length rest))
  | RPanic, OPanic => True
  | RNoFuel, ONoFuel => True
  | _, _ => False
  end.
Proof.
  rewrite run_runt, <- runt_fst. pose proof (reads_account A p known bs) as Hacc.
  destruct (runt p known bs) as [o evs]. cbn [fst].
  rewrite counted_feed by (unfold u64max; lia).
  destruct o as [v rest|rest| |]; cbn [lift_out]; auto.
  - repeat split; auto. f_equal. lia.
  - f_equal. lia.
Qed.

(* ---------- depth limit ---------- *)
(* the deepest nesting the trace reaches, starting at depth d *)
Fixpoint max_depth (d : N) (evs : list event) : N :=
  match evs with
  | [] => d
  | EHook HDescend :: r => N.max (d + 1) (max_depth (d + 1) r)
  | EHook HAscend :: r => N.max d (max_depth (d - 1) r)
  | _ :: r => max_depth d r
  end.

Lemma max_depth_ge d evs : d <= max_depth d evs.
Proof.
  revert d; induction evs as [|e r IH]; intros d; cbn [max_depth]; [lia|].
  destruct e as [n|[| |n|n]]; try apply IH; lia.
Qed.

(* the depth wrapper accepts a trace iff its deepest nesting stays within the limit *)
Theorem depth_feed_iff L evs : forall d, d <= L ->
  snd (feed (depthmon L) d evs) = (max_depth d evs <=? L).
Proof.
  induction evs as [|e r IH]; intros d Hd; cbn [feed max_depth].
  - cbn [snd]. symmetry. now apply N.leb_le.
  - destruct e as [n|[| |n|n]]; cbn [mstep depthmon].
    + now apply IH.
    + destruct (N.leb_spec (d + 1) L) as [H|H].
      * rewrite IH by exact H. pose proof (max_depth_ge (d + 1) r).
        destruct (N.leb_spec (max_depth (d + 1) r) L); destruct (N.leb_spec (N.max (d + 1) (max_depth (d + 1) r)) L); try reflexivity; lia.
      * cbn [snd]. symmetry. apply N.leb_gt. lia.
    + rewrite IH by lia. pose proof (max_depth_ge (d - 1) r).
      destruct (N.leb_spec (max_depth (d - 1) r) L); destruct (N.leb_spec (N.max d (max_depth (d - 1) r)) L); try reflexivity; lia.
    + now apply IH.
    + now apply IH.
Qed.

(* exact characterisation, for every program: with limit L the decode returns what the
   unlimited decode returns if the nesting of its trace is at most L, and an error otherwise *)
Theorem depth_limit_exact A (p : prog A) known bs L :
  let '(o, evs) := runt p known bs in
  if max_depth 0 evs <=? L
  then exists d, run (depthmon L) p known bs 0 = lift_out o d
  else exists d, run (depthmon L) p known bs 0 = RErr d.
Proof.
  rewrite run_runt. destruct (runt p known bs) as [o evs].
  pose proof (depth_feed_iff L evs 0 ltac:(lia)) as H.
  destruct (feed (depthmon L) 0 evs) as [d ok]. cbn [snd] in H. rewrite <- H.
  destruct ok; eauto.
Qed.

Corollary depth_limit_monotone A (p : prog A) known bs L L' v rest d :
  L <= L' -> run (depthmon L) p known bs 0 = ROk v rest d ->
  exists d', run (depthmon L') p known bs 0 = ROk v rest d'.
Proof.
  intros HL H. pose proof (depth_limit_exact A p known bs L) as E.
  pose proof (depth_limit_exact A p known bs L') as E'.
  destruct (runt p known bs) as [o evs].
  destruct (N.leb_spec (max_depth 0 evs) L) as [Hm|Hm].
  - destruct E as [d0 E]. rewrite E in H.
    destruct (N.leb_spec (max_depth 0 evs) L'); [|lia].
    destruct E' as [d' E']. rewrite E'. destruct o; cbn [lift_out] in *; try discriminate.
    inversion H; subst. eauto.
  - destruct E as [d0 E]. rewrite E in H. discriminate.
Qed.

(* ---------- memory limit ---------- *)
Fixpoint used_after (u : N) (evs : list event) : N :=
  match evs with
  | [] => u
  | EHook (HAlloc n) :: r => used_after (sat_add usize_max u n) r
  | _ :: r => used_after u r
  end.
Fixpoint has_alloc (evs : list event) : bool :=
  match evs with
  | [] => false
  | EHook (HAlloc _) :: _ => true
  | _ :: r => has_alloc r
  end.

Lemma used_after_ge u evs : u <= usize_max -> u <= used_after u evs.
Proof.
  revert u; induction evs as [|e r IH]; intros u Hu; cbn [used_after]; [lia|].
  destruct e as [n|[| |n|n]]; try (apply IH; exact Hu).
  unfold sat_add. etransitivity; [|apply IH]; lia.
Qed.

(* the memory wrapper accepts a trace iff the tracked usage stays below the limit
   (it compares after adding: used >= limit fails) *)
Theorem mem_feed_iff L evs : forall u, u <= usize_max ->
  snd (feed (memmon L) u evs) = negb (has_alloc evs) || (used_after u evs <? L).
Proof.
  induction evs as [|e r IH]; intros u Hu; cbn [feed has_alloc used_after]; [reflexivity|].
  destruct e as [n|[| |n|n]]; cbn [mstep memmon]; try (now apply IH).
  cbn [negb orb].
  set (u' := sat_add usize_max u n). assert (Hu': u' <= usize_max) by (unfold u', sat_add; lia).
  pose proof (used_after_ge u' r Hu') as Hge.
  destruct (N.leb_spec L u') as [H|H]; cbn [negb].
  - cbn [snd]. symmetry. apply N.ltb_ge. lia.
  - rewrite IH by exact Hu'.
    destruct (has_alloc r) eqn:Eh; cbn [negb orb]; [reflexivity|].
    (* no further allocation: usage stays u' *)
    symmetry. apply N.ltb_lt.
    assert (E: forall evs u0, has_alloc evs = false -> used_after u0 evs = u0).
    { clear. induction evs as [|e r IH]; intros u0 Hh; [reflexivity|].
      destruct e as [n|[| |n|n]]; cbn [has_alloc used_after] in *; try discriminate; now apply IH. }
    rewrite E by exact Eh. exact H.
Qed.

(* the threshold: U = tracked usage of the input.  Limits above U are transparent;
   if U > 0 (or any allocation was announced) limits up to U fail *)
Theorem mem_limit_threshold A (p : prog A) known bs L :
  let '(o, evs) := runt p known bs in
  let U := used_after 0 evs in
  (U < L -> exists u, run (memmon L) p known bs 0 = lift_out o u) /\
  (has_alloc evs = true -> L <= U -> exists u, run (memmon L) p known bs 0 = RErr u) /\
  (0 < U -> has_alloc evs = true).
Proof.
  rewrite run_runt. destruct (runt p known bs) as [o evs]. cbv zeta.
  pose proof (mem_feed_iff L evs 0 ltac:(unfold usize_max, u64max; lia)) as H.
  destruct (feed (memmon L) 0 evs) as [u ok]. cbn [snd] in H.
  assert (E: forall evs u0, has_alloc evs = false -> used_after u0 evs = u0).
  { clear. induction evs as [|e r IH]; intros u0 Hh; [reflexivity|].
    destruct e as [n|[| |n|n]]; cbn [has_alloc used_after] in *; try discriminate; now apply IH. }
  split; [|split].
  - intros HU. assert (Hok: ok = true).
    { rewrite H. apply orb_true_iff. right. now apply N.ltb_lt. }
    exists u. now rewrite Hok.
  - intros Ha HU. assert (Hok: ok = false).
    { rewrite H, Ha. cbn [negb orb]. apply N.ltb_ge. exact HU. }
    exists u. now rewrite Hok.
  - intros HU. destruct (has_alloc evs) eqn:Eh; [reflexivity|]. exfalso.
    rewrite E in HU by exact Eh. lia.
Qed.

(* what the unlimited wrapper reports is U *)
Theorem mem_used_is_U A (p : prog A) known bs :
  let '(o, evs) := runt p known bs in
  used_after 0 evs < usize_max ->
  run (memmon usize_max) p known bs 0 = lift_out o (used_after 0 evs).
Proof.
  rewrite run_runt. destruct (runt p known bs) as [o evs]. intros HU.
  assert (G: forall evs u, u <= usize_max -> used_after u evs < usize_max ->
             feed (memmon usize_max) u evs = (used_after u evs, true)).
  { clear. induction evs as [|e r IH]; intros u Hu H; cbn [feed used_after] in *; [reflexivity|].
    destruct e as [n|[| |n|n]]; cbn [mstep memmon]; try (now apply IH).
    set (u' := sat_add usize_max u n) in *. assert (Hu': u' <= usize_max) by (unfold u', sat_add; lia).
    pose proof (used_after_ge u' r Hu').
    destruct (N.leb_spec usize_max u'); [lia|]. cbn [negb]. now apply IH. }
  rewrite G; [reflexivity|unfold usize_max, u64max; lia|exact HU].
Qed.

(* ---------- stacks: an outer wrapper around an inner one ---------- *)
Lemma feed_mstack (i o : monitor) evs : forall (si : mst i) (so : mst o),
  snd (feed (mstack i o) (si, so) evs) = true ->
  snd (feed i si evs) = true /\ snd (feed o so evs) = true.
Proof.
  induction evs as [|e r IH]; intros si so; cbn [feed]; [auto|].
  cbn [mstep mstack fst snd].
  destruct (mstep i e si) as [si' [|]].
  - destruct (mstep o e so) as [so' [|]]; cbn [snd]; [apply IH|discriminate].
  - cbn [snd]. discriminate.
Qed.

Lemma feed_mstack_accepts (i o : monitor) evs : forall (si : mst i) (so : mst o),
  snd (feed i si evs) = true -> snd (feed o so evs) = true ->
  snd (feed (mstack i o) (si, so) evs) = true.
Proof.
  induction evs as [|e r IH]; intros si so; cbn [feed]; [auto|].
  cbn [mstep mstack fst snd].
  destruct (mstep i e si) as [si' [|]]; [|cbn [snd]; discriminate].
  destruct (mstep o e so) as [so' [|]]; [|cbn [snd]; intros _; discriminate].
  apply IH.
Qed.

(* any stack of wrappers whose limits the trace does not reach is invisible *)
Theorem nonbinding_stack_transparent (m : monitor) A (p : prog A) known bs (s : mst m) :
  snd (feed m s (snd (runt p known bs))) = true ->
  exists s', run m p known bs s = lift_out (runo p known bs) s'.
Proof.
  intros H. destruct (feed m s (snd (runt p known bs))) as [s' ok] eqn:E. cbn [snd] in H. subst ok.
  exists s'. now apply run_accepting.
Qed.
