(* C09: heap reservations made while decoding (HReal events) are bounded by a linear function
   of the number of input bytes read, plus a fixed allowance - never by a claimed count.
   [abound s f r w p]: on every input, the reservations of p are at most r * (bytes read) + s
   when p succeeds (and then it has read at least w bytes) and at most r * (bytes read) + f
   when it fails. *)
Require Import Scale.Bytes Scale.Prog Scale.ProgFacts Scale.ProgMore.

Fixpoint real_sum (evs : list event) : N :=
  match evs with
  | [] => 0
  | EHook (HReal n) :: r => n + real_sum r
  | _ :: r => real_sum r
  end.

Lemma real_sum_app a b : real_sum (a ++ b) = real_sum a + real_sum b.
Proof. induction a as [|e a IH]; cbn [app real_sum]; [lia|]. destruct e as [n|[| |n|n]]; lia. Qed.
Lemma sum_reads_app a b : sum_reads (a ++ b) = sum_reads a + sum_reads b.
Proof. induction a as [|e a IH]; cbn [app sum_reads]; [lia|]. destruct e as [n|h]; lia. Qed.

Definition abound {A} (s f r w : N) (p : prog A) : Prop :=
  forall known bs,
    match runt p known bs with
    | (OOk _ _, evs) => real_sum evs <= r * sum_reads evs + s /\ w <= sum_reads evs
    | (OErr _, evs) => real_sum evs <= r * sum_reads evs + f
    | (_, _) => True
    end.

Lemma abound_weaken A (p : prog A) s f r w s' f' r' w' :
  s <= s' -> f <= f' -> r <= r' -> w' <= w -> abound s f r w p -> abound s' f' r' w' p.
Proof.
  intros Hs Hf Hr Hw H known bs. specialize (H known bs).
  destruct (runt p known bs) as [[a rest|rest| |] evs]; auto.
  - destruct H as [H1 H2]. split; [|lia]. nia.
  - nia.
Qed.

Lemma abound_ret A (a : A) : abound 0 0 0 0 (Ret a).
Proof. intros known bs. cbn. lia. Qed.
Lemma abound_fail A : abound 0 0 0 0 (@Fail A).
Proof. intros known bs. cbn. lia. Qed.
Lemma abound_crash A : abound 0 0 0 0 (@Crash A).
Proof. intros known bs. exact I. Qed.

Lemma abound_read n : abound 0 0 0 n (read n).
Proof. intros known bs. cbn [read runt]. destruct (avail n bs); cbn [cons_ev fst snd real_sum sum_reads]; lia. Qed.
Lemma abound_read_byte : abound 0 0 0 1 read_byte.
Proof. intros known bs. cbn [read_byte runt]. destruct bs; cbn [cons_ev fst snd real_sum sum_reads]; lia. Qed.
Lemma abound_need n : abound 0 0 0 0 (need n).
Proof. intros known bs. cbn [need runt]. destruct (known && negb (avail n bs)); cbn; lia. Qed.
Lemma abound_emit h : abound (match h with HReal n => n | _ => 0 end) 0 0 0 (emit h).
Proof. intros known bs. cbn [emit runt cons_ev fst snd]. destruct h; cbn [real_sum sum_reads]; lia. Qed.

Lemma abound_bind A B (p : prog A) (g : A -> prog B) s1 f1 r1 w1 s2 f2 r2 w2 :
  abound s1 f1 r1 w1 p -> (forall a, abound s2 f2 r2 w2 (g a)) ->
  abound (s1 + s2) (N.max f1 (s1 + f2)) (N.max r1 r2) (w1 + w2) (bindp p g).
Proof.
  intros Hp Hg known bs. rewrite runt_bind. specialize (Hp known bs).
  destruct (runt p known bs) as [[a rest|rest| |] evs1]; auto.
  - destruct Hp as [H1 W1]. specialize (Hg a known rest). unfold app_ev.
    destruct (runt (g a) known rest) as [[b rest'|rest'| |] evs2]; cbn [fst snd]; auto;
      rewrite real_sum_app, sum_reads_app.
    + destruct Hg as [H2 W2]. split; [nia|lia].
    + nia.
  - nia.
Qed.

(* a fixed number of repetitions: the allowance is paid per repetition *)
Lemma abound_rep_static A (c : prog A) s f r w : abound s f r w c ->
  forall n, abound (N.of_nat n * s) (N.of_nat n * N.max s f) r (N.of_nat n * w) (rep_nat n c).
Proof.
  intros Hc. induction n as [|n IH]; cbn [rep_nat].
  - eapply abound_weaken; [| | | |apply abound_ret]; lia.
  - eapply abound_weaken; [| | | |eapply abound_bind; [exact Hc|intros a; eapply abound_bind; [exact IH|intros l; apply abound_ret]]]; nia.
Qed.

(* a data-dependent number of repetitions of an element that reads at least one byte when it
   succeeds: what a completed element reserved beyond r*read is charged to the byte it read *)
Lemma abound_rep_dyn A (c : prog A) s f r w : 1 <= w -> abound s f r w c ->
  forall n, abound 0 f (r + s) (N.of_nat n * w) (rep_nat n c).
Proof.
  intros Hw Hc. induction n as [|n IH]; cbn [rep_nat].
  - eapply abound_weaken; [| | | |apply abound_ret]; lia.
  - intros known bs. rewrite runt_bind. specialize (Hc known bs).
    destruct (runt c known bs) as [[a rest|rest| |] evs1]; auto.
    + destruct Hc as [H1 W1]. rewrite runt_bind. specialize (IH known rest). unfold app_ev.
      destruct (runt (rep_nat n c) known rest) as [[l rest'|rest'| |] evs2]; cbn [fst snd runt]; auto;
        rewrite ?app_nil_r, real_sum_app, sum_reads_app.
      * destruct IH as [H2 W2]. split; [nia|lia].
      * nia.
    + nia.
Qed.

Lemma abound_peq A (p q : prog A) s f r w : peq p q -> abound s f r w q -> abound s f r w p.
Proof. intros H Hq known bs. rewrite (H known bs). apply Hq. Qed.

Lemma abound_rep_dyn_N A (c : prog A) s f r w n : 1 <= w -> abound s f r w c -> abound 0 f (r + s) (n * w) (rep n c).
Proof.
  intros Hw Hc. eapply abound_peq; [apply rep_rep_nat|].
  pose proof (abound_rep_dyn A c s f r w Hw Hc (N.to_nat n)) as H. now rewrite N2Nat.id in H.
Qed.
Lemma abound_rep_static_N A (c : prog A) s f r w n : abound s f r w c ->
  abound (n * s) (n * N.max s f) r (n * w) (rep n c).
Proof.
  intros Hc. eapply abound_peq; [apply rep_rep_nat|].
  pose proof (abound_rep_static A c s f r w Hc (N.to_nat n)) as H. now rewrite N2Nat.id in H.
Qed.

(* programs that make no reservation at all *)
Fixpoint noreal {A} (p : prog A) : Prop :=
  match p with
  | Emit (HReal _) _ => False
  | Emit _ k => noreal k
  | Read _ k => forall bs, noreal (k bs)
  | ReadByte k => forall b, noreal (k b)
  | Need _ k => noreal k
  | _ => True
  end.

Lemma noreal_bind A B (p : prog A) (g : A -> prog B) : noreal p -> (forall a, noreal (g a)) -> noreal (bindp p g).
Proof.
  intros Hp Hg. induction p as [a| | | |n k IH|k IH|nd k IH|h k IH]; cbn [noreal bindp] in *; auto.
  destruct h; auto.
Qed.

Lemma noreal_rep_nat A (c : prog A) n : noreal c -> noreal (rep_nat n c).
Proof.
  intros Hc. induction n as [|n IH]; cbn [rep_nat noreal]; auto.
  apply noreal_bind; [exact Hc|]. intros a. apply noreal_bind; [exact IH|]. intros l. exact I.
Qed.

Lemma noreal_abound A (p : prog A) : noreal p -> abound 0 0 0 0 p.
Proof.
  induction p as [a| | | |n k IH|k IH|nd k IH|h k IH]; intros Hp known bs; cbn [runt noreal] in *; try (cbn; lia); auto.
  - destruct (avail n bs); [|cbn; lia].
    specialize (IH (firstn (N.to_nat n) bs) (Hp (firstn (N.to_nat n) bs)) known (skipn (N.to_nat n) bs)). unfold cons_ev.
    destruct (runt (k (firstn (N.to_nat n) bs)) known (skipn (N.to_nat n) bs)) as [[a r|r| |] evs]; cbn [fst snd real_sum sum_reads]; auto; lia.
  - destruct bs as [|b r0]; [cbn; lia|]. specialize (IH b (Hp b) known r0). unfold cons_ev.
    destruct (runt (k b) known r0) as [[a r|r| |] evs]; cbn [fst snd real_sum sum_reads]; auto; lia.
  - destruct (known && negb (avail nd bs)); [cbn; lia|]. now apply IH.
  - destruct h; try contradiction; specialize (IH Hp known bs); unfold cons_ev;
      destruct (runt k known bs) as [[a r|r| |] evs]; cbn [fst snd real_sum sum_reads]; auto.
Qed.

(* what is read never exceeds the input *)
Lemma reads_le_input A (p : prog A) known bs : sum_reads (snd (runt p known bs)) <= N.of_nat (length bs) \/
  (match fst (runt p known bs) with OPanic | ONoFuel => True | _ => False end).
Proof.
  pose proof (reads_account A p known bs) as H. destruct (runt p known bs) as [[a r|r| |] evs]; cbn [fst snd]; auto; left; lia.
Qed.
