(* The codec universe: a deep embedding of the types the crate ships or derives
   (ty), their values (val), the encoder (enc_gen, parametrised by the compact
   integer encoder so that the implementation model and the specification share
   one definition) and the decoder as a program over the Input operations (dec),
   following src/codec.rs, src/compact.rs, src/bit_vec.rs and the code emitted
   by derive/src/{encode,decode}.rs.

   Conventions of the descriptor the harness emits:
     - integers/floats of B bytes: TPrim B, value VN (raw little-endian bits);
     - tuples, structs and enum payloads: right-nested TPair ending in TUnit
       (fields marked skip are absent; compact / encoded_as fields carry the
       type they are encoded as);
     - Box/Rc/Arc: TBox (size_of T);  &T, &mut T, Cow: the type itself;
     - Vec/VecDeque/Bytes: TColl CVec (size_of T); BinaryHeap: CHeap;
       LinkedList: CList (size_of (usize,usize,T)); BTreeSet: CSet (leaf node
       size); BTreeMap<K,V>: CMap (leaf node size) over TPair K (TPair V TUnit)...
       (the element type of a map is the 2-tuple (K,V): TPair K (TPair V TUnit));
     - String: TStr; Duration: TDuration; Range/RangeInclusive<T>: TPair T (TPair T TUnit);
     - BitVec/BitBox<T,O>: TBits (bytes of T) (O = Msb0);
     - enums: TEnum with one (index, payload type) per non-skipped variant. *)
Require Import Scale.Bytes Scale.Eres Scale.Prog Scale.CompactImpl Scale.CompactSpec Scale.Utf8.

Inductive ckind := CVec | CHeap | CList | CSet | CMap.

Inductive ty :=
| TUnit | TBool
| TPrim (B : N) | TCompact (B : N) | TNonZero (B : N)
| TOption (t : ty) | TResult (t e : ty) | TOptionBool
| TColl (k : ckind) (sz : N) (t : ty)
| TStr
| TArray (n : N) (t : ty)
| TPair (a b : ty)
| TBox (sz : N) (t : ty)
| TDuration
| TBits (B : N) (msb : bool)
| TEnum (vs : variants)
with variants := VsNil | VsCons (idx : N) (t : ty) (vs : variants).

Inductive val :=
| VUnit | VBool (b : bool) | VN (n : N)
| VNone | VSome (v : val) | VOk (v : val) | VErr (v : val)
| VSeq (l : list val) | VPair (a b : val) | VBits (l : list bool)
| VVar (k : nat) (v : val).

(* ------------------------------------------------------------------ *)
(* structural order on values = Rust's derived Ord on the key types the
   registry uses (unsigned integers, bool, Option, tuples, sequences, strings) *)
Fixpoint val_cmp (a b : val) : comparison :=
  match a, b with
  | VUnit, VUnit => Eq
  | VBool x, VBool y => Bool.compare x y
  | VN x, VN y => N.compare x y
  | VNone, VNone => Eq
  | VNone, VSome _ => Lt
  | VSome _, VNone => Gt
  | VSome x, VSome y => val_cmp x y
  | VOk x, VOk y => val_cmp x y
  | VOk _, VErr _ => Lt
  | VErr _, VOk _ => Gt
  | VErr x, VErr y => val_cmp x y
  | VPair a1 b1, VPair a2 b2 =>
      match val_cmp a1 a2 with Eq => val_cmp b1 b2 | c => c end
  | VSeq l1, VSeq l2 =>
      (fix lex (l1 l2 : list val) : comparison :=
         match l1, l2 with
         | [], [] => Eq
         | [], _ :: _ => Lt
         | _ :: _, [] => Gt
         | x :: r1, y :: r2 => match val_cmp x y with Eq => lex r1 r2 | c => c end
         end) l1 l2
  | VVar k1 x, VVar k2 y =>
      match Nat.compare k1 k2 with Eq => val_cmp x y | c => c end
  | _, _ => Eq
  end.

Definition key_of (keyed : bool) (v : val) : val :=
  if keyed then match v with VPair k _ => k | _ => v end else v.

(* BTreeMap/BTreeSet::from_iter: sorted by key, a later equal key replaces an earlier one *)
Fixpoint set_insert (keyed : bool) (x : val) (l : list val) : list val :=
  match l with
  | [] => [x]
  | y :: r => match val_cmp (key_of keyed y) (key_of keyed x) with
              | Lt => y :: set_insert keyed x r
              | Eq => x :: r
              | Gt => x :: y :: r
              end
  end.
Definition canon_set (keyed : bool) (items : list val) : list val :=
  fold_left (fun acc x => set_insert keyed x acc) items [].

(* BinaryHeap: a multiset; canonical form = ascending (stable insertion sort) *)
Fixpoint sort_insert (x : val) (l : list val) : list val :=
  match l with
  | [] => [x]
  | y :: r => match val_cmp x y with
              | Lt => x :: y :: r
              | _ => y :: sort_insert x r
              end
  end.
Definition sort_vals (items : list val) : list val := fold_right sort_insert [] items.

(* each key strictly below all later ones *)
Fixpoint strictly_sorted (keyed : bool) (l : list val) : bool :=
  match l with
  | [] => true
  | x :: r => forallb (fun y => match val_cmp (key_of keyed x) (key_of keyed y) with Lt => true | _ => false end) r
              && strictly_sorted keyed r
  end.

(* ------------------------------------------------------------------ *)
(* bit sequences: W = 8*B bits per store word *)
Fixpoint bits_to_N (l : list bool) : N :=      (* Lsb0: first bit = bit 0 *)
  match l with [] => 0 | b :: r => (if b then 1 else 0) + 2 * bits_to_N r end.

Fixpoint N_to_bits (n : nat) (v : N) : list bool :=
  match n with O => [] | S n' => N.odd v :: N_to_bits n' (v / 2) end.

Definition pad_to (n : nat) (l : list bool) : list bool := l ++ repeat false (n - length l).

(* the word a chunk of at most W bits is stored in *)
Definition word_of_chunk (B : N) (msb : bool) (chunk : list bool) : N :=
  let W := N.to_nat (8 * B) in
  if msb then bits_to_N (rev (pad_to W chunk)) else bits_to_N (pad_to W chunk).
Definition chunk_of_word (B : N) (msb : bool) (w : N) : list bool :=
  let W := N.to_nat (8 * B) in
  if msb then rev (N_to_bits W w) else N_to_bits W w.

Fixpoint chunks_fuel {A} (fuel : nat) (n : nat) (l : list A) : list (list A) :=
  match fuel with
  | O => []
  | S f => match l with [] => [] | _ => firstn n l :: chunks_fuel f n (skipn n l) end
  end.
Definition chunks {A} (n : nat) (l : list A) : list (list A) := chunks_fuel (length l) n l.

(* the value a successful decode of [enc t v] yields: heaps come back sorted *)
Fixpoint canon (t : ty) (v : val) {struct t} : val :=
  match t, v with
  | TOption t', VSome v' => VSome (canon t' v')
  | TResult t' _, VOk v' => VOk (canon t' v')
  | TResult _ e, VErr v' => VErr (canon e v')
  | TColl k _ t', VSeq l =>
      let l' := map (canon t') l in
      VSeq (match k with CHeap => sort_vals l' | _ => l' end)
  | TArray _ t', VSeq l => VSeq (map (canon t') l)
  | TPair a b, VPair x y => VPair (canon a x) (canon b y)
  | TBox _ t', _ => canon t' v
  | TEnum vs, VVar k v' => VVar k (canon_vars vs k v')
  | _, _ => v
  end
with canon_vars (vs : variants) (k : nat) (v : val) {struct vs} : val :=
  match vs, k with
  | VsNil, _ => v
  | VsCons _ t _, O => canon t v
  | VsCons _ _ r, S k' => canon_vars r k' v
  end.

(* ------------------------------------------------------------------ *)
(* well-formed values of a type (what rustc's type checker and the containers'
   invariants guarantee) *)
Definition okB (B : N) : bool := (B =? 1) || (B =? 2) || (B =? 4) || (B =? 8) || (B =? 16).
Definition is_byte (v : val) : option byte :=
  match v with VN n => if n <? 256 then Some (byte_of n) else None | _ => None end.
Fixpoint bytes_of_vals (l : list val) : option (list byte) :=
  match l with
  | [] => Some []
  | v :: r => match is_byte v, bytes_of_vals r with Some b, Some bs => Some (b :: bs) | _, _ => None end
  end.
Definition a_billion : N := 1000000000.

Fixpoint idx_in (i : N) (vs : variants) : bool :=
  match vs with VsNil => false | VsCons j _ r => (i =? j) || idx_in i r end.
Fixpoint idx_ok (vs : variants) : bool :=
  match vs with VsNil => true | VsCons i _ r => (i <? 256) && negb (idx_in i r) && idx_ok r end.

Fixpoint wf (t : ty) (v : val) {struct t} : bool :=
  match t, v with
  | TUnit, VUnit => true
  | TBool, VBool _ => true
  | TPrim B, VN n => okB B && (n <? 2 ^ (8 * B))
  | TCompact B, VN n => okB B && (n <? 2 ^ (8 * B))
  | TNonZero B, VN n => okB B && (0 <? n) && (n <? 2 ^ (8 * B))
  | TOption _, VNone => true
  | TOption t', VSome v' => wf t' v'
  | TResult t' _, VOk v' => wf t' v'
  | TResult _ e, VErr v' => wf e v'
  | TOptionBool, VNone => true
  | TOptionBool, VSome (VBool _) => true
  | TColl k sz t', VSeq l =>
      forallb (wf t') l && (N.of_nat (length l) <=? u32max) &&
      match k with
      | CSet => strictly_sorted false (map (canon t') l)
      | CMap => strictly_sorted true (map (canon t') l)
      | _ => true
      end
  | TStr, VSeq l =>
      (N.of_nat (length l) <=? u32max) &&
      match bytes_of_vals l with Some bs => utf8_valid bs | None => false end
  | TArray n t', VSeq l => forallb (wf t') l && (N.of_nat (length l) =? n)
  | TPair a b, VPair x y => wf a x && wf b y
  | TBox _ t', _ => wf t' v
  | TDuration, VPair (VN s) (VPair (VN n) VUnit) => (s <? 2 ^ 64) && (n <? a_billion)
  | TBits B _, VBits l => okB B && (B <=? 8) && (N.of_nat (length l) <? 2 ^ 29)
  | TEnum vs, VVar k v' => idx_ok vs && wf_vars vs k v'
  | _, _ => false
  end
with wf_vars (vs : variants) (k : nat) (v : val) {struct vs} : bool :=
  match vs, k with
  | VsNil, _ => false
  | VsCons _ t _, O => wf t v
  | VsCons _ _ r, S k' => wf_vars r k' v
  end.

(* ------------------------------------------------------------------ *)
(* the encoder; [cenc B n] is the compact encoder for a B-byte unsigned integer *)
Definition eapp (a b : eres (list byte)) : eres (list byte) :=
    ebind a (fun x => ebind b (fun y => EOk (x ++ y))).

  (* compact_encode_len_to(dest, len).expect("Compact encodes length") *)
Definition enc_count (cenc : N -> N -> eres (list byte)) (n : nat) : eres (list byte) :=
    if u32max <? N.of_nat n then EPanic else cenc 4 (N.of_nat n).

Fixpoint enc (cenc : N -> N -> eres (list byte)) (t : ty) (v : val) {struct t} : eres (list byte) :=
    match t, v with
    | TUnit, VUnit => EOk []
    | TBool, VBool b => EOk [if b then x01 else x00]
    | TPrim B, VN n => if n <? 2 ^ (8 * B) then EOk (le_enc (N.to_nat B) n) else EIll
    | TCompact B, VN n => if n <? 2 ^ (8 * B) then cenc B n else EIll
    | TNonZero B, VN n => if (0 <? n) && (n <? 2 ^ (8 * B)) then EOk (le_enc (N.to_nat B) n) else EIll
    | TOption _, VNone => EOk [x00]
    | TOption t', VSome v' => eapp (EOk [x01]) (enc cenc t' v')
    | TResult t' _, VOk v' => eapp (EOk [x00]) (enc cenc t' v')
    | TResult _ e, VErr v' => eapp (EOk [x01]) (enc cenc e v')
    | TOptionBool, VNone => EOk [x00]
    | TOptionBool, VSome (VBool true) => EOk [x01]
    | TOptionBool, VSome (VBool false) => EOk [x02]
    | TColl _ _ t', VSeq l => eapp (enc_count cenc (length l)) (econcat (map (enc cenc t') l))
    | TStr, VSeq l =>
        match bytes_of_vals l with
        | Some bs => eapp (enc_count cenc (length l)) (EOk bs)
        | None => EIll
        end
    | TArray n t', VSeq l => if N.of_nat (length l) =? n then econcat (map (enc cenc t') l) else EIll
    | TPair a b, VPair x y => eapp (enc cenc a x) (enc cenc b y)
    | TBox _ t', _ => enc cenc t' v
    | TDuration, VPair (VN s) (VPair (VN n) VUnit) =>
        if (s <? 2 ^ 64) && (n <? 2 ^ 32) then EOk (le_enc 8 s ++ le_enc 4 n) else EIll
    | TBits B msb, VBits l =>
        (* assert!(bits <= ARCH32BIT_BITSLICE_MAX_BITS) *)
        if 2 ^ 29 - 1 <? N.of_nat (length l) then EPanic
        else eapp (cenc 4 (N.of_nat (length l)))
                  (EOk (concat (map (fun c => le_enc (N.to_nat B) (word_of_chunk B msb c))
                                    (chunks (N.to_nat (8 * B)) l))))
    | TEnum vs, VVar k v' => enc_vars cenc vs k v'
    | _, _ => EIll
    end
with enc_vars (cenc : N -> N -> eres (list byte)) (vs : variants) (k : nat) (v : val) {struct vs} : eres (list byte) :=
    match vs, k with
    | VsNil, _ => EIll
    | VsCons i t _, O => if i <? 256 then eapp (EOk [byte_of i]) (enc cenc t v) else EIll
    | VsCons _ _ r, S k' => enc_vars cenc r k' v
    end.

(* the implementation: per-width compact code of src/compact.rs *)
Definition enc_impl : ty -> val -> eres (list byte) := enc enc_compact.
(* the specification: canonical shortest compact form *)
Definition enc_spec : ty -> val -> eres (list byte) := enc (fun _ n => EOk (spec_compact n)).

(* ------------------------------------------------------------------ *)
(* the decoder *)
Definition max_prealloc : N := 16384.
Definition chunk_len (esz : N) : N := if esz =? 0 then usize_max else max_prealloc / esz.
Definition sat_mul (a b : N) : N := N.min usize_max (a * b).

(* mem_size_of_btree::<T>(len) with leaf = size_of::<(usize,u16,u16,[T;11])>() *)
Definition btree_mem (leaf : N) (len : N) : N :=
  if len =? 0 then 0
  else let nn := len / 10 in
       if nn =? 0 then leaf else sat_mul nn (leaf + 96).

(* decode_vec_chunked over element decoder c: full chunks then the remainder,
   each preceded by on_before_alloc_mem(chunk_len * size_of::<T>()) *)
Definition one_chunk (esz k : N) (c : prog val) : prog (list val) :=
  emit (HAlloc (sat_mul k esz)) ;;; emit (HReal (sat_mul k esz)) ;;; rep k c.
Definition chunked_items (esz n : N) (c : prog val) : prog (list val) :=
  let cl := chunk_len esz in
  full <- (if n / cl =? 0 then Ret [] else rep (n / cl) (one_chunk esz cl c)) ;;
  (if n mod cl =? 0 then Ret (concat full)
   else last <- one_chunk esz (n mod cl) c ;; Ret (concat full ++ last)).

(* read_vec_from_u8s: the bulk path for primitive elements of B bytes *)
Definition one_bulk (B k : N) : prog (list byte) :=
  emit (HAlloc (sat_mul k B)) ;;; emit (HReal (sat_mul k B)) ;;; read (k * B).
Definition bulk_bytes (B n : N) : prog (list byte) :=
  need (n * B) ;;;
  let cl := chunk_len B in
  full <- (if n / cl =? 0 then Ret [] else rep (n / cl) (one_bulk B cl)) ;;
  (if n mod cl =? 0 then Ret (concat full)
   else last <- one_bulk B (n mod cl) ;; Ret (concat full ++ last)).

Fixpoint words_fuel (fuel : nat) (B : nat) (bs : list byte) : list N :=
  match fuel with
  | O => []
  | S f => match bs with [] => [] | _ => le_dec (firstn B bs) :: words_fuel f B (skipn B bs) end
  end.
Definition words (B : N) (bs : list byte) : list N := words_fuel (length bs) (N.to_nat B) bs.

Definition dec_prim (B : N) : prog N :=
  if B =? 1 then (b <- read_byte ;; Ret (Byte.to_N b)) else (bs <- read B ;; Ret (le_dec bs)).

(* LinkedList / BTreeMap / BTreeSet: the container allocates as elements arrive (a list node
   per element; for the trees at most one node of `sz` bytes per element - an upper envelope of
   the node-by-node growth), after the element has been decoded *)
Definition node (sz : N) (c : prog val) : prog val := v <- c ;; emit (HReal sz) ;;; Ret v.

Definition is_keyed (k : ckind) : bool := match k with CMap => true | _ => false end.

Fixpoint dec (t : ty) : prog val :=
  match t with
  | TUnit => Ret VUnit
  | TBool =>
      b <- read_byte ;;
      (match Byte.to_N b with 0 => Ret (VBool false) | 1 => Ret (VBool true) | _ => Fail end)
  | TPrim B => n <- dec_prim B ;; Ret (VN n)
  | TCompact B => n <- dec_compact B ;; Ret (VN n)
  | TNonZero B => n <- dec_prim B ;; (if n =? 0 then Fail else Ret (VN n))
  | TOption t' =>
      b <- read_byte ;;
      (match Byte.to_N b with
       | 0 => Ret VNone
       | 1 => v <- dec t' ;; Ret (VSome v)
       | _ => Fail
       end)
  | TResult t' e =>
      b <- read_byte ;;
      (match Byte.to_N b with
       | 0 => v <- dec t' ;; Ret (VOk v)
       | 1 => v <- dec e ;; Ret (VErr v)
       | _ => Fail
       end)
  | TOptionBool =>
      b <- read_byte ;;
      (match Byte.to_N b with
       | 0 => Ret VNone
       | 1 => Ret (VSome (VBool true))
       | 2 => Ret (VSome (VBool false))
       | _ => Fail
       end)
  | TColl k sz t' =>
      n <- dec_compact 4 ;;
      (match k with
       | CVec | CHeap =>
           items <- (match t' with
                     | TPrim B => bs <- bulk_bytes B n ;; Ret (map VN (words B bs))
                     | _ => emit HDescend ;;; l <- chunked_items sz n (dec t') ;;
                            emit HAscend ;;; Ret l
                     end) ;;
           Ret (VSeq (match k with CHeap => sort_vals items | _ => items end))
       | CList =>
           emit HDescend ;;; emit (HAlloc (sat_mul n sz)) ;;;
           items <- rep n (node sz (dec t')) ;; emit HAscend ;;; Ret (VSeq items)
       | CSet | CMap =>
           emit HDescend ;;; emit (HAlloc (btree_mem sz n)) ;;;
           items <- rep n (node sz (dec t')) ;; emit HAscend ;;; Ret (VSeq (canon_set (is_keyed k) items))
       end)
  | TStr =>
      n <- dec_compact 4 ;; bs <- bulk_bytes 1 n ;;
      (if utf8_valid bs then Ret (VSeq (map (fun b => VN (Byte.to_N b)) bs)) else Fail)
  | TArray n t' =>
      (match t' with
       | TPrim B => bs <- read (n * B) ;; Ret (VSeq (map VN (words B bs)))
       | _ => items <- rep n (dec t') ;; Ret (VSeq items)
       end)
  | TPair a b => x <- dec a ;; y <- dec b ;; Ret (VPair x y)
  | TBox sz t' =>
      emit HDescend ;;; emit (HAlloc sz) ;;; emit (HReal sz) ;;; v <- dec t' ;; emit HAscend ;;; Ret v
  | TDuration =>
      s <- read 8 ;; n <- read 4 ;;
      (if a_billion <=? le_dec n then Fail
       else Ret (VPair (VN (le_dec s)) (VPair (VN (le_dec n)) VUnit)))
  | TBits B msb =>
      bits <- dec_compact 4 ;;
      (if 2 ^ 29 - 1 <? bits then Fail
       else bs <- bulk_bytes B ((bits + 8 * B - 1) / (8 * B)) ;;
            let all := concat (map (chunk_of_word B msb) (words B bs)) in
            (* assert!(bits <= result.len()) *)
            if N.of_nat (length all) <? bits then Crash
            else Ret (VBits (firstn (N.to_nat bits) all)))
  | TEnum vs => b <- read_byte ;; dec_vars vs (Byte.to_N b) 0
  end
with dec_vars (vs : variants) (b : N) (k : nat) : prog val :=
  match vs with
  | VsNil => Fail
  | VsCons i t r =>
      (* `x if x == (#index) as u8` : first matching arm *)
      if b =? i mod 256 then v <- dec t ;; Ret (VVar k v) else dec_vars r b (S k)
  end.

