(* Decoder theorems over the whole universe: totality / panic-freedom (C03),
   independence of the known-length flag (C08), round trip (C02). *)
Require Import Scale.Bytes Scale.Eres Scale.Prog Scale.ProgFacts Scale.ProgMore Scale.Chunks Scale.CompactImpl
  Scale.CompactSpec Scale.CompactProofs Scale.CompactTheorems Scale.Utf8 Scale.Codec Scale.CodecEnc.

(* well-formed descriptors: integer widths the language has; element sizes the
   const assertion in decode_vec_chunked admits *)
Fixpoint wf_ty (t : ty) : bool :=
  match t with
  | TUnit | TBool | TOptionBool | TStr | TDuration => true
  | TPrim B | TCompact B | TNonZero B => okB B
  | TOption t' => wf_ty t'
  | TResult a b => wf_ty a && wf_ty b
  | TColl _ sz t' => wf_ty t' && (sz <=? max_prealloc)
  | TArray _ t' => wf_ty t'
  | TPair a b => wf_ty a && wf_ty b
  | TBox _ t' => wf_ty t'
  | TBits B _ => okB B && (B <=? 8)
  | TEnum vs => wf_vars_ty vs
  end
with wf_vars_ty (vs : variants) : bool :=
  match vs with
  | VsNil => true
  | VsCons _ t r => wf_ty t && wf_vars_ty r
  end.

Definition T {A} : A -> Prop := fun _ => True.

Lemma okP_dec_compact B : okwidth B -> okP T (dec_compact B).
Proof.
  intros HB known bs. destruct (compact_dec_no_panic B known bs HB) as [H1 H2].
  destruct (runo (dec_compact B) known bs); unfold T; auto.
Qed.

Lemma okP_dec_prim B : okP T (dec_prim B).
Proof.
  unfold dec_prim. destruct (B =? 1).
  - eapply okP_bind; [apply okP_read_byte|]. intros b _. now apply okP_ret.
  - eapply okP_bind; [apply okP_read|]. intros b _. now apply okP_ret.
Qed.

Lemma okP_node sz c : okP T c -> okP T (node sz c).
Proof.
  intros Hc. unfold node. eapply okP_bind; [exact Hc|]. intros v _.
  eapply okP_bind; [apply okP_emit|]. intros _ _. now apply okP_ret.
Qed.

Lemma okB_pos B : okB B = true -> 1 <= B <= 16.
Proof. intros H. apply okB_okwidth in H. unfold okwidth in H. lia. Qed.

Lemma chunk_len_pos esz : esz <= max_prealloc -> 0 < chunk_len esz.
Proof.
  unfold chunk_len, max_prealloc. intros H. destruct (N.eqb_spec esz 0); [unfold usize_max, u64max; lia|].
  apply N.div_str_pos. lia.
Qed.

Lemma okP_chunked esz n c : okP T c -> okP T (chunked_items esz n c).
Proof.
  intros Hc. unfold chunked_items. cbv zeta.
  assert (H1: forall k, okP T (one_chunk esz k c)).
  { intros k. unfold one_chunk. eapply okP_bind; [apply okP_emit|]. intros _ _.
    eapply okP_bind; [apply okP_emit|]. intros _ _.
    eapply okP_weaken; [|apply okP_rep; exact Hc]. unfold T; auto. }
  eapply okP_bind with (Q := T).
  - destruct (n / chunk_len esz =? 0); [now apply okP_ret|].
    eapply okP_weaken; [|apply okP_rep; apply H1]. unfold T; auto.
  - intros full _. destruct (n mod chunk_len esz =? 0); [now apply okP_ret|].
    eapply okP_bind; [apply H1|]. intros l _. now apply okP_ret.
Qed.

Lemma concat_length_uniform {A} (m : nat) (l : list (list A)) :
  Forall (fun x => length x = m) l -> length (concat l) = (length l * m)%nat.
Proof.
  induction 1 as [|x l Hx Hl IH]; cbn [concat length]; [reflexivity|]. rewrite app_length, IH, Hx. lia.
Qed.

Lemma okP_bulk B n : 1 <= B <= 16 -> okP (fun bs => length bs = N.to_nat (n * B)) (bulk_bytes B n).
Proof.
  intros HB. unfold bulk_bytes. eapply okP_bind; [apply okP_need|]. intros _ _. cbv zeta.
  assert (Hcl: 0 < chunk_len B) by (apply chunk_len_pos; unfold max_prealloc; lia).
  set (cl := chunk_len B) in *.
  assert (H1: forall k, okP (fun bs => length bs = N.to_nat (k * B)) (one_bulk B k)).
  { intros k. unfold one_bulk. eapply okP_bind; [apply okP_emit|]. intros _ _.
    eapply okP_bind; [apply okP_emit|]. intros _ _. apply okP_read. }
  eapply okP_bind with (Q := fun full => length (concat full) = N.to_nat ((n / cl) * (cl * B))).
  - destruct (N.eqb_spec (n / cl) 0) as [E|E].
    + apply okP_ret. rewrite E. reflexivity.
    + eapply okP_weaken; [|apply okP_rep; apply H1]. cbv beta. intros l [Hl Hn].
      rewrite (concat_length_uniform (N.to_nat (cl * B))) by exact Hl. rewrite Hn. lia.
  - intros full Hfull. pose proof (N.div_mod n cl ltac:(lia)) as Hdm.
    destruct (N.eqb_spec (n mod cl) 0) as [E|E].
    + apply okP_ret. rewrite Hfull. f_equal. nia.
    + eapply okP_bind; [apply H1|]. intros l Hl. apply okP_ret.
      rewrite app_length, Hfull, Hl. nia.
Qed.

Lemma words_fuel_len (B : nat) : (0 < B)%nat -> forall k f bs,
  length bs = (k * B)%nat -> (k <= f)%nat -> length (words_fuel f B bs) = k.
Proof.
  intros HB. induction k as [|k IH]; intros f bs Hl Hf.
  - destruct bs; [|cbn in Hl; lia]. destruct f; reflexivity.
  - destruct f as [|f]; [lia|]. destruct bs as [|b r]; [cbn in Hl; lia|].
    cbn [words_fuel length]. f_equal. apply IH; [|lia]. rewrite skipn_length. rewrite Hl. nia.
Qed.

Lemma words_len B bs k : 0 < B -> length bs = N.to_nat (k * B) -> length (words B bs) = N.to_nat k.
Proof.
  intros HB Hl. unfold words. apply words_fuel_len; [lia|lia|]. rewrite Hl. nia.
Qed.

Lemma N_to_bits_len n v : length (N_to_bits n v) = n.
Proof. revert v; induction n; intros v; cbn [N_to_bits length]; auto. Qed.

Lemma chunk_of_word_len B msb w : length (chunk_of_word B msb w) = N.to_nat (8 * B).
Proof. unfold chunk_of_word. destruct msb; rewrite ?rev_length; apply N_to_bits_len. Qed.

Theorem dec_total_mut :
  (forall t, wf_ty t = true -> okP T (dec t)) /\
  (forall vs, wf_vars_ty vs = true -> forall b k, okP T (dec_vars vs b k)).
Proof.
  apply ty_variants_ind; cbn [wf_ty wf_vars_ty dec dec_vars].
  - intros _. now apply okP_ret.
  - intros _. eapply okP_bind; [apply okP_read_byte|]. intros b _.
    destruct (Byte.to_N b) as [|[[?|?|]|[?|?|]|]]; try apply okP_fail; now apply okP_ret.
  - intros B HB. eapply okP_bind; [apply okP_dec_prim|]. intros n _. now apply okP_ret.
  - intros B HB. eapply okP_bind; [apply okP_dec_compact; now apply okB_okwidth|]. intros n _. now apply okP_ret.
  - intros B HB. eapply okP_bind; [apply okP_dec_prim|]. intros n _.
    destruct (n =? 0); [apply okP_fail|now apply okP_ret].
  - intros t IH Ht. eapply okP_bind; [apply okP_read_byte|]. intros b _.
    destruct (Byte.to_N b) as [|[[?|?|]|[?|?|]|]]; try apply okP_fail; [now apply okP_ret|].
    eapply okP_bind; [now apply IH|]. intros v _. now apply okP_ret.
  - intros t IHt e IHe H. apply andb_prop in H as [Ht He].
    eapply okP_bind; [apply okP_read_byte|]. intros b _.
    destruct (Byte.to_N b) as [|[[?|?|]|[?|?|]|]]; try apply okP_fail.
    + eapply okP_bind; [now apply IHt|]. intros v _. now apply okP_ret.
    + eapply okP_bind; [now apply IHe|]. intros v _. now apply okP_ret.
  - intros _. eapply okP_bind; [apply okP_read_byte|]. intros b _.
    destruct (Byte.to_N b) as [|[[?|?|]|[?|?|]|]]; try apply okP_fail; now apply okP_ret.
  - (* TColl *) intros k sz t IH H. apply andb_prop in H as [Ht Hsz].
    eapply okP_bind; [apply okP_dec_compact; unfold okwidth; auto|]. intros n _.
    assert (Hvec: okP T (match t with
                         | TPrim B => bs <- bulk_bytes B n ;; Ret (map VN (words B bs))
                         | _ => emit HDescend ;;; l <- chunked_items sz n (dec t) ;; emit HAscend ;;; Ret l
                         end)).
    { assert (Hgen: okP T (emit HDescend ;;; l <- chunked_items sz n (dec t) ;; emit HAscend ;;; Ret l)).
      { eapply okP_bind; [apply okP_emit|]. intros _ _.
        eapply okP_bind; [apply okP_chunked; now apply IH|]. intros l _.
        eapply okP_bind; [apply okP_emit|]. intros _ _. now apply okP_ret. }
      destruct t; try exact Hgen.
      cbn [wf_ty] in Ht. eapply okP_bind; [apply okP_bulk; now apply okB_pos|]. intros bs _. now apply okP_ret. }
    assert (Hrep: okP T (rep n (node sz (dec t)))).
    { eapply okP_weaken; [|apply okP_rep; apply okP_node; now apply IH]. unfold T; auto. }
    destruct k.
    + eapply okP_bind; [exact Hvec|]. intros items _. now apply okP_ret.
    + eapply okP_bind; [exact Hvec|]. intros items _. now apply okP_ret.
    + eapply okP_bind; [apply okP_emit|]. intros _ _. eapply okP_bind; [apply okP_emit|]. intros _ _.
      eapply okP_bind; [exact Hrep|]. intros items _. eapply okP_bind; [apply okP_emit|]. intros _ _. now apply okP_ret.
    + eapply okP_bind; [apply okP_emit|]. intros _ _. eapply okP_bind; [apply okP_emit|]. intros _ _.
      eapply okP_bind; [exact Hrep|]. intros items _. eapply okP_bind; [apply okP_emit|]. intros _ _. now apply okP_ret.
    + eapply okP_bind; [apply okP_emit|]. intros _ _. eapply okP_bind; [apply okP_emit|]. intros _ _.
      eapply okP_bind; [exact Hrep|]. intros items _. eapply okP_bind; [apply okP_emit|]. intros _ _. now apply okP_ret.
  - (* TStr *) intros _. eapply okP_bind; [apply okP_dec_compact; unfold okwidth; auto|]. intros n _.
    eapply okP_bind; [apply okP_bulk; lia|]. intros bs _.
    destruct (utf8_valid bs); [now apply okP_ret|apply okP_fail].
  - (* TArray *) intros n t IH Ht.
    assert (Hgen: okP T (items <- rep n (dec t) ;; Ret (VSeq items))).
    { eapply okP_bind; [apply okP_rep; now apply IH|]. intros l _. now apply okP_ret. }
    destruct t; try exact Hgen.
    eapply okP_bind; [apply okP_read|]. intros bs _. now apply okP_ret.
  - (* TPair *) intros a IHa b IHb H. apply andb_prop in H as [Ha Hb].
    eapply okP_bind; [now apply IHa|]. intros x _. eapply okP_bind; [now apply IHb|]. intros y _. now apply okP_ret.
  - (* TBox *) intros sz t IH Ht.
    eapply okP_bind; [apply okP_emit|]. intros _ _. eapply okP_bind; [apply okP_emit|]. intros _ _.
    eapply okP_bind; [apply okP_emit|]. intros _ _.
    eapply okP_bind; [now apply IH|]. intros v _. eapply okP_bind; [apply okP_emit|]. intros _ _. now apply okP_ret.
  - (* TDuration *) intros _. eapply okP_bind; [apply okP_read|]. intros s _.
    eapply okP_bind; [apply okP_read|]. intros n _.
    destruct (a_billion <=? le_dec n); [apply okP_fail|now apply okP_ret].
  - (* TBits *) intros B msb H. apply andb_prop in H as [HB HB8]. pose proof (okB_pos B HB) as HBp.
    eapply okP_bind; [apply okP_dec_compact; unfold okwidth; auto|]. intros bits _.
    destruct (2 ^ 29 - 1 <? bits); [apply okP_fail|].
    eapply okP_bind; [apply okP_bulk; exact HBp|]. intros bs Hbs. cbv zeta.
    set (nw := (bits + 8 * B - 1) / (8 * B)) in *.
    assert (Hlen: length (concat (map (chunk_of_word B msb) (words B bs))) = N.to_nat (nw * (8 * B))).
    { rewrite (concat_length_uniform (N.to_nat (8 * B))).
      - rewrite map_length, (words_len B bs nw) by (lia || exact Hbs). lia.
      - apply Forall_forall. intros x Hx. apply in_map_iff in Hx as [w [<- _]]. apply chunk_of_word_len. }
    destruct (N.ltb_spec (N.of_nat (length (concat (map (chunk_of_word B msb) (words B bs))))) bits) as [Hlt|Hge].
    + exfalso. rewrite Hlen in Hlt. unfold nw in Hlt.
      assert (bits <= (bits + 8 * B - 1) / (8 * B) * (8 * B)) by (pose proof (N.div_mod (bits + 8 * B - 1) (8 * B) ltac:(lia)); pose proof (N.mod_lt (bits + 8 * B - 1) (8 * B) ltac:(lia)); nia).
      lia.
    + now apply okP_ret.
  - (* TEnum *) intros vs IH Hvs. eapply okP_bind; [apply okP_read_byte|]. intros b _. now apply IH.
  - intros _ b k. apply okP_fail.
  - intros idx t IHt vs IHvs H b k. apply andb_prop in H as [Ht Hvs].
    destruct (b =? idx mod 256).
    + eapply okP_bind; [now apply IHt|]. intros v _. now apply okP_ret.
    + now apply IHvs.
Qed.

Theorem dec_total t known bs : wf_ty t = true ->
  runo (dec t) known bs <> OPanic /\ runo (dec t) known bs <> ONoFuel.
Proof.
  intros H. pose proof (proj1 dec_total_mut t H known bs) as Hk.
  destruct (runo (dec t) known bs); split; try discriminate; contradiction.
Qed.

(* ------------------------------------------------------------------ *)
(* the bulk path reads exactly n*B bytes, in one piece as far as the outcome goes *)
Theorem bulk_spec B n known bs : 1 <= B <= 16 ->
  oview (runo (bulk_bytes B n) known bs) = rd (n * B) bs.
Proof.
  intros HB. unfold bulk_bytes. cbn [need bindp runo].
  assert (Hbody: oview (runo (let cl := chunk_len B in
                  full <- (if n / cl =? 0 then Ret [] else rep (n / cl) (one_bulk B cl)) ;;
                  (if n mod cl =? 0 then Ret (concat full)
                   else last <- one_bulk B (n mod cl) ;; Ret (concat full ++ last))) known bs) = rd (n * B) bs).
  { cbv zeta. apply (chunked_read_is_one_read (one_bulk B) B known (chunk_len B) n).
    - apply chunk_len_pos. unfold max_prealloc. lia.
    - intros k bs0. unfold one_bulk. rewrite !runo_emit. apply runo_read. }
  destruct known; cbn [andb]; [|exact Hbody].
  destruct (avail (n * B) bs) eqn:Ha; cbn [negb]; [exact Hbody|].
  unfold rd. now rewrite Ha.
Qed.

Theorem chunked_items_is_rep esz n c : esz <= max_prealloc -> oeq (chunked_items esz n c) (rep n c).
Proof.
  intros H. unfold chunked_items, one_chunk. cbv zeta.
  apply (chunked_is_rep val c (fun k => emit (HAlloc (sat_mul k esz)) ;;; emit (HReal (sat_mul k esz)))).
  - now apply chunk_len_pos.
  - intros k B p known bs. reflexivity.
Qed.

(* ------------------------------------------------------------------ *)
(* C08 (model level): the verdict, value and consumption do not depend on whether the
   input can report its remaining length *)
Lemma keq_dec_compact B : okwidth B -> keq (dec_compact B).
Proof. intros HB bs. now rewrite !dec_compact_spec. Qed.

Lemma keq_dec_prim B : keq (dec_prim B).
Proof.
  unfold dec_prim. destruct (B =? 1).
  - apply keq_read_byte. intros b. apply keq_ret.
  - apply keq_read. intros b. apply keq_ret.
Qed.

Lemma keq_bulk B n : 1 <= B <= 16 -> keq (bulk_bytes B n).
Proof. intros HB bs. now rewrite !bulk_spec. Qed.

Lemma keq_emit_seq A h (p : prog A) : keq p -> keq (emit h ;;; p).
Proof. intros Hp bs. apply Hp. Qed.

Lemma keq_node sz c : keq c -> keq (node sz c).
Proof. intros Hc. unfold node. apply keq_bind; [exact Hc|]. intros v. apply keq_emit_seq. apply keq_ret. Qed.

Lemma keq_oeq A (p q : prog A) : oeq p q -> keq q -> keq p.
Proof. intros H Hq bs. rewrite !H. apply Hq. Qed.


Theorem dec_known_irrelevant_mut :
  (forall t, wf_ty t = true -> keq (dec t)) /\
  (forall vs, wf_vars_ty vs = true -> forall b k, keq (dec_vars vs b k)).
Proof.
  apply ty_variants_ind; cbn [wf_ty wf_vars_ty dec dec_vars].
  - intros _. apply keq_ret.
  - intros _. apply keq_read_byte. intros b.
    destruct (Byte.to_N b) as [|[[?|?|]|[?|?|]|]]; try apply keq_fail; apply keq_ret.
  - intros B HB. apply keq_bind; [apply keq_dec_prim|]. intros; apply keq_ret.
  - intros B HB. apply keq_bind; [apply keq_dec_compact; now apply okB_okwidth|]. intros; apply keq_ret.
  - intros B HB. apply keq_bind; [apply keq_dec_prim|]. intros n. destruct (n =? 0); [apply keq_fail|apply keq_ret].
  - intros t IH Ht. apply keq_read_byte. intros b.
    destruct (Byte.to_N b) as [|[[?|?|]|[?|?|]|]]; try apply keq_fail; [apply keq_ret|].
    apply keq_bind; [now apply IH|]. intros; apply keq_ret.
  - intros t IHt e IHe H. apply andb_prop in H as [Ht He]. apply keq_read_byte. intros b.
    destruct (Byte.to_N b) as [|[[?|?|]|[?|?|]|]]; try apply keq_fail.
    + apply keq_bind; [now apply IHt|]. intros; apply keq_ret.
    + apply keq_bind; [now apply IHe|]. intros; apply keq_ret.
  - intros _. apply keq_read_byte. intros b.
    destruct (Byte.to_N b) as [|[[?|?|]|[?|?|]|]]; try apply keq_fail; apply keq_ret.
  - (* TColl *) intros k sz t IH H. apply andb_prop in H as [Ht Hsz]. apply N.leb_le in Hsz.
    apply keq_bind; [apply keq_dec_compact; unfold okwidth; auto|]. intros n.
    assert (Hvec: keq (match t with
                       | TPrim B => bs <- bulk_bytes B n ;; Ret (map VN (words B bs))
                       | _ => emit HDescend ;;; l <- chunked_items sz n (dec t) ;; emit HAscend ;;; Ret l
                       end)).
    { assert (Hgen: keq (emit HDescend ;;; l <- chunked_items sz n (dec t) ;; emit HAscend ;;; Ret l)).
      { apply keq_emit_seq. apply keq_bind.
        - eapply keq_oeq; [now apply chunked_items_is_rep|]. apply keq_rep. now apply IH.
        - intros l. apply keq_emit_seq. apply keq_ret. }
      destruct t; try exact Hgen.
      cbn [wf_ty] in Ht. apply keq_bind; [apply keq_bulk; now apply okB_pos|]. intros; apply keq_ret. }
    assert (Hrep: keq (rep n (node sz (dec t)))) by (apply keq_rep; apply keq_node; now apply IH).
    destruct k.
    + apply keq_bind; [exact Hvec|]. intros; apply keq_ret.
    + apply keq_bind; [exact Hvec|]. intros; apply keq_ret.
    + apply keq_emit_seq, keq_emit_seq. apply keq_bind; [exact Hrep|]. intros. apply keq_emit_seq, keq_ret.
    + apply keq_emit_seq, keq_emit_seq. apply keq_bind; [exact Hrep|]. intros. apply keq_emit_seq, keq_ret.
    + apply keq_emit_seq, keq_emit_seq. apply keq_bind; [exact Hrep|]. intros. apply keq_emit_seq, keq_ret.
  - (* TStr *) intros _. apply keq_bind; [apply keq_dec_compact; unfold okwidth; auto|]. intros n.
    apply keq_bind; [apply keq_bulk; lia|]. intros bs. destruct (utf8_valid bs); [apply keq_ret|apply keq_fail].
  - (* TArray *) intros n t IH Ht.
    assert (Hgen: keq (items <- rep n (dec t) ;; Ret (VSeq items))).
    { apply keq_bind; [apply keq_rep; now apply IH|]. intros; apply keq_ret. }
    destruct t; try exact Hgen. apply keq_read. intros; apply keq_ret.
  - intros a IHa b IHb H. apply andb_prop in H as [Ha Hb].
    apply keq_bind; [now apply IHa|]. intros x. apply keq_bind; [now apply IHb|]. intros; apply keq_ret.
  - intros sz t IH Ht. apply keq_emit_seq, keq_emit_seq, keq_emit_seq. apply keq_bind; [now apply IH|]. intros. apply keq_emit_seq, keq_ret.
  - intros _. apply keq_read. intros s. apply keq_read. intros n.
    destruct (a_billion <=? le_dec n); [apply keq_fail|apply keq_ret].
  - intros B msb H. apply andb_prop in H as [HB HB8].
    apply keq_bind; [apply keq_dec_compact; unfold okwidth; auto|]. intros bits.
    destruct (2 ^ 29 - 1 <? bits); [apply keq_fail|].
    apply keq_bind; [apply keq_bulk; now apply okB_pos|]. intros bs. cbv zeta.
    destruct (N.of_nat (length (concat (map (chunk_of_word B msb) (words B bs)))) <? bits); [apply keq_crash|apply keq_ret].
  - intros vs IH Hvs. apply keq_read_byte. intros b. now apply IH.
  - intros _ b k. apply keq_fail.
  - intros idx t IHt vs IHvs H b k. apply andb_prop in H as [Ht Hvs].
    destruct (b =? idx mod 256).
    + apply keq_bind; [now apply IHt|]. intros; apply keq_ret.
    + now apply IHvs.
Qed.

Theorem dec_known_irrelevant t bs : wf_ty t = true ->
  oview (runo (dec t) true bs) = oview (runo (dec t) false bs).
Proof. intros H. apply (proj1 dec_known_irrelevant_mut t H). Qed.
