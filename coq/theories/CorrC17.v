(* Correspondence cases for C17: did rustc + the derive macros accept the definition? *)
Require Import Scale.Bytes Scale.Hex Scale.Codec Scale.Derive.

Inductive c17case :=
| KDef (d : def) (accepted : bool)            (* #[derive(Encode, Decode)] *)
| KCompactAs (d : def) (accepted : bool).     (* #[derive(Encode, Decode, CompactAs)] *)

Definition c17_check (c : c17case) : bool :=
  match c with
  | KDef d a => Bool.eqb (derive_accepts d) a
  | KCompactAs d a => Bool.eqb (derive_accepts d && compact_as_accepts d) a
  end.
Definition c17_model (c : c17case) : bool :=
  match c with
  | KDef d _ => derive_accepts d
  | KCompactAs d _ => derive_accepts d && compact_as_accepts d
  end.
