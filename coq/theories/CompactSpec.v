(* Compact integers: the SCALE specification (shortest form) and a width-generic
   specification decoder, with both directions proved:
     sdec_spec  : every canonical form of a value below 2^W decodes to it;
     sdec_canon : anything accepted is the canonical form of a value below 2^W. *)
Require Import Scale.Bytes.

Definition byte_len (v : N) : nat := N.to_nat ((N.size v + 7) / 8).

Definition spec_compact (v : N) : list byte :=
  if v <? 2^6 then le_enc 1 (4*v)
  else if v <? 2^14 then le_enc 2 (4*v+1)
  else if v <? 2^30 then le_enc 4 (4*v+2)
  else let n := byte_len v in byte_of (4 * (N.of_nat n - 4) + 3) :: le_enc n v.

Definition sdec (W : N) (bs : list byte) : option (N * list byte) :=
  match bs with
  | [] => None
  | p :: rest =>
    let pn := Byte.to_N p in
    match pn mod 4 with
    | 0 => Some (pn / 4, rest)
    | 1 => match take 1 rest with
           | Some (b, r) => let x := le_dec (p :: b) / 4 in
               if (2^6 <=? x) && (x <? 2^W) then Some (x, r) else None
           | None => None end
    | 2 => match take 3 rest with
           | Some (b, r) => let x := le_dec (p :: b) / 4 in
               if (2^14 <=? x) && (x <? 2^W) then Some (x, r) else None
           | None => None end
    | _ => let n := N.to_nat (pn / 4 + 4) in
           match take n rest with
           | Some (b, r) => let x := le_dec b in
               if (2^30 <=? x) && (256 ^ (N.of_nat n - 1) <=? x) && (x <? 2^W) then Some (x, r) else None
           | None => None end
    end
  end.

Lemma byte_len_spec v : 0 < v -> 256 ^ (N.of_nat (byte_len v) - 1) <= v < 256 ^ N.of_nat (byte_len v).
Proof.
  intros Hv. unfold byte_len. rewrite N2Nat.id.
  rewrite N.size_log2 by lia. pose proof (N.log2_spec v Hv) as [Hlo Hhi].
  set (l := N.log2 v) in *. set (n := (N.succ l + 7) / 8).
  assert (Hn: 8 * n - 8 <= l < 8 * n) by (unfold n; lia).
  replace 256 with (2^8) by reflexivity. rewrite <- !N.pow_mul_r.
  split.
  - assert (2 ^ (8 * (n - 1)) <= 2 ^ l) by (apply N.pow_le_mono_r; lia). lia.
  - assert (2 ^ N.succ l <= 2 ^ (8 * n)) by (apply N.pow_le_mono_r; lia). lia.
Qed.

Theorem sdec_spec W v rest : 8 <= W -> W <= 536 -> v < 2^W -> sdec W (spec_compact v ++ rest) = Some (v, rest).
Proof.
  intros HW HW2 Hv. unfold spec_compact.
  assert (H64: 2^6 <= 2^W) by (apply N.pow_le_mono_r; lia).
  destruct (N.ltb_spec v (2^6)) as [H6|H6].
  { cbn [le_enc app sdec]. rewrite to_byte_of. change (2^6) with 64 in *.
    rewrite (N.mod_small (4*v)) by lia.
    replace ((4*v) mod 4) with 0 by lia. f_equal. f_equal. lia. }
  destruct (N.ltb_spec v (2^14)) as [H14|H14].
  { change (2^6) with 64 in *; change (2^14) with 16384 in *.
    cbn [le_enc app]. unfold sdec. rewrite to_byte_of.
    replace (((4*v+1) mod 256) mod 4) with 1 by lia.
    cbn [app]. change (byte_of ((4*v+1)/256) :: rest) with ([byte_of ((4*v+1)/256)] ++ rest).
    rewrite take_app by reflexivity.
    change (byte_of (4*v+1) :: [byte_of ((4*v+1)/256)]) with (le_enc 2 (4*v+1)).
    rewrite le_dec_enc by (simpl; lia).
    replace ((4*v+1)/4) with v by lia.
    destruct (N.leb_spec (2^6) v) as [?|HH]; [|change (2^6) with 64 in HH; lia]. destruct (N.ltb_spec v (2^W)); [|lia]. reflexivity. }
  destruct (N.ltb_spec v (2^30)) as [H30|H30].
  { change (2^6) with 64 in *; change (2^14) with 16384 in *; change (2^30) with 1073741824 in *.
    cbn [le_enc app]. unfold sdec. rewrite to_byte_of.
    replace (((4*v+2) mod 256) mod 4) with 2 by lia.
    cbn [app].
    match goal with |- context [take 3 (?a :: ?b :: ?c :: rest)] => change (a :: b :: c :: rest) with ([a;b;c] ++ rest) end.
    rewrite take_app by reflexivity.
    match goal with |- context [le_dec (?a :: [?b;?c;?d])] => change (a :: [b;c;d]) with (le_enc 4 (4*v+2)) end.
    rewrite le_dec_enc by (simpl; lia).
    replace ((4*v+2)/4) with v by lia.
    destruct (N.leb_spec (2^14) v) as [?|HH]; [|change (2^14) with 16384 in HH; lia]. destruct (N.ltb_spec v (2^W)); [|lia]. reflexivity. }
  (* big mode *)
  assert (Hpos: 0 < v) by (change (2^30) with 1073741824 in *; lia).
  pose proof (byte_len_spec v Hpos) as [Hlo Hhi].
  set (n := byte_len v) in *.
  assert (Hn4: (4 <= n)%nat).
  { destruct (Nat.leb_spec 4 n); auto. exfalso.
    assert (256 ^ N.of_nat n <= 256 ^ 3) by (apply N.pow_le_mono_r; lia).
    change (256^3) with 16777216 in *. change (2^30) with 1073741824 in *. lia. }
  assert (Hn: N.of_nat n <= 67).
  { destruct (N.leb_spec (N.of_nat n) 67); auto. exfalso.
    assert (256 ^ 67 <= 256 ^ (N.of_nat n - 1)) by (apply N.pow_le_mono_r; lia).
    assert (2 ^ W <= 2 ^ 536) by (apply N.pow_le_mono_r; lia).
    change (256 ^ 67) with (2 ^ 536) in *. lia. }
  cbn [app]. unfold sdec. rewrite to_byte_of.
  set (m := N.of_nat n) in *.
  rewrite (N.mod_small (4 * (m - 4) + 3)) by lia.
  replace ((4 * (m - 4) + 3) mod 4) with 3 by lia.
  replace ((4 * (m - 4) + 3) / 4 + 4) with m by lia.
  unfold m in *. clear m. rewrite Nat2N.id.
  rewrite take_app by apply le_enc_len.
  rewrite le_dec_enc by exact Hhi.
  destruct (N.leb_spec (2^30) v); [|lia].
  destruct (N.leb_spec (256 ^ (N.of_nat n - 1)) v); [|lia].
  destruct (N.ltb_spec v (2^W)); [|lia]. reflexivity.
Qed.

(* converse: anything accepted is canonical *)
Lemma byte_len_unique v n : 0 < v -> 256 ^ (N.of_nat n - 1) <= v < 256 ^ N.of_nat n -> (1 <= n)%nat -> byte_len v = n.
Proof.
  intros Hv [Hlo Hhi] Hn. pose proof (byte_len_spec v Hv) as [Hlo' Hhi'].
  set (m := byte_len v) in *.
  assert (Hm: (1 <= m)%nat).
  { destruct m; [|lia]. simpl in Hhi'. lia. }
  destruct (Nat.lt_trichotomy m n) as [H|[H|H]]; auto; exfalso.
  - assert (256 ^ N.of_nat m <= 256 ^ (N.of_nat n - 1)) by (apply N.pow_le_mono_r; lia). lia.
  - assert (256 ^ N.of_nat n <= 256 ^ (N.of_nat m - 1)) by (apply N.pow_le_mono_r; lia). lia.
Qed.

Lemma le_dec_cons2 p b : le_dec (p :: b) = Byte.to_N p + 256 * le_dec b.
Proof. reflexivity. Qed.

Theorem sdec_canon W bs v rest : 8 <= W -> W <= 536 -> sdec W bs = Some (v, rest) -> v < 2^W /\ bs = spec_compact v ++ rest.
Proof.
  intros HW HW2. unfold sdec. destruct bs as [|p r0]; [discriminate|].
  pose proof (Byte.to_N_bounded p) as Hp. set (pn := Byte.to_N p) in *.
  assert (H64: 2^6 <= 2^W) by (apply N.pow_le_mono_r; lia).
  assert (E6: 2^6 = 64) by reflexivity. assert (E14: 2^14 = 16384) by reflexivity.
  assert (E30: 2^30 = 1073741824) by reflexivity.
  assert (Hm: pn mod 4 = 0 \/ pn mod 4 = 3 \/ pn mod 4 = 2 \/ pn mod 4 = 1) by lia.
  destruct Hm as [Em|[Em|[Em|Em]]]; rewrite Em.
  - (* mode 0 *) intros [= <- <-]. split. { lia. }
    unfold spec_compact. destruct (N.ltb_spec (pn/4) (2^6)); [|lia].
    cbn [le_enc app]. f_equal. replace (4 * (pn/4)) with pn by lia. symmetry. apply byte_of_to.
  - (* mode 3: pn mod 4 = pos q~1 with q>=1 , i.e. 3 *)
    pose proof Em as Em3.
    destruct (take (N.to_nat (pn / 4 + 4)) r0) as [[b r]|] eqn:Et; [|discriminate].
    apply take_inv in Et as [-> Hlen].
    destruct (N.leb_spec (2^30) (le_dec b)) as [H30|]; [|discriminate].
    destruct (N.leb_spec (256 ^ (N.of_nat (N.to_nat (pn/4+4)) - 1)) (le_dec b)) as [Hlo|]; [|discriminate].
    destruct (N.ltb_spec (le_dec b) (2^W)) as [HWv|]; [|discriminate].
    cbn [andb]. intros [= <- <-]. split; [exact HWv|].
    unfold spec_compact.
    destruct (N.ltb_spec (le_dec b) (2^6)); [lia|].
    destruct (N.ltb_spec (le_dec b) (2^14)); [lia|].
    destruct (N.ltb_spec (le_dec b) (2^30)); [lia|].
    pose proof (le_dec_bound b) as Hhi. rewrite Hlen in Hhi.
    assert (Hbl: byte_len (le_dec b) = N.to_nat (pn/4+4)).
    { apply byte_len_unique; [lia| |lia]. split; assumption. }
    rewrite Hbl. rewrite N2Nat.id. cbn [app]. f_equal.
    + replace (4 * (pn/4 + 4 - 4) + 3) with pn by lia. symmetry. apply byte_of_to.
    + rewrite <- Hlen. rewrite le_enc_dec. reflexivity.
  - (* pn mod 4 = pos q~0 : 2 *)
    pose proof Em as Em2.
    destruct (take 3 r0) as [[b r]|] eqn:Et; [|discriminate].
    apply take_inv in Et as [-> Hlen].
    set (x := le_dec (p :: b) / 4).
    destruct (N.leb_spec (2^14) x) as [H14|]; [|discriminate].
    destruct (N.ltb_spec x (2^W)) as [HWv|]; [|discriminate].
    cbn [andb]. intros [= <- <-]. split; [exact HWv|].
    pose proof (le_dec_bound (p :: b)) as Hb. cbn [length] in Hb. rewrite Hlen in Hb.
    change (256 ^ N.of_nat 4) with 4294967296 in Hb.
    assert (Hx: le_dec (p :: b) = 4 * x + 2).
    { unfold x. rewrite le_dec_cons2. change (to_N p) with pn. lia. }
    unfold spec_compact.
    destruct (N.ltb_spec x (2^6)); [lia|].
    destruct (N.ltb_spec x (2^14)); [lia|].
    destruct (N.ltb_spec x (2^30)) as [|Hge]; [| exfalso; lia].
    rewrite <- Hx.
    assert (H4: le_enc 4 (le_dec (p :: b)) = p :: b).
    { rewrite <- (le_enc_dec (p :: b)) at 2. f_equal. cbn [length]. lia. }
    rewrite H4. reflexivity.
  - (* 1 *)
    destruct (take 1 r0) as [[b r]|] eqn:Et; [|discriminate].
    apply take_inv in Et as [-> Hlen].
    set (x := le_dec (p :: b) / 4).
    destruct (N.leb_spec (2^6) x) as [H6|]; [|discriminate].
    destruct (N.ltb_spec x (2^W)) as [HWv|]; [|discriminate].
    cbn [andb]. intros [= <- <-]. split; [exact HWv|].
    pose proof (le_dec_bound (p :: b)) as Hb. cbn [length] in Hb. rewrite Hlen in Hb.
    change (256 ^ N.of_nat 2) with 65536 in Hb.
    assert (Hx: le_dec (p :: b) = 4 * x + 1).
    { unfold x. rewrite le_dec_cons2. change (to_N p) with pn. lia. }
    unfold spec_compact.
    destruct (N.ltb_spec x (2^6)); [lia|].
    destruct (N.ltb_spec x (2^14)) as [|Hge]; [| exfalso; lia].
    rewrite <- Hx.
    assert (H2: le_enc 2 (le_dec (p :: b)) = p :: b).
    { rewrite <- (le_enc_dec (p :: b)) at 2. f_equal. cbn [length]. lia. }
    rewrite H2. reflexivity.
Qed.
