(* Generic facts about the Prog monad, valid for every decoder written in it. *)
Require Import Scale.Bytes Scale.Prog.

(* ---------- bind laws ---------- *)
Lemma runo_bind A B (p : prog A) (f : A -> prog B) known : forall bs,
  runo (bindp p f) known bs =
  match runo p known bs with
  | OOk a r => runo (f a) known r
  | OErr r => OErr r
  | OPanic => OPanic
  | ONoFuel => ONoFuel
  end.
Proof.
  induction p as [a| | | |n k IH|k IH|nd k IH|h k IH]; intros bs; cbn [bindp runo]; auto.
  - destruct (avail n bs); auto.
  - destruct bs; auto.
  - destruct (known && negb (avail nd bs)); auto.
Qed.

Definition app_ev {A} (evs : list event) (r : out A * list event) : out A * list event :=
  (fst r, evs ++ snd r).

Lemma runt_bind A B (p : prog A) (f : A -> prog B) known : forall bs,
  runt (bindp p f) known bs =
  match runt p known bs with
  | (OOk a r, evs) => app_ev evs (runt (f a) known r)
  | (OErr r, evs) => (OErr r, evs)
  | (OPanic, evs) => (OPanic, evs)
  | (ONoFuel, evs) => (ONoFuel, evs)
  end.
Proof.
  induction p as [a| | | |n k IH|k IH|nd k IH|h k IH]; intros bs; cbn [bindp runt]; auto.
  - unfold app_ev. cbn. now destruct (runt (f a) known bs).
  - destruct (avail n bs); auto. rewrite IH. unfold cons_ev, app_ev.
    destruct (runt (k (firstn (N.to_nat n) bs)) known (skipn (N.to_nat n) bs)) as [[a r|r| |] evs]; reflexivity.
  - destruct bs as [|b r0]; auto. rewrite IH. unfold cons_ev, app_ev.
    destruct (runt (k b) known r0) as [[a r|r| |] evs]; reflexivity.
  - destruct (known && negb (avail nd bs)); auto.
  - rewrite IH. unfold cons_ev, app_ev.
    destruct (runt k known bs) as [[a r|r| |] evs]; reflexivity.
Qed.

Lemma runt_fst A (p : prog A) known : forall bs, fst (runt p known bs) = runo p known bs.
Proof.
  induction p as [a| | | |n k IH|k IH|nd k IH|h k IH]; intros bs; cbn [runt runo]; auto.
  - destruct (avail n bs); auto. cbn. apply IH.
  - destruct bs; auto. cbn. apply IH.
  - destruct (known && negb (avail nd bs)); auto.
  - cbn. apply IH.
Qed.

(* ---------- the structural theorem: a monitored run is the traced run cut at
   the first rejected event ---------- *)
Theorem run_runt (m : monitor) A (p : prog A) known : forall bs (s : mst m),
  run m p known bs s =
  let '(o, evs) := runt p known bs in
  match feed m s evs with
  | (s', true) => lift_out o s'
  | (s', false) => RErr s'
  end.
Proof.
  induction p as [a| | | |n k IH|k IH|nd k IH|h k IH]; intros bs s; cbn [run runt]; auto.
  - destruct (avail n bs); auto. unfold cons_ev.
    specialize (IH (firstn (N.to_nat n) bs) (skipn (N.to_nat n) bs)).
    destruct (runt (k (firstn (N.to_nat n) bs)) known (skipn (N.to_nat n) bs)) as [o evs].
    cbn [fst snd feed]. destruct (mstep m (ERead n) s) as [s' [|]]; auto.
  - destruct bs as [|b r0]; auto. unfold cons_ev.
    specialize (IH b r0).
    destruct (runt (k b) known r0) as [o evs].
    cbn [fst snd feed]. destruct (mstep m (ERead 1) s) as [s' [|]]; auto.
  - destruct (known && negb (avail nd bs)); auto.
  - unfold cons_ev. specialize (IH bs).
    destruct (runt k known bs) as [o evs].
    cbn [fst snd feed]. destruct (mstep m (EHook h) s) as [s' [|]]; auto.
Qed.

(* the null monitor accepts everything *)
Lemma feed_null evs : feed nullmon tt evs = (tt, true).
Proof. induction evs as [|e r IH]; cbn; auto. Qed.

Corollary run_null A (p : prog A) known bs :
  run nullmon p known bs tt = lift_out (runo p known bs) tt.
Proof.
  rewrite run_runt. rewrite <- runt_fst. destruct (runt p known bs) as [o evs].
  rewrite feed_null. reflexivity.
Qed.

Lemma feed_app m s a b :
  feed m s (a ++ b) = match feed m s a with
                      | (s', true) => feed m s' b
                      | (s', false) => (s', false)
                      end.
Proof.
  revert s; induction a as [|e a IH]; intros s; cbn [feed app]; auto.
  destruct (mstep m e s) as [s' [|]]; auto.
Qed.

(* ---------- bytes delivered = sum of the read events, on success AND failure ---------- *)
Fixpoint sum_reads (evs : list event) : N :=
  match evs with
  | [] => 0
  | ERead n :: r => n + sum_reads r
  | EHook _ :: r => sum_reads r
  end.

Lemma skipn_length_N (n : N) (bs : list byte) :
  avail n bs = true -> N.of_nat (length bs) = n + N.of_nat (length (skipn (N.to_nat n) bs)).
Proof. rewrite avail_spec. intros H. rewrite skipn_length. lia. Qed.

Theorem reads_account A (p : prog A) known : forall bs,
  match runt p known bs with
  | (OOk _ rest, evs) | (OErr rest, evs) => N.of_nat (length bs) = sum_reads evs + N.of_nat (length rest)
  | _ => True
  end.
Proof.
  induction p as [a| | | |n k IH|k IH|nd k IH|h k IH]; intros bs; cbn [runt]; auto;
    try (cbn [sum_reads]; lia).
  - destruct (avail n bs) eqn:Ha; [|cbn [sum_reads]; lia].
    specialize (IH (firstn (N.to_nat n) bs) (skipn (N.to_nat n) bs)).
    unfold cons_ev.
    destruct (runt (k (firstn (N.to_nat n) bs)) known (skipn (N.to_nat n) bs)) as [[a r|r| |] evs];
      cbn [fst snd sum_reads]; auto; rewrite (skipn_length_N n bs Ha); lia.
  - destruct bs as [|b r0]; [cbn [sum_reads]; lia|].
    specialize (IH b r0). unfold cons_ev.
    destruct (runt (k b) known r0) as [[a r|r| |] evs]; cbn [fst snd sum_reads length]; auto; lia.
  - destruct (known && negb (avail nd bs)); [cbn [sum_reads]; lia|apply IH].
  - specialize (IH bs). unfold cons_ev.
    destruct (runt k known bs) as [[a r|r| |] evs]; cbn [fst snd sum_reads]; auto.
Qed.

(* rest is always a suffix: the decoder consumed a prefix *)
Theorem runo_suffix A (p : prog A) known : forall bs,
  match runo p known bs with
  | OOk _ rest | OErr rest => exists pre, bs = pre ++ rest
  | _ => True
  end.
Proof.
  induction p as [a| | | |n k IH|k IH|nd k IH|h k IH]; intros bs; cbn [runo]; auto;
    try (exists []; reflexivity).
  - destruct (avail n bs); [|exists []; reflexivity].
    specialize (IH (firstn (N.to_nat n) bs) (skipn (N.to_nat n) bs)).
    destruct (runo (k (firstn (N.to_nat n) bs)) known (skipn (N.to_nat n) bs)) as [a r|r| |]; auto;
      destruct IH as [pre E]; exists (firstn (N.to_nat n) bs ++ pre);
      rewrite <- app_assoc, <- E; symmetry; apply firstn_skipn.
  - destruct bs as [|b r0]; [exists []; reflexivity|].
    specialize (IH b r0).
    destruct (runo (k b) known r0) as [a r|r| |]; auto;
      destruct IH as [pre E]; exists (b :: pre); cbn; now rewrite <- E.
  - destruct (known && negb (avail nd bs)); [exists []; reflexivity|apply IH].
  - apply IH.
Qed.

(* ---------- repetition ---------- *)
Lemma runo_ret A (a : A) known bs : runo (Ret a) known bs = OOk a bs.
Proof. reflexivity. Qed.

(* program equivalence = same traced behaviour on every input (hence, by
   [run_runt], same behaviour under every monitor) *)
Definition peq {A} (p q : prog A) : Prop := forall known bs, runt p known bs = runt q known bs.

Lemma peq_refl A (p : prog A) : peq p p. Proof. intros ? ?; reflexivity. Qed.
Lemma peq_sym A (p q : prog A) : peq p q -> peq q p. Proof. intros H ? ?; symmetry; apply H. Qed.
Lemma peq_trans A (p q r : prog A) : peq p q -> peq q r -> peq p r.
Proof. intros H1 H2 ? ?; rewrite H1; apply H2. Qed.

Lemma peq_bind A B (p q : prog A) (f g : A -> prog B) :
  peq p q -> (forall a, peq (f a) (g a)) -> peq (bindp p f) (bindp q g).
Proof.
  intros Hp Hf known bs. rewrite !runt_bind, Hp.
  destruct (runt q known bs) as [[a r|r| |] evs]; auto. now rewrite Hf.
Qed.

Lemma peq_runo A (p q : prog A) : peq p q -> forall known bs, runo p known bs = runo q known bs.
Proof. intros H known bs. rewrite <- !runt_fst. now rewrite H. Qed.

Lemma peq_bind_assoc A B C (p : prog A) (f : A -> prog B) (g : B -> prog C) :
  peq (bindp (bindp p f) g) (bindp p (fun a => bindp (f a) g)).
Proof.
  intros known bs. rewrite !runt_bind.
  destruct (runt p known bs) as [[a r|r| |] evs]; auto.
  rewrite runt_bind. unfold app_ev.
  destruct (runt (f a) known r) as [[b r'|r'| |] evs']; cbn [fst snd]; auto.
  destruct (runt (g b) known r') as [o evs'']. cbn [fst snd]. now rewrite app_assoc.
Qed.

Lemma peq_bind_ret_l A B (a : A) (f : A -> prog B) : peq (bindp (Ret a) f) (f a).
Proof. intros ? ?; reflexivity. Qed.

Lemma rep_nat_app A (c : prog A) (n1 n2 : nat) :
  peq (rep_nat (n1 + n2) c)
      (l1 <- rep_nat n1 c ;; l2 <- rep_nat n2 c ;; Ret (l1 ++ l2)).
Proof.
  induction n1 as [|n1 IH]; cbn [rep_nat Nat.add].
  - intros known bs. cbn [bindp]. rewrite runt_bind.
    destruct (runt (rep_nat n2 c) known bs) as [[a r|r| |] evs]; auto.
    unfold app_ev; cbn. now rewrite app_nil_r.
  - (* right-hand side: reassociate *)
    apply peq_sym. eapply peq_trans; [apply peq_bind_assoc|].
    apply peq_bind; [apply peq_refl|]. intros a.
    eapply peq_trans; [apply peq_bind_assoc|]. cbn [bindp].
    (* left-hand side: use IH and reassociate *)
    apply peq_sym.
    eapply peq_trans; [apply peq_bind; [apply IH|intros; apply peq_refl]|].
    eapply peq_trans; [apply peq_bind_assoc|].
    apply peq_bind; [apply peq_refl|]. intros l1.
    eapply peq_trans; [apply peq_bind_assoc|]. cbn [bindp].
    apply peq_refl.
Qed.

Lemma rep_pos_nat A (c : prog A) (p : positive) : peq (rep_pos p c) (rep_nat (Pos.to_nat p) c).
Proof.
  induction p as [q IH|q IH|]; cbn [rep_pos].
  - rewrite Pos2Nat.inj_xI. replace (S (2 * Pos.to_nat q)) with (S (Pos.to_nat q + Pos.to_nat q)) by lia.
    cbn [rep_nat]. apply peq_bind; [apply peq_refl|]. intros a.
    apply peq_sym. eapply peq_trans; [apply peq_bind; [apply rep_nat_app|intros; apply peq_refl]|].
    eapply peq_trans; [apply peq_bind_assoc|].
    apply peq_bind; [apply peq_sym, IH|]. intros l1.
    eapply peq_trans; [apply peq_bind_assoc|].
    apply peq_bind; [apply peq_sym, IH|]. intros l2. apply peq_refl.
  - rewrite Pos2Nat.inj_xO. replace (2 * Pos.to_nat q)%nat with (Pos.to_nat q + Pos.to_nat q)%nat by lia.
    apply peq_sym. eapply peq_trans; [apply rep_nat_app|].
    apply peq_bind; [apply peq_sym, IH|]. intros l1.
    apply peq_bind; [apply peq_sym, IH|]. intros l2. apply peq_refl.
  - cbn [rep_nat Pos.to_nat Pos.iter_op]. change (Pos.to_nat 1) with 1%nat. cbn [rep_nat].
    apply peq_bind; [apply peq_refl|]. intros a. apply peq_refl.
Qed.

Theorem rep_rep_nat A (c : prog A) (n : N) : peq (rep n c) (rep_nat (N.to_nat n) c).
Proof.
  destruct n as [|p]; [apply peq_refl|]. unfold rep. rewrite positive_N_nat. apply rep_pos_nat.
Qed.

(* reading n single bytes = taking n bytes *)
Lemma runo_rep_read_byte known : forall n bs,
  runo (rep_nat n read_byte) known bs =
  match take n bs with
  | Some (b, r) => OOk b r
  | None => OErr (skipn (length bs) bs)
  end.
Proof.
  induction n as [|n IH]; intros bs; cbn [rep_nat].
  - unfold take. cbn. reflexivity.
  - rewrite runo_bind. cbn [read_byte runo]. destruct bs as [|b r0].
    + unfold take; cbn. reflexivity.
    + rewrite runo_bind, IH. unfold take. cbn [length Nat.leb firstn skipn].
      destruct (n <=? length r0)%nat; cbn; reflexivity.
Qed.
