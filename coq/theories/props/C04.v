(* C04 — Compact integers: canonical, minimal, width-compatible bijection.
   Pinned statements only; proofs live in CompactSpec/CompactProofs/CompactTheorems. *)
Require Import Scale.Bytes Scale.Eres Scale.Prog Scale.ProgMore Scale.CompactImpl Scale.CompactSpec
  Scale.CompactProofs Scale.CompactTheorems.

(* the code's encoder (per width, with its casts and shifts) produces the specification form *)
Theorem C04_enc_is_spec : forall B v, okwidth B -> v < 2 ^ (8 * B) ->
  enc_compact B v = EOk (spec_compact v).
Proof. exact enc_compact_spec. Qed.

(* the advertised compact length is the produced length *)
Theorem C04_len_is_length : forall B v, okwidth B -> v < 2 ^ (8 * B) ->
  len_compact B v = N.of_nat (length (spec_compact v)).
Proof. exact len_compact_spec. Qed.

(* shortest form: 1 / 2 / 4 bytes by class, else tag + minimal little-endian bytes *)
Theorem C04_spec_length : forall v,
  length (spec_compact v) =
  if v <? 2 ^ 6 then 1%nat else if v <? 2 ^ 14 then 2%nat else if v <? 2 ^ 30 then 4%nat
  else S (byte_len v).
Proof. exact spec_compact_length. Qed.

Theorem C04_big_mode_minimal : forall v, 2 ^ 30 <= v ->
  (4 <= byte_len v)%nat /\ 256 ^ (N.of_nat (byte_len v) - 1) <= v < 256 ^ N.of_nat (byte_len v).
Proof. exact spec_compact_big_minimal. Qed.

(* the code's decoder accepts a byte string iff it begins with exactly the canonical
   form of a value that fits the width, and returns that value and the remainder;
   independently of whether the input knows its length *)
Theorem C04_dec_iff : forall B known bs v rest, okwidth B ->
  (oview (runo (dec_compact B) known bs) = OOk v rest <->
   v < 2 ^ (8 * B) /\ bs = spec_compact v ++ rest).
Proof. exact compact_dec_iff. Qed.

Theorem C04_width_compat : forall B B' v, okwidth B -> okwidth B' ->
  v < 2 ^ (8 * B) -> v < 2 ^ (8 * B') -> enc_compact B v = enc_compact B' v.
Proof. exact compact_width_compat. Qed.

Theorem C04_injective_prefix_free : forall a b ra rb, a < 2 ^ 128 -> b < 2 ^ 128 ->
  spec_compact a ++ ra = spec_compact b ++ rb -> a = b /\ ra = rb.
Proof. exact spec_compact_inj. Qed.

Theorem C04_no_panic : forall B, okwidth B ->
  (forall v, v < 2 ^ (8 * B) -> enc_compact B v <> EPanic) /\
  (forall known bs, runo (dec_compact B) known bs <> OPanic /\ runo (dec_compact B) known bs <> ONoFuel).
Proof.
  intros B HB. split; [intros v Hv; now apply enc_compact_no_panic|intros; now apply compact_dec_no_panic].
Qed.

(* non-vacuity: the hypotheses are met by non-trivial instances *)
Example C04_nonvacuous :
  okwidth 8 /\ 1234567890123 < 2 ^ (8 * 8) /\
  enc_compact 8 1234567890123 = EOk (spec_compact 1234567890123) /\
  length (spec_compact 1234567890123) = 7%nat /\
  oview (runo (dec_compact 8) true (spec_compact 1234567890123 ++ [x2a])) = OOk 1234567890123 [x2a].
Proof. unfold okwidth. repeat split; try (vm_compute; reflexivity); auto. Qed.

Print Assumptions C04_enc_is_spec.
Print Assumptions C04_len_is_length.
Print Assumptions C04_spec_length.
Print Assumptions C04_big_mode_minimal.
Print Assumptions C04_dec_iff.
Print Assumptions C04_width_compat.
Print Assumptions C04_injective_prefix_free.
Print Assumptions C04_no_panic.
