(* C02 — decode (encode v) = v, consuming exactly the encoding. *)
Require Import Scale.Bytes Scale.Eres Scale.Prog Scale.ProgFacts Scale.ProgMore Scale.Chunks Scale.Monitors Scale.CompactImpl
  Scale.CompactSpec Scale.CompactProofs Scale.CompactTheorems Scale.Utf8 Scale.Codec Scale.CodecEnc Scale.CodecDec Scale.CodecRt Scale.CodecMore Scale.TraceEq Scale.Depth Scale.Rec Scale.RecRt.

(* for every type of the universe (bit sequences included), every well-formed value, every suffix, known or
   unknown remaining length: decoding the encoding followed by anything returns the value
   (heaps as sorted multisets: canon) and leaves exactly the suffix *)
Theorem C02_roundtrip : forall t v bs known rest,
  wf_ty t = true -> wf t v = true -> enc_spec t v = EOk bs ->
  runo (dec t) known (bs ++ rest) = OOk (canon t v) rest.
Proof. exact roundtrip. Qed.

(* the same for what the implementation model produces *)
Theorem C02_roundtrip_impl : forall t v bs known rest,
  wf_ty t = true -> wf t v = true -> enc_impl t v = EOk bs ->
  runo (dec t) known (bs ++ rest) = OOk (canon t v) rest.
Proof. intros t v bs known rest Ht Hw He. rewrite enc_impl_is_spec in He by exact Hw. now apply roundtrip. Qed.

(* through the chunked readers: 16 KiB chunks = one read, for every count and chunk size *)
Theorem C02_chunked_read_is_one_read : forall B n known bs, 1 <= B <= 16 ->
  oview (runo (bulk_bytes B n) known bs) = rd (n * B) bs.
Proof. exact bulk_spec. Qed.

Theorem C02_chunked_items_is_repetition : forall esz n c, esz <= max_prealloc ->
  oeq (chunked_items esz n c) (rep n c).
Proof. exact chunked_items_is_rep. Qed.

(* sets and maps come back as they were (their canonical form is themselves) *)
Theorem C02_sorted_is_canonical : forall keyed l, strictly_sorted keyed l = true -> canon_set keyed l = l.
Proof. exact canon_set_id. Qed.

Definition ex_t := TColl CMap 48 (TPair (TPrim 1) (TPair (TColl CVec 2 (TPrim 2)) TUnit)).
Definition ex_v := VSeq [VPair (VN 1) (VPair (VSeq [VN 513]) VUnit); VPair (VN 7) (VPair (VSeq []) VUnit)].
Example C02_nonvacuous :
  wf_ty ex_t = true /\ wf ex_t ex_v = true /\
  enc_spec ex_t ex_v = EOk [x08; x01; x04; x01; x02; x07; x00] /\
  runo (dec ex_t) true ([x08; x01; x04; x01; x02; x07; x00] ++ [xff]) = OOk ex_v [xff].
Proof. repeat split; vm_compute; reflexivity. Qed.

(* recursive derived types (Rec.v): decoding the encoding of a value of a recursive enum, with any
   recursion budget that covers the value, returns the value and leaves what follows; the variant
   indices must be below 256 and pairwise distinct, which derive_accepts guarantees (C17) *)
Theorem C02_recursive_roundtrip : forall d F F' v bs known rest,
  wf_rdef d = true -> ridx_ok d = true -> (F <= F')%nat -> renc F d v = EOk bs ->
  runo (rdec F' d) known (bs ++ rest) = OOk (rcanon F d v) rest.
Proof. exact rec_roundtrip_any_budget. Qed.

(* bit sequences are inside C02_roundtrip *)
Example C02_bits_nonvacuous :
  let t := TBits 2 true in
  let v := VBits [true; false; true; true; false; false; false; false; true; true; true; false; false; false; false; false; true] in
  wf_ty t = true /\ wf t v = true /\ enc_spec t v = EOk [x44; xe0; xb0; x00; x80] /\
  runo (dec t) false [x44; xe0; xb0; x00; x80; xee] = OOk v [xee].
Proof. repeat split; vm_compute; reflexivity. Qed.

Example C02_recursive_nonvacuous :
  let d : rdef := [(0, [FTy (TPrim 1)]); (1, [FBox 32]); (2, [FBox 32; FTy (TPrim 2); FOptBox 32]); (5, [FVec 32])] in
  let leaf n := VVar 0 (VPair (VN n) VUnit) in
  let v := VVar 3 (VPair (VSeq [VVar 1 (VPair (leaf 7) VUnit); VVar 2 (VPair (leaf 1) (VPair (VN 513) (VPair (VSome (leaf 2)) VUnit)))]) VUnit) in
  wf_rdef d = true /\ ridx_ok d = true /\
  renc 4 d v = EOk [x05; x08; x01; x00; x07; x02; x00; x01; x01; x02; x01; x00; x02].
Proof. repeat split; vm_compute; reflexivity. Qed.

Print Assumptions C02_roundtrip.
Print Assumptions C02_roundtrip_impl.
Print Assumptions C02_chunked_read_is_one_read.
Print Assumptions C02_chunked_items_is_repetition.
Print Assumptions C02_sorted_is_canonical.
Print Assumptions C02_recursive_roundtrip.
