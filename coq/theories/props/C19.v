(* C19 — the counting input reports exactly the bytes delivered. *)
Require Import Scale.Bytes Scale.Eres Scale.Prog Scale.ProgFacts Scale.ProgMore Scale.Chunks Scale.Monitors Scale.CompactImpl
  Scale.CompactSpec Scale.CompactProofs Scale.CompactTheorems Scale.Utf8 Scale.Codec Scale.CodecEnc Scale.CodecDec Scale.CodecRt Scale.CodecMore.

(* for EVERY decoder program and input, success or failure: the count equals the number of
   bytes the wrapped input has delivered (input length minus what it still holds),
   saturating at u64::MAX instead of wrapping; the result is the unwrapped result *)
Theorem C19_count_exact : forall A (p : prog A) known bs,
  match run counted p known bs 0, runo p known bs with
  | ROk v rest c, OOk v' rest' =>
      v = v' /\ rest = rest' /\ c = N.min u64max (N.of_nat (length bs) - N.of_nat (length rest))
  | RErr c, OErr rest => c = N.min u64max (N.of_nat (length bs) - N.of_nat (length rest))
  | RPanic, OPanic => True
  | RNoFuel, ONoFuel => True
  | _, _ => False
  end.
Proof. exact counted_exact. Qed.

(* the step function: failed reads add nothing (run never steps the monitor on a failed
   read), successful reads add their size, saturating *)
Theorem C19_feed : forall evs c, c <= u64max ->
  feed counted c evs = (N.min u64max (c + sum_reads evs), true).
Proof. exact counted_feed. Qed.

(* after a successful decode of an encoding the count is the encoded length *)
Theorem C19_count_is_encoded_length : forall t v bs known rest,
  wf_ty t = true -> wf t v = true -> enc_spec t v = EOk bs ->
  N.of_nat (length bs) <= u64max ->
  exists v', run counted (dec t) known (bs ++ rest) 0 = ROk v' rest (N.of_nat (length bs)).
Proof.
  intros t v bs known rest Ht Hw He Hl.
  pose proof (counted_exact val (dec t) known (bs ++ rest)) as H.
  rewrite (roundtrip t v bs known rest Ht Hw He) in H.
  destruct (run counted (dec t) known (bs ++ rest) 0) as [v' r c|c| |]; try contradiction.
  destruct H as (-> & -> & ->). exists (canon t v). f_equal. rewrite app_length. lia.
Qed.

Example C19_nonvacuous :
  run counted (dec (TColl CVec 2 (TPrim 2))) true [x08; x01; x00; x02; x00; xff] 0 = ROk (VSeq [VN 1; VN 2]) [xff] 5 /\
  run counted (dec (TColl CVec 2 (TPrim 2))) false [x08; x01; x00; x02] 0 = RErr 1 /\
  feed counted (u64max - 1) [ERead 5] = (u64max, true).
Proof. repeat split; vm_compute; reflexivity. Qed.

Print Assumptions C19_count_exact.
Print Assumptions C19_feed.
Print Assumptions C19_count_is_encoded_length.
