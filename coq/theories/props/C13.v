(* C13 — declared maximum / constant / fixed encoded lengths are true.
   mel / cel / fixed_size are the formulas of src/max_encoded_len.rs,
   src/const_encoded_len.rs, Decode::encoded_fixed_size and the derive (fields in their
   selected representation: a compact field contributes the bound of Compact<T>, an
   encoded_as field the bound of that type, skipped fields and variants nothing) as
   functions of the type descriptor; the check compares them with what the implementation
   reports for every registry and generated type on every run. *)
Require Import Scale.Bytes Scale.Eres Scale.Prog Scale.CompactSpec Scale.Codec Scale.CodecEnc Scale.CodecDec Scale.CodecRt Scale.CodecMore Scale.Mel.

Theorem C13_mel_sound : forall t m v bs, mel t = Some m -> m < usize_max -> wf t v = true ->
  enc_spec t v = EOk bs -> N.of_nat (length bs) <= m.
Proof. exact mel_sound. Qed.

Theorem C13_cel_exact : forall t m, cel t = true -> mel t = Some m -> m < usize_max ->
  forall v bs, wf t v = true -> enc_spec t v = EOk bs -> N.of_nat (length bs) = m.
Proof. exact cel_exact. Qed.

Theorem C13_fixed_size_exact : forall t s, fixed_size t = Some s ->
  forall v bs, wf t v = true -> enc_spec t v = EOk bs -> N.of_nat (length bs) = s.
Proof. exact fixed_size_exact. Qed.

(* the compact bound table is tight and sufficient for every width *)
Theorem C13_compact_bound : forall B n, okB B = true -> n < 2 ^ (8 * B) ->
  N.of_nat (length (spec_compact n)) <= mel_compact B.
Proof. exact spec_compact_len_le. Qed.

Example C13_nonvacuous :
  (* struct { #[codec(compact)] a: u32 } reports 5 (the defect F2 reported 4) *)
  mel (TPair (TCompact 4) TUnit) = Some 5 /\
  enc_spec (TPair (TCompact 4) TUnit) (VPair (VN 4294967295) VUnit) = EOk [x03; xff; xff; xff; xff] /\
  mel (TEnum (VsCons 0 TUnit (VsCons 1 (TPair (TPrim 8) TUnit) VsNil))) = Some 9 /\
  cel (TArray 3 (TPair (TPrim 2) (TPair TBool TUnit))) = true /\
  mel (TArray 3 (TPair (TPrim 2) (TPair TBool TUnit))) = Some 9.
Proof. repeat split; vm_compute; reflexivity. Qed.

Print Assumptions C13_mel_sound.
Print Assumptions C13_cel_exact.
Print Assumptions C13_fixed_size_exact.
Print Assumptions C13_compact_bound.
