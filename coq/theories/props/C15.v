(* C15 — appending to an encoded sequence equals re-encoding the whole.
   Items are abstract (n items whose encodings concatenate to p): the statements hold for
   any item type, alias form and zero-sized items. *)
Require Import Scale.Bytes Scale.Eres Scale.Prog Scale.ProgMore Scale.CompactImpl Scale.CompactSpec
  Scale.CompactProofs Scale.CompactTheorems Scale.Append.

(* appending n items to the encoding of a sequence of c items (body = its items' bytes):
   the new count in canonical form, the old items, the new items - across every
   prefix-width change (both branches of the code: in-place rewrite and reallocation) *)
Theorem C15_append_spec : forall c n body p, c + n <= u32max ->
  append (spec_compact c ++ body) n p = AOk (spec_compact (c + n) ++ body ++ p).
Proof. exact append_spec. Qed.

Theorem C15_append_new : forall n p,
  append [] n p = if n <=? u32max then AOk (spec_compact n ++ p) else AErr.
Proof. exact append_new. Qed.

Theorem C15_overflow_is_error : forall c n body p, c <= u32max -> u32max < c + n ->
  append (spec_compact c ++ body) n p = AErr.
Proof. exact append_overflow_err. Qed.

Theorem C15_bad_prefix_is_error : forall vec n p, vec <> [] ->
  (forall c body, c <= u32max -> vec <> spec_compact c ++ body) -> append vec n p = AErr.
Proof. exact append_bad_prefix_err. Qed.

Theorem C15_no_panic : forall vec n p, append vec n p <> APanic.
Proof. exact append_no_panic. Qed.

(* every history of appends, from an encoded sequence or from empty input *)
Theorem C15_history : forall ops c body, c + total ops <= u32max ->
  append_history (AOk (spec_compact c ++ body)) ops = AOk (spec_compact (c + total ops) ++ body ++ payload ops).
Proof. exact append_history_spec. Qed.

Theorem C15_history_from_empty : forall n p ops, n + total ops <= u32max ->
  append_history (append [] n p) ops = AOk (spec_compact (n + total ops) ++ p ++ payload ops).
Proof. exact append_history_from_empty. Qed.

Example C15_nonvacuous :
  append [xfc; x01; x02] 1 [x09] = AOk [x01; x01; x01; x02; x09] /\
  append [x04] 4294967296 [] = AErr /\
  append [x04] 4294967295 [] = AErr /\
  append [x04] 4294967294 [] = AOk [x03; xff; xff; xff; xff] /\
  append [xff] 1 [x00] = AErr.
Proof. repeat split; vm_compute; reflexivity. Qed.

Print Assumptions C15_append_spec.
Print Assumptions C15_append_new.
Print Assumptions C15_overflow_is_error.
Print Assumptions C15_bad_prefix_is_error.
Print Assumptions C15_no_panic.
Print Assumptions C15_history.
Print Assumptions C15_history_from_empty.
