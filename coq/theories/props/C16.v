(* C16 — types declared to encode alike really do. One theorem per impl family; the check
   maps every `impl ... EncodeLike<..> for ..` header found in /repo/src to one of them. *)
Require Import Scale.Bytes Scale.Eres Scale.Prog Scale.Codec Scale.CodecEnc Scale.CodecDec Scale.CodecRt Scale.CodecLike.

Theorem C16_holders : forall c sz t, like c (TBox sz t) t.
Proof. exact like_box. Qed.
Theorem C16_holders_nested : forall c sz sz' t u, like c t u -> like c (TBox sz t) (TBox sz' u).
Proof. exact like_box_box. Qed.
Theorem C16_sequences : forall c k k' sz sz' t u, like c t u -> like c (TColl k sz t) (TColl k' sz' u).
Proof. exact like_coll. Qed.
Theorem C16_string_bytes : forall c sz l bs, bytes_of_vals l = Some bs ->
  enc c TStr (VSeq l) = enc c (TColl CVec sz (TPrim 1)) (VSeq l).
Proof. exact like_str_bytes. Qed.
Theorem C16_option : forall c t u, like c t u -> like c (TOption t) (TOption u).
Proof. exact like_option. Qed.
Theorem C16_result : forall c t u e f, like c t u -> like c e f -> like c (TResult t e) (TResult u f).
Proof. exact like_result. Qed.
Theorem C16_array : forall c n t u, like c t u -> like c (TArray n t) (TArray n u).
Proof. exact like_array. Qed.
Theorem C16_tuple : forall c a b a' b', like c a a' -> like c b b' -> like c (TPair a b) (TPair a' b').
Proof. exact like_pair. Qed.
Theorem C16_one_tuple : forall c t v, enc c (TPair t TUnit) (VPair v VUnit) = enc c t v.
Proof. exact like_one_tuple. Qed.
Theorem C16_decodes_as_target : forall a b v bs known rest,
  like spec_c a b -> wf_ty b = true -> wf b v = true -> enc_spec a v = EOk bs ->
  runo (dec b) known (bs ++ rest) = OOk (canon b v) rest.
Proof. exact like_decodes. Qed.

Example C16_nonvacuous :
  enc_spec (TColl CList 24 (TBox 2 (TPrim 2))) (VSeq [VN 1; VN 2]) = enc_spec (TColl CVec 2 (TPrim 2)) (VSeq [VN 1; VN 2]) /\
  enc_spec (TColl CVec 2 (TPrim 2)) (VSeq [VN 1; VN 2]) = EOk [x08; x01; x00; x02; x00].
Proof. split; vm_compute; reflexivity. Qed.

Print Assumptions C16_holders.
Print Assumptions C16_holders_nested.
Print Assumptions C16_sequences.
Print Assumptions C16_string_bytes.
Print Assumptions C16_option.
Print Assumptions C16_result.
Print Assumptions C16_array.
Print Assumptions C16_tuple.
Print Assumptions C16_one_tuple.
Print Assumptions C16_decodes_as_target.
