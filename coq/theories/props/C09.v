(* C09 — memory requested while decoding is bounded by the input supplied.
   HReal events are the heap reservations the decoder (or the container it fills) makes:
   reserve_exact of each vector chunk, the Box layout, one list node per decoded element, at
   most one tree node per decoded element.  The check compares their sum with the measured
   peak of live heap bytes of the real decode on every case. *)
Require Import Scale.Bytes Scale.Eres Scale.Prog Scale.ProgFacts Scale.ProgMore Scale.Real
  Scale.Codec Scale.CodecEnc Scale.CodecDec Scale.CodecReal.

(* for every well-formed type whose containers store elements occupying at least one input
   byte (pw), EVERY byte string - including counts claiming 2^32-1 elements - known or unknown
   remaining length: the reservations are at most rate * (input length) + allowance, where
   rate and allowance are functions of the type only (element sizes, the 16 KiB preallocation
   window, box sizes per nesting level) *)
Theorem C09_reservations_bounded_by_input : forall t known bs, wf_ty t = true -> pw t = true ->
  real_sum (snd (runt (dec t) known bs)) <= cr t * N.of_nat (length bs) + N.max (cs t) (cf t).
Proof. exact reservations_bounded_by_input. Qed.

(* the finer statement: against the bytes actually read, separately for success and failure *)
Theorem C09_reservations_bounded_by_reads : forall t, wf_ty t = true -> pw t = true ->
  abound (cs t) (cf t) (cr t) (minw t) (dec t).
Proof. exact (proj1 dec_abound_mut). Qed.

(* each single chunk reservation is within the preallocation window *)
Theorem C09_chunk_within_window : forall sz k, sz <= P -> k <= chunk_len sz -> sat_mul k sz <= P.
Proof. exact chunk_bound. Qed.

(* with a known length the bulk path reserves nothing unless the bytes are there *)
Theorem C09_bulk_guarded : forall B n bs, 1 <= B <= 16 -> avail (n * B) bs = false ->
  runt (bulk_bytes B n) true bs = (OErr bs, []).
Proof.
  intros B n bs HB H. unfold bulk_bytes. cbn [need bindp runt]. rewrite H. reflexivity.
Qed.

(* the hypothesis pw is necessary: a zero-wire element type makes the reservation follow the
   claimed count (known finding F4) *)
Theorem C09_zero_wire_refuted :
  exists t bs, wf_ty t = true /\ pw t = false /\ length bs = 2%nat /\
    real_sum (snd (runt (dec t) true bs)) = 8 * 4096 /\
    ~ (real_sum (snd (runt (dec t) true bs)) <= cr t * N.of_nat (length bs) + N.max (cs t) (cf t)).
Proof.
  exists (TColl CVec 8 (TBox 0 TUnit)), [x01; x40].
  split; [reflexivity|]. split; [reflexivity|]. split; [reflexivity|].
  assert (E: real_sum (snd (runt (dec (TColl CVec 8 (TBox 0 TUnit))) true [x01; x40])) = 8 * 4096) by (vm_compute; reflexivity).
  split; [exact E|]. rewrite E. vm_compute. intros H. apply H. reflexivity.
Qed.

Example C09_nonvacuous :
  let t := TColl CVec 24 (TColl CVec 1 (TPrim 1)) in
  wf_ty t = true /\ pw t = true /\ cr t = 25 /\ N.max (cs t) (cf t) = 2 * 16384 /\
  real_sum (snd (runt (dec t) false [x03; xff; xff; xff; xff; x04; x2a])) = 16368 + 1.
Proof. repeat split; vm_compute; reflexivity. Qed.

Print Assumptions C09_reservations_bounded_by_input.
Print Assumptions C09_reservations_bounded_by_reads.
Print Assumptions C09_chunk_within_window.
Print Assumptions C09_bulk_guarded.
Print Assumptions C09_zero_wire_refuted.
