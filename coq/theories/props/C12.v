(* C12 — memory-limited decoding has an exact threshold U, the tracked usage. *)
Require Import Scale.Bytes Scale.Eres Scale.Prog Scale.ProgFacts Scale.ProgMore Scale.Chunks Scale.Monitors Scale.CompactImpl
  Scale.CompactSpec Scale.CompactProofs Scale.CompactTheorems Scale.Utf8 Scale.Codec Scale.CodecEnc Scale.CodecDec Scale.CodecRt Scale.CodecMore Scale.TraceEq Scale.Depth Scale.Mem Scale.Rec Scale.RecRt.

(* for EVERY decoder program, input and limit L, with U the saturating sum of the sizes the
   decode announces: L > U is transparent; if anything was announced (in particular if
   U > 0) L <= U fails *)
Theorem C12_threshold : forall A (p : prog A) known bs L,
  let '(o, evs) := runt p known bs in
  let U := used_after 0 evs in
  (U < L -> exists u, run (memmon L) p known bs 0 = lift_out o u) /\
  (has_alloc evs = true -> L <= U -> exists u, run (memmon L) p known bs 0 = RErr u) /\
  (0 < U -> has_alloc evs = true).
Proof. exact mem_limit_threshold. Qed.

(* what the wrapper reports with an unlimited budget is U *)
Theorem C12_used_mem_is_U : forall A (p : prog A) known bs,
  let '(o, evs) := runt p known bs in
  used_after 0 evs < usize_max ->
  run (memmon usize_max) p known bs 0 = lift_out o (used_after 0 evs).
Proof. exact mem_used_is_U. Qed.

Theorem C12_transparent : forall A (p : prog A) known bs L,
  match run (memmon L) p known bs 0 with
  | ROk v rest _ => runo p known bs = OOk v rest
  | RErr _ => True
  | RPanic => runo p known bs = OPanic
  | RNoFuel => runo p known bs = ONoFuel
  end.
Proof. intros. apply run_transparent. Qed.

(* the B-tree estimate covers at least half of the entries' memory: 2 * estimate >= n * entry,
   given the leaf node holds 11 entries *)
Theorem C12_btree_estimate_half : forall leaf entry n, 11 * entry <= leaf -> leaf + 96 <= 2 ^ 31 -> n < 2 ^ 32 ->
  n * entry <= 2 * btree_mem leaf n.
Proof.
  intros leaf entry n Hl Hm Hn. unfold btree_mem.
  destruct (N.eqb_spec n 0) as [->|Hn0]; [lia|].
  pose proof (N.div_mod n 10 ltac:(lia)) as Hd. pose proof (N.mod_lt n 10 ltac:(lia)) as Hm'.
  destruct (N.eqb_spec (n / 10) 0) as [E|E].
  - assert (n <= 9) by lia.
    assert (n * entry <= 9 * entry) by (apply N.mul_le_mono_r; lia). lia.
  - set (q := n / 10) in *. assert (H19: n <= 19 * q) by lia.
    assert (H1: n * entry <= 19 * q * entry) by (apply N.mul_le_mono_r; lia).
    assert (H2: q * (11 * entry) <= q * leaf) by (apply N.mul_le_mono_l; lia).
    change (2 ^ 31) with 2147483648 in Hm. change (2 ^ 32) with 4294967296 in Hn.
    assert (H3: q * (leaf + 96) <= 4294967296 * 2147483648).
    { apply N.mul_le_mono; lia. }
    unfold sat_mul, usize_max, u64max. rewrite N.min_r by lia. lia.
Qed.

Example C12_nonvacuous :
  let t := TPair (TColl CVec 4 (TPrim 4)) (TPair (TBox 8 (TPrim 8)) TUnit) in
  let bs := [x08; x01; x00; x00; x00; x02; x00; x00; x00; x09; x00; x00; x00; x00; x00; x00; x00] in
  used_after 0 (snd (runt (dec t) true bs)) = 16 /\
  run (memmon 17) (dec t) true bs 0 = ROk (VPair (VSeq [VN 1; VN 2]) (VPair (VN 9) VUnit)) [] 16 /\
  run (memmon 16) (dec t) true bs 0 = RErr 16.
Proof. repeat split; vm_compute; reflexivity. Qed.

(* value side: for every bit-free universe type and well-formed value, the sizes announced while
   decoding its encoding sum to the closed form [ann]: count x element size per sequence, node size
   per list element, the B-tree estimate per map/set, the boxed size per Box/Rc/Arc, the length per
   string, summed over the nesting; zero for values with none of these *)
Theorem C12_tracked_usage_closed_form : forall t v bs known rest,
  wf_ty t = true -> wf t v = true -> enc_spec t v = EOk bs -> ann t v <= usize_max ->
  used_after 0 (snd (runt (dec t) known (bs ++ rest))) = ann t v.
Proof. exact tracked_usage_is_closed_form. Qed.

(* hence the threshold of memory-limited decoding of an encoding is that closed form *)
Theorem C12_limit_on_encodings : forall t v bs known rest L,
  wf_ty t = true -> wf t v = true -> enc_spec t v = EOk bs -> ann t v <= usize_max ->
  (ann t v < L -> exists u, run (memmon L) (dec t) known (bs ++ rest) 0 = ROk (canon t v) rest u) /\
  (0 < ann t v -> L <= ann t v -> exists u, run (memmon L) (dec t) known (bs ++ rest) 0 = RErr u).
Proof. exact mem_limit_on_encodings. Qed.

(* and it covers the heap payload of the value: exactly for sequences, lists, boxes and strings,
   within a factor of two for maps and sets (an entry being at most a leaf node over its 11 slots) *)
Theorem C12_payload_covered : forall t, wf_ty t = true -> forall v, wf t v = true -> payload t v <= 2 * ann t v.
Proof. exact (proj1 payload_within_twice_announced). Qed.

Example C12_value_nonvacuous :
  let t := TPair (TColl CVec 16 (TBox 8 (TPrim 8))) (TPair (TColl CMap 192 (TPair (TPrim 1) (TPair (TPrim 1) TUnit))) (TPair TStr TUnit)) in
  let v := VPair (VSeq [VN 1; VN 2]) (VPair (VSeq [VPair (VN 1) (VPair (VN 7) VUnit)]) (VPair (VSeq [VN 104; VN 105]) VUnit)) in
  wf_ty t = true /\ wf t v = true /\
  (exists bs, enc_spec t v = EOk bs) /\ ann t v = 2 * 16 + 2 * 8 + 192 + 2 /\ payload t v = 2 * 16 + 2 * 8 + 17 + 2.
Proof. repeat split; try (vm_compute; reflexivity). eexists. vm_compute. reflexivity. Qed.

(* recursive derived types: the same closed form (boxed size per Box<Self> / Option<Box<Self>>,
   count x element size per Vec<Self>, plus the universe-typed fields, summed over the recursion)
   is the threshold of memory-limited decoding of the encoding of a recursive value *)
Theorem C12_recursive_limit_on_encodings : forall d F v bs known rest L,
  wf_rdef d = true -> ridx_ok d = true -> renc F d v = EOk bs -> rann F d v <= usize_max ->
  (rann F d v < L -> exists u, run (memmon L) (rdec F d) known (bs ++ rest) 0 = ROk (rcanon F d v) rest u) /\
  (0 < rann F d v -> L <= rann F d v -> exists u, run (memmon L) (rdec F d) known (bs ++ rest) 0 = RErr u).
Proof. exact rec_mem_limit_on_encodings. Qed.

Print Assumptions C12_threshold.
Print Assumptions C12_used_mem_is_U.
Print Assumptions C12_transparent.
Print Assumptions C12_btree_estimate_half.
Print Assumptions C12_tracked_usage_closed_form.
Print Assumptions C12_limit_on_encodings.
Print Assumptions C12_payload_covered.
Print Assumptions C12_recursive_limit_on_encodings.
