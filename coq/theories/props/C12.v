(* C12 — memory-limited decoding has an exact threshold U, the tracked usage. *)
Require Import Scale.Bytes Scale.Eres Scale.Prog Scale.ProgFacts Scale.ProgMore Scale.Chunks Scale.Monitors Scale.CompactImpl
  Scale.CompactSpec Scale.CompactProofs Scale.CompactTheorems Scale.Utf8 Scale.Codec Scale.CodecEnc Scale.CodecDec Scale.CodecRt Scale.CodecMore.

(* for EVERY decoder program, input and limit L, with U the saturating sum of the sizes the
   decode announces: L > U is transparent; if anything was announced (in particular if
   U > 0) L <= U fails *)
Theorem C12_threshold : forall A (p : prog A) known bs L,
  let '(o, evs) := runt p known bs in
  let U := used_after 0 evs in
  (U < L -> exists u, run (memmon L) p known bs 0 = lift_out o u) /\
  (has_alloc evs = true -> L <= U -> exists u, run (memmon L) p known bs 0 = RErr u) /\
  (0 < U -> has_alloc evs = true).
Proof. exact mem_limit_threshold. Qed.

(* what the wrapper reports with an unlimited budget is U *)
Theorem C12_used_mem_is_U : forall A (p : prog A) known bs,
  let '(o, evs) := runt p known bs in
  used_after 0 evs < usize_max ->
  run (memmon usize_max) p known bs 0 = lift_out o (used_after 0 evs).
Proof. exact mem_used_is_U. Qed.

Theorem C12_transparent : forall A (p : prog A) known bs L,
  match run (memmon L) p known bs 0 with
  | ROk v rest _ => runo p known bs = OOk v rest
  | RErr _ => True
  | RPanic => runo p known bs = OPanic
  | RNoFuel => runo p known bs = ONoFuel
  end.
Proof. intros. apply run_transparent. Qed.

(* the B-tree estimate covers at least half of the entries' memory: 2 * estimate >= n * entry,
   given the leaf node holds 11 entries *)
Theorem C12_btree_estimate_half : forall leaf entry n, 11 * entry <= leaf -> leaf + 96 <= 2 ^ 31 -> n < 2 ^ 32 ->
  n * entry <= 2 * btree_mem leaf n.
Proof.
  intros leaf entry n Hl Hm Hn. unfold btree_mem.
  destruct (N.eqb_spec n 0) as [->|Hn0]; [lia|].
  pose proof (N.div_mod n 10 ltac:(lia)) as Hd. pose proof (N.mod_lt n 10 ltac:(lia)) as Hm'.
  destruct (N.eqb_spec (n / 10) 0) as [E|E].
  - assert (n <= 9) by lia.
    assert (n * entry <= 9 * entry) by (apply N.mul_le_mono_r; lia). lia.
  - set (q := n / 10) in *. assert (H19: n <= 19 * q) by lia.
    assert (H1: n * entry <= 19 * q * entry) by (apply N.mul_le_mono_r; lia).
    assert (H2: q * (11 * entry) <= q * leaf) by (apply N.mul_le_mono_l; lia).
    change (2 ^ 31) with 2147483648 in Hm. change (2 ^ 32) with 4294967296 in Hn.
    assert (H3: q * (leaf + 96) <= 4294967296 * 2147483648).
    { apply N.mul_le_mono; lia. }
    unfold sat_mul, usize_max, u64max. rewrite N.min_r by lia. lia.
Qed.

Example C12_nonvacuous :
  let t := TPair (TColl CVec 4 (TPrim 4)) (TPair (TBox 8 (TPrim 8)) TUnit) in
  let bs := [x08; x01; x00; x00; x00; x02; x00; x00; x00; x09; x00; x00; x00; x00; x00; x00; x00] in
  used_after 0 (snd (runt (dec t) true bs)) = 16 /\
  run (memmon 17) (dec t) true bs 0 = ROk (VPair (VSeq [VN 1; VN 2]) (VPair (VN 9) VUnit)) [] 16 /\
  run (memmon 16) (dec t) true bs 0 = RErr 16.
Proof. repeat split; vm_compute; reflexivity. Qed.

Print Assumptions C12_threshold.
Print Assumptions C12_used_mem_is_U.
Print Assumptions C12_transparent.
Print Assumptions C12_btree_estimate_half.
