(* C18 — length peeking and skipping agree with full decoding. *)
Require Import Scale.Bytes Scale.Eres Scale.Prog Scale.ProgFacts Scale.ProgMore Scale.Chunks Scale.CompactImpl
  Scale.CompactSpec Scale.Codec Scale.CodecEnc Scale.CodecDec Scale.CodecRt Scale.CodecMore.

(* for every well-formed type and every byte string, known or unknown input length: skip
   succeeds exactly when decode succeeds and leaves exactly the same remaining input
   (the only non-default skip, arrays with a fixed element size, goes element by element
   while the array decoder may read in bulk) *)
Theorem C18_skip_is_decode : forall t known, wf_ty t = true -> forall bs,
  forget (runo (skip t) known bs) = forget (runo (dec t) known bs).
Proof. exact skip_is_decode. Qed.

(* reading only the count of an encoded collection returns its true length *)
Theorem C18_len_peek : forall k sz t l bs rest, wf (TColl k sz t) (VSeq l) = true ->
  enc_spec (TColl k sz t) (VSeq l) = EOk bs -> peek_len (bs ++ rest) = OOk (N.of_nat (length l)) [].
Proof. exact peek_len_correct. Qed.

(* ... also through a tuple that starts with one *)
Theorem C18_len_peek_tuple : forall k sz t l b vb bs rest,
  wf (TPair (TColl k sz t) b) (VPair (VSeq l) vb) = true ->
  enc_spec (TPair (TColl k sz t) b) (VPair (VSeq l) vb) = EOk bs -> peek_len (bs ++ rest) = OOk (N.of_nat (length l)) [].
Proof. exact peek_len_tuple. Qed.

Example C18_nonvacuous :
  forget (runo (skip (TArray 2 (TArray 2 TBool))) true [x01; x00; x02; x01]) = OErr [] /\
  forget (runo (skip (TArray 2 (TPrim 2))) false [x01; x00; x02; x01; xff]) = OOk tt [xff] /\
  peek_len [x0c; x01; x02; x03] = OOk 3 [].
Proof. repeat split; vm_compute; reflexivity. Qed.

Print Assumptions C18_skip_is_decode.
Print Assumptions C18_len_peek.
Print Assumptions C18_len_peek_tuple.
