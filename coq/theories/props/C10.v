(* C10 — failed or panicking decodes release everything exactly once.
   Ledger.v models the ownership protocol of the decoders: the drop guard of in-place array
   decoding, growing vectors dropped on the error path, Box allocate/decode-in-place/free,
   fields already built dropped when a later field fails; shapes nest arbitrarily. *)
Require Import Scale.Bytes Scale.Ledger.
Local Open Scope nat_scope.

(* for EVERY shape (any N, any nesting depth) and EVERY failure position (error or panic in
   the [fail]-th element decoder, or no failure): after the decode - and, if it succeeded,
   after dropping the value - every element was constructed at most once and dropped exactly
   as many times as it was constructed, every heap block allocated at most once and freed
   exactly as many times as it was allocated *)
Theorem C10_ledger_balanced : forall fail s i,
  cnt (is_new i) (experiment fail s) = cnt (is_drop i) (experiment fail s) /\
  (cnt (is_new i) (experiment fail s) <= 1) /\
  cnt (is_alloc i) (experiment fail s) = cnt (is_free i) (experiment fail s) /\
  (cnt (is_alloc i) (experiment fail s) <= 1).
Proof. exact ledger_balanced. Qed.

(* the invariant of a single decode: what it returns owns exactly what was built and not yet
   released, with fresh identities *)
Theorem C10_decode_invariant : forall fail s σ, inv σ (fst (dec fail s σ)) (snd (dec fail s σ)).
Proof. exact dec_inv. Qed.

(* the repaired defect F6 (fix: 5c98763): the in-place decode the derive generated for a
   repr(transparent) struct with more than one field had no guard between fields - modelled as a
   pair whose second component's failure does not release the first: such a composition is NOT
   balanced, which is why the derive must not use it (the harness keeps the witness as a
   regression case) *)
Definition unguarded_pair (fail : nat) (a b : shape) : list lev :=
  match dec fail a (mkSt 0 0 0 []) with
  | (None, σ1) => evs σ1
  | (Some oa, σ1) => match dec fail b σ1 with
                     | (Some ob, σ2) => evs σ2 ++ release (oapp oa ob)
                     | (None, σ2) => evs σ2            (* nothing releases oa *)
                     end
  end.

Theorem C10_transparent_inplace_leak_refuted :
  exists fail a b i, cnt (is_new i) (unguarded_pair fail a b) = 1 /\ cnt (is_drop i) (unguarded_pair fail a b) = 0.
Proof. exists 3, (SArr 3 SEl), SEl, 0. split; vm_compute; reflexivity. Qed.

Example C10_nonvacuous :
  experiment 4 (SBox (SArr 2 (SVec 3 SEl))) =
    [LAlloc 0; LAlloc 1; LNew 0; LNew 1; LNew 2; LAlloc 2; LNew 3; LDrop 3; LFree 2; LDrop 0; LDrop 1; LDrop 2; LFree 1; LFree 0].
Proof. vm_compute. reflexivity. Qed.

Print Assumptions C10_ledger_balanced.
Print Assumptions C10_decode_invariant.
Print Assumptions C10_transparent_inplace_leak_refuted.
