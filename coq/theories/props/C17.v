(* C17 — invalid derive input is rejected at compile time, valid input compiles.
   derive_accepts is the macro's checker as a function of the definition; the check compiles
   generated programs against /repo on every run and compares rustc's verdict with it. *)
Require Import Scale.Bytes Scale.Codec Scale.Derive.

(* accepted iff free of every fault of the statement: for EVERY definition (any number of
   variants, any index attributes / discriminants / skips, any field attributes) *)
Theorem C17_accepts_iff : forall d,
  derive_accepts d = true <->
  match d with
  | DUnion => False
  | DStruct fs => Forall (fun f => field_ok f = true) fs
  | DEnum vs =>
      (length (live vs) <= 256)%nat /\
      Forall (fun x => x <= 255) (eff_indices 0 vs) /\ NoDup (eff_indices 0 vs) /\
      Forall (fun v => Forall (fun f => field_ok f = true) (vfields v)) (live vs)
  end.
Proof. exact derive_accepts_iff. Qed.

(* the two const fn loops of const_eval_check_variant_indexes, as written, decide exactly
   "some index above 255" and "two equal indices" *)
Theorem C17_invalid_index_loop : forall l i, first_invalid l i = None <-> Forall (fun x => x <= 255) l.
Proof. exact first_invalid_none. Qed.
Theorem C17_invalid_index_reported : forall l i k, first_invalid l i = Some k ->
  (i <= k)%nat /\ 255 < nth (k - i) l 0 /\ Forall (fun x => x <= 255) (firstn (k - i) l).
Proof. exact first_invalid_some. Qed.
Theorem C17_duplicate_loop : forall l i, dup_info l i = None <-> NoDup l.
Proof. exact dup_info_none. Qed.

Theorem C17_index_too_big_rejected : forall vs, Exists (fun x => 255 < x) (eff_indices 0 vs) -> derive_accepts (DEnum vs) = false.
Proof. exact rejected_when_index_too_big. Qed.
Theorem C17_collision_rejected : forall vs, ~ NoDup (eff_indices 0 vs) -> derive_accepts (DEnum vs) = false.
Proof. exact rejected_when_indices_collide. Qed.
Theorem C17_too_many_variants_rejected : forall vs, (256 < length (live vs))%nat -> derive_accepts (DEnum vs) = false.
Proof. exact rejected_when_too_many_variants. Qed.
Theorem C17_union_rejected : derive_accepts DUnion = false.
Proof. exact rejected_union. Qed.

Theorem C17_compact_as_iff : forall d,
  compact_as_accepts d = true <-> exists fs, d = DStruct fs /\ length (filter (fun f => negb (fskip f)) fs) = 1%nat.
Proof. exact compact_as_accepts_iff. Qed.

(* what is accepted has pairwise distinct indices below 256 (feeds the round trip of derived enums) *)
Theorem C17_accepted_indices_ok : forall vs payloads, derive_accepts (DEnum vs) = true ->
  length payloads = length (eff_indices 0 vs) -> idx_ok (mk_variants (eff_indices 0 vs) payloads) = true.
Proof. exact accepted_indices_ok. Qed.

Example C17_nonvacuous :
  derive_accepts (DEnum [mkV false (IAttr 1) []; mkV false IPos []]) = false /\
  derive_accepts (DEnum [mkV false (IAttr 2) []; mkV false IPos []]) = true /\
  derive_accepts (DEnum [mkV true IPos []; mkV false IPos []; mkV false (IAttr 0) []]) = false /\
  derive_accepts (DEnum [mkV false (IDisc 256) []]) = false /\
  derive_accepts (DStruct [mkF true true false]) = false.
Proof. repeat split; vm_compute; reflexivity. Qed.

Print Assumptions C17_accepts_iff.
Print Assumptions C17_invalid_index_loop.
Print Assumptions C17_invalid_index_reported.
Print Assumptions C17_duplicate_loop.
Print Assumptions C17_index_too_big_rejected.
Print Assumptions C17_collision_rejected.
Print Assumptions C17_too_many_variants_rejected.
Print Assumptions C17_union_rejected.
Print Assumptions C17_compact_as_iff.
Print Assumptions C17_accepted_indices_ok.
