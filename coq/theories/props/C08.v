(* C08 — decoding is independent of the Input implementation.
   Inputs are modelled by their content and by whether they report their remaining
   length; wrappers as monitors over the decoder's requests. *)
Require Import Scale.Bytes Scale.Eres Scale.Prog Scale.ProgFacts Scale.ProgMore Scale.Chunks Scale.Monitors Scale.CompactImpl
  Scale.CompactSpec Scale.CompactProofs Scale.CompactTheorems Scale.Utf8 Scale.Codec Scale.CodecEnc Scale.CodecDec Scale.CodecRt Scale.CodecMore.

(* same verdict, value and consumption whether or not the input knows its length
   (slice / BytesCursor vs IoReader / short-read readers), for every type and byte string *)
Theorem C08_known_length_irrelevant : forall t bs, wf_ty t = true ->
  oview (runo (dec t) true bs) = oview (runo (dec t) false bs).
Proof. exact dec_known_irrelevant. Qed.

(* any wrapper (any stack of wrappers, as one monitor) whose limits the decode does not
   reach returns exactly the unwrapped result *)
Theorem C08_nonbinding_wrappers_invisible : forall (m : monitor) A (p : prog A) known bs (s : mst m),
  snd (feed m s (snd (runt p known bs))) = true ->
  exists s', run m p known bs s = lift_out (runo p known bs) s'.
Proof. exact nonbinding_stack_transparent. Qed.

(* the counting wrapper never rejects; a stack accepts iff each layer accepts *)
Theorem C08_counted_never_rejects : forall evs c, c <= u64max -> snd (feed counted c evs) = true.
Proof. intros evs c H. now rewrite counted_feed. Qed.

Theorem C08_stack_accepts : forall (i o : monitor) evs (si : mst i) (so : mst o),
  snd (feed i si evs) = true -> snd (feed o so evs) = true ->
  snd (feed (mstack i o) (si, so) evs) = true.
Proof. exact feed_mstack_accepts. Qed.

(* depth and memory wrappers accept whenever their limit exceeds what the trace reaches *)
Theorem C08_depth_accepts : forall L evs d, d <= L -> max_depth d evs <= L -> snd (feed (depthmon L) d evs) = true.
Proof. intros L evs d Hd H. rewrite depth_feed_iff by exact Hd. now apply N.leb_le. Qed.

Theorem C08_mem_accepts : forall L evs u, u <= usize_max -> used_after u evs < L -> snd (feed (memmon L) u evs) = true.
Proof. intros L evs u Hu H. rewrite mem_feed_iff by exact Hu. apply orb_true_iff. right. now apply N.ltb_lt. Qed.

(* a successful decode does not look at what follows the value *)
Theorem C08_locality : forall A (p : prog A) known x bs v r,
  runo p known bs = OOk v r -> runo p known (bs ++ x) = OOk v (r ++ x).
Proof. exact runo_extend. Qed.

Example C08_nonvacuous :
  wf_ty (TColl CVec 4 (TPrim 4)) = true /\
  runo (dec (TColl CVec 4 (TPrim 4))) true [x10; x01] = OErr [x01] /\
  runo (dec (TColl CVec 4 (TPrim 4))) false [x10; x01] = OErr [x01].
Proof. repeat split; vm_compute; reflexivity. Qed.

Print Assumptions C08_known_length_irrelevant.
Print Assumptions C08_nonbinding_wrappers_invisible.
Print Assumptions C08_counted_never_rejects.
Print Assumptions C08_stack_accepts.
Print Assumptions C08_depth_accepts.
Print Assumptions C08_mem_accepts.
Print Assumptions C08_locality.
