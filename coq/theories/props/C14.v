(* C14 — encodings are self-delimiting; consume-all entry points are exact. *)
Require Import Scale.Bytes Scale.Eres Scale.Prog Scale.ProgFacts Scale.ProgMore Scale.Chunks Scale.Monitors Scale.CompactImpl
  Scale.CompactSpec Scale.CompactProofs Scale.CompactTheorems Scale.Utf8 Scale.Codec Scale.CodecEnc Scale.CodecDec Scale.CodecRt Scale.CodecMore Scale.TraceEq Scale.Depth Scale.Mem Scale.Rec Scale.RecRt.

Theorem C14_locality : forall A (p : prog A) known x bs v r,
  runo p known bs = OOk v r -> runo p known (bs ++ x) = OOk v (r ++ x).
Proof. exact runo_extend. Qed.

Theorem C14_strict_prefix_fails : forall t v bs pre suf known,
  wf_ty t = true -> wf t v = true -> enc_spec t v = EOk bs ->
  bs = pre ++ suf -> suf <> [] -> forall v' r, runo (dec t) known pre <> OOk v' r.
Proof. exact strict_prefix_fails. Qed.

Theorem C14_concat_decodes_in_order : forall known (items : list (ty * val * list byte)) rest,
  Forall (fun x => wf_ty (item_ty x) = true /\
                   wf (item_ty x) (item_val x) = true /\ enc_spec (item_ty x) (item_val x) = EOk (item_bytes x)) items ->
  dec_all_of (map item_ty items) known (concat (map item_bytes items) ++ rest)
  = Some (map (fun x => canon (item_ty x) (item_val x)) items, rest).
Proof. exact concat_decodes_in_order. Qed.

Theorem C14_decode_all_exact : forall t bs v,
  decode_all t bs = OOk v [] <-> runo (dec t) true bs = OOk v [].
Proof. exact decode_all_exact. Qed.

Theorem C14_decode_all_rejects_trailing : forall t bs v b r,
  runo (dec t) true bs = OOk v (b :: r) -> decode_all t bs = OErr [].
Proof. exact decode_all_rejects_trailing. Qed.

Example C14_nonvacuous :
  decode_all (TOption (TPrim 2)) [x01; x05; x00] = OOk (VSome (VN 5)) [] /\
  decode_all (TOption (TPrim 2)) [x01; x05; x00; x00] = OErr [] /\
  runo (dec (TOption (TPrim 2))) true [x01; x05] = OErr [x05].
Proof. repeat split; vm_compute; reflexivity. Qed.

(* the same for recursive derived types, with any recursion budget *)
Theorem C14_recursive_strict_prefix_fails : forall d F v bs pre suf known,
  wf_rdef d = true -> ridx_ok d = true -> renc F d v = EOk bs ->
  bs = pre ++ suf -> suf <> [] ->
  forall F' v' r, (F <= F')%nat -> runo (rdec F' d) known pre <> OOk v' r.
Proof. exact rec_strict_prefix_fails. Qed.

Print Assumptions C14_locality.
Print Assumptions C14_strict_prefix_fails.
Print Assumptions C14_concat_decodes_in_order.
Print Assumptions C14_decode_all_exact.
Print Assumptions C14_decode_all_rejects_trailing.
Print Assumptions C14_recursive_strict_prefix_fails.
