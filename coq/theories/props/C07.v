(* C07 — all encoding entry points and bulk fast paths agree. *)
Require Import Scale.Bytes Scale.Eres Scale.Prog Scale.ProgFacts Scale.ProgMore Scale.Chunks Scale.Monitors Scale.CompactImpl
  Scale.CompactSpec Scale.CompactProofs Scale.CompactTheorems Scale.Utf8 Scale.Codec Scale.CodecEnc Scale.CodecDec Scale.CodecRt Scale.CodecMore Scale.Entry.

(* the streaming output only ever appends: encode_to into an output holding [out] leaves
   [out ++ encode v]; using_encoded hands over exactly encode v; encoded_size is its length.
   In the model every entry point is a view of the one byte string [enc]: *)
Definition enc_to (t : ty) (v : val) (out : list byte) : eres (list byte) :=
  ebind (enc_impl t v) (fun b => EOk (out ++ b)).
Definition using_enc {R} (t : ty) (v : val) (f : list byte -> R) : eres R :=
  ebind (enc_impl t v) (fun b => EOk (f b)).
Definition enc_size (t : ty) (v : val) : eres nat :=
  ebind (enc_impl t v) (fun b => EOk (length b)).

Theorem C07_entry_points_agree : forall t v b out, enc_impl t v = EOk b ->
  enc_to t v out = EOk (out ++ b) /\ (forall R (f : list byte -> R), using_enc t v f = EOk (f b)) /\ enc_size t v = EOk (length b).
Proof. intros t v b out H. unfold enc_to, using_enc, enc_size. rewrite H. repeat split. Qed.

(* bulk decoding of a primitive vector (16 KiB chunks) = decoding its elements one at a time *)
Theorem C07_bulk_vec_is_elementwise : forall B n known bs, okB B = true ->
  oview (runo (x <- bulk_bytes B n ;; Ret (map VN (words B x))) known bs) =
  oview (runo (x <- rep n (dec_prim B) ;; Ret (map VN x)) known bs).
Proof. exact bulk_vec_is_elementwise. Qed.

(* bulk decoding of a primitive array (one read) = element-wise *)
Theorem C07_bulk_array_is_elementwise : forall B n known bs, okB B = true ->
  oview (runo (x <- read (n * B) ;; Ret (VSeq (map VN (words B x)))) known bs) =
  oview (runo (x <- rep n (dec_prim B) ;; Ret (VSeq (map VN x))) known bs).
Proof. exact bulk_array_is_elementwise. Qed.

(* element-wise decoding in chunks of 16 KiB / size_of = plain repetition *)
Theorem C07_chunked_items_is_repetition : forall esz n c, esz <= max_prealloc ->
  oeq (chunked_items esz n c) (rep n c).
Proof. exact chunked_items_is_rep. Qed.

(* bulk encoding: a deque's two slices (and any split of a slice) encode like the sequence *)
Theorem C07_two_slices : forall c t s0 s1,
  ebind (econcat (map (enc c t) s0)) (fun a => ebind (econcat (map (enc c t) s1)) (fun b => EOk (a ++ b))) =
  econcat (map (enc c t) (s0 ++ s1)).
Proof. exact enc_two_slices. Qed.

Example C07_nonvacuous :
  oview (runo (x <- bulk_bytes 2 3 ;; Ret (map VN (words 2 x))) false [x01; x00; x02; x00; x03; x00; xff]) =
  OOk [VN 1; VN 2; VN 3] [xff].
Proof. vm_compute. reflexivity. Qed.

(* the default methods of the Encode trait (Entry.v: encode_to -> using_encoded -> encode ->
   encode_to, encoded_size -> encode_to): whatever subset of them an impl overrides, if the
   overrides all denote one byte string B then every entry point that answers describes B (the
   size-only one as its length); with at least one of the three byte-producing methods overridden
   every entry point answers within three calls; with none it never does (finding F1) *)
Theorem C07_consistent_overrides_agree : forall i B, consistent i B ->
  (forall fuel e b, resolve fuel i e = Some b -> b = B) /\
  (forall fuel n, resolve_size fuel i = Some n -> n = N.of_nat (List.length B)).
Proof. intros i B H. split; [exact (consistent_entry_points_agree i B H)|exact (consistent_size_agrees i B H)]. Qed.

Theorem C07_entry_points_terminate : forall i e fuel,
  overrides_some i = true -> (3 <= fuel)%nat -> resolve fuel i e <> None.
Proof. exact entry_points_terminate. Qed.

Theorem C07_all_default_diverges : forall i e, overrides_some i = false -> forall fuel, resolve fuel i e = None.
Proof. exact all_default_diverges. Qed.

Example C07_entry_nonvacuous :
  let i := {| o_encode_to := None; o_encode := None; o_using := Some [x01; x02]; o_size := None |} in
  consistent i [x01; x02] /\ resolve 3 i EEncode = Some [x01; x02] /\ resolve_size 3 i = Some 2.
Proof.
  cbv zeta. split; [|split; vm_compute; reflexivity].
  unfold consistent. cbn. repeat split; intros; try discriminate. congruence.
Qed.

Print Assumptions C07_entry_points_agree.
Print Assumptions C07_bulk_vec_is_elementwise.
Print Assumptions C07_bulk_array_is_elementwise.
Print Assumptions C07_chunked_items_is_repetition.
Print Assumptions C07_two_slices.
Print Assumptions C07_consistent_overrides_agree.
Print Assumptions C07_entry_points_terminate.
Print Assumptions C07_all_default_diverges.
