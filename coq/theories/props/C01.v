(* C01 — Encoded bytes conform to the SCALE wire format.
   enc_spec is the declarative format (Codec.enc with the shortest-form compact
   integers of CompactSpec); enc_impl is the same traversal with the per-width
   compact code of src/compact.rs.  Pinned statements only. *)
Require Import Scale.Bytes Scale.Eres Scale.Prog Scale.ProgFacts Scale.ProgMore Scale.Chunks Scale.Monitors Scale.CompactImpl
  Scale.CompactSpec Scale.CompactProofs Scale.CompactTheorems Scale.Utf8 Scale.Codec Scale.CodecEnc Scale.CodecDec Scale.CodecRt Scale.CodecMore.

(* the implementation model computes the specification, for every well-formed value of every type *)
Theorem C01_impl_is_spec : forall t v, wf t v = true -> enc_impl t v = enc_spec t v.
Proof. exact enc_impl_is_spec. Qed.

(* the specification is defined on every well-formed value: no panic (element counts below
   2^32, bit counts below 2^29 are part of wf), and decodes back (hence is injective) *)
Theorem C01_spec_defined_and_decodable : forall t v, wf_ty t = true -> wf t v = true ->
  forall bs, enc_spec t v = EOk bs -> forall known rest, runo (dec t) known (bs ++ rest) = OOk (canon t v) rest.
Proof. intros t v Ht Hw bs He known rest. now apply roundtrip. Qed.

(* the deque's two slices and a slice's memory image encode like the element sequence *)
Theorem C01_two_slices : forall c t s0 s1,
  ebind (econcat (map (enc c t) s0)) (fun a => ebind (econcat (map (enc c t) s1)) (fun b => EOk (a ++ b))) =
  econcat (map (enc c t) (s0 ++ s1)).
Proof. exact enc_two_slices. Qed.

Example C01_nonvacuous :
  let t := TPair (TColl CVec 4 (TPrim 4)) (TPair (TOption (TCompact 8)) (TPair TStr TUnit)) in
  let v := VPair (VSeq [VN 1; VN 4294967295]) (VPair (VSome (VN 1073741824)) (VPair (VSeq [VN 104; VN 105]) VUnit)) in
  wf t v = true /\ enc_impl t v = EOk [x08; x01; x00; x00; x00; xff; xff; xff; xff; x01; x03; x00; x00; x00; x40; x08; x68; x69].
Proof. split; vm_compute; reflexivity. Qed.

Print Assumptions C01_impl_is_spec.
Print Assumptions C01_spec_defined_and_decodable.
Print Assumptions C01_two_slices.
