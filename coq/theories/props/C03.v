(* C03 — the decoder is total on any bytes and rejects malformed input. *)
Require Import Scale.Bytes Scale.Eres Scale.Prog Scale.ProgFacts Scale.ProgMore Scale.Chunks Scale.Monitors Scale.CompactImpl
  Scale.CompactSpec Scale.CompactProofs Scale.CompactTheorems Scale.Utf8 Scale.Codec Scale.CodecEnc Scale.CodecDec Scale.CodecRt Scale.CodecMore Scale.TraceEq Scale.Depth Scale.Rec.

(* for every well-formed type descriptor and EVERY byte string: an error or a value; never a
   panic (the assert in the bit-sequence decoder, the unreachable!() arms of the compact
   decoders are not reachable), never out of fuel (the model has none: structural recursion) *)
Theorem C03_total : forall t known bs, wf_ty t = true ->
  runo (dec t) known bs <> OPanic /\ runo (dec t) known bs <> ONoFuel.
Proof. exact dec_total. Qed.

(* what is consumed is a prefix of the input *)
Theorem C03_consumes_prefix : forall t known bs,
  match runo (dec t) known bs with
  | OOk _ rest | OErr rest => exists pre, bs = pre ++ rest
  | _ => True
  end.
Proof. intros. apply runo_suffix. Qed.

(* compact integers: accepted iff canonical and fits (non-minimal and over-wide forms rejected) *)
Theorem C03_compact_exact : forall B known bs v rest, okwidth B ->
  (oview (runo (dec_compact B) known bs) = OOk v rest <-> v < 2 ^ (8 * B) /\ bs = spec_compact v ++ rest).
Proof. exact compact_dec_iff. Qed.

(* the named malformed classes *)
Theorem C03_bool_tag_rejected : forall b known rest, 2 <= Byte.to_N b ->
  runo (dec TBool) known (b :: rest) = OErr rest.
Proof.
  intros b known rest H. cbn [dec read_byte bindp runo].
  destruct (Byte.to_N b) as [|[[?|?|]|[?|?|]|]]; try reflexivity; lia.
Qed.

Theorem C03_option_tag_rejected : forall t b known rest, 2 <= Byte.to_N b ->
  runo (dec (TOption t)) known (b :: rest) = OErr rest.
Proof.
  intros t b known rest H. cbn [dec read_byte bindp runo].
  destruct (Byte.to_N b) as [|[[?|?|]|[?|?|]|]]; try reflexivity; lia.
Qed.

Theorem C03_result_tag_rejected : forall t e b known rest, 2 <= Byte.to_N b ->
  runo (dec (TResult t e)) known (b :: rest) = OErr rest.
Proof.
  intros t e b known rest H. cbn [dec read_byte bindp runo].
  destruct (Byte.to_N b) as [|[[?|?|]|[?|?|]|]]; try reflexivity; lia.
Qed.

Theorem C03_optionbool_tag_rejected : forall b known rest, 3 <= Byte.to_N b ->
  runo (dec TOptionBool) known (b :: rest) = OErr rest.
Proof.
  intros b known rest H. cbn [dec read_byte bindp runo].
  destruct (Byte.to_N b) as [|[[[?|?|]|[?|?|]|]|[[?|?|]|[?|?|]|]|]]; try reflexivity; lia.
Qed.

Fixpoint no_index (b : N) (vs : variants) : bool :=
  match vs with VsNil => true | VsCons i _ r => negb (b =? i mod 256) && no_index b r end.

Theorem C03_unknown_variant_rejected : forall vs b known rest, no_index (Byte.to_N b) vs = true ->
  runo (dec (TEnum vs)) known (b :: rest) = OErr rest.
Proof.
  intros vs b known rest H. cbn [dec read_byte bindp runo]. generalize 0%nat.
  induction vs as [|i t r IH]; intros k; cbn [dec_vars no_index] in *; [reflexivity|].
  apply andb_prop in H as [H1 H2]. destruct (Byte.to_N b =? i mod 256); [discriminate|]. now apply IH.
Qed.

Theorem C03_nonzero_zero_rejected : forall B known rest, okB B = true ->
  exists r, runo (dec (TNonZero B)) known (le_enc (N.to_nat B) 0 ++ rest) = OErr r.
Proof.
  intros B known rest HB. cbn [dec]. rewrite runo_bind, rt_prim; [|exact HB|apply N.neq_0_lt_0, N.pow_nonzero; lia].
  change (0 =? 0) with true. cbn [runo]. eauto.
Qed.

Theorem C03_duration_nanos_rejected : forall s n known rest, length s = 8%nat -> length n = 4%nat ->
  a_billion <= le_dec n -> runo (dec TDuration) known (s ++ n ++ rest) = OErr rest.
Proof.
  intros s n known rest Hs Hn H. cbn [dec]. rewrite rt_read_bind by exact Hs. rewrite rt_read_bind by exact Hn.
  destruct (N.leb_spec a_billion (le_dec n)); [reflexivity|lia].
Qed.

Theorem C03_invalid_utf8_rejected : forall bs known rest, N.of_nat (length bs) < 2 ^ 32 ->
  utf8_valid bs = false ->
  exists r, runo (dec TStr) known (spec_compact (N.of_nat (length bs)) ++ bs ++ rest) = OErr r.
Proof.
  intros bs known rest Hl Hu. cbn [dec]. rewrite runo_bind, rt_compact by (apply okwidth4 || exact Hl).
  rewrite runo_bind, rt_bulk by (lia || lia). rewrite Hu. cbn [runo]. eauto.
Qed.

Theorem C03_bits_too_long_rejected : forall B msb n known rest, 2 ^ 29 <= n -> n < 2 ^ 32 ->
  exists r, runo (dec (TBits B msb)) known (spec_compact n ++ rest) = OErr r.
Proof.
  intros B msb n known rest H1 H2. cbn [dec]. rewrite runo_bind, rt_compact by (apply okwidth4 || exact H2).
  destruct (N.ltb_spec (2 ^ 29 - 1) n); [|lia]. cbn [runo]. eauto.
Qed.

(* a count that promises more primitive data than is present is rejected before anything is
   reserved when the length is known, and in the first short chunk otherwise *)
Theorem C03_count_exceeds_input_rejected : forall B n known bs, 1 <= B <= 16 ->
  avail (n * B) bs = false -> oview (runo (bulk_bytes B n) known bs) = OErr [].
Proof. intros B n known bs HB H. rewrite bulk_spec by exact HB. unfold rd. now rewrite H. Qed.

Example C03_nonvacuous :
  wf_ty (TColl CVec 24 (TColl CMap 368 (TPair (TPrim 1) (TPair TStr TUnit)))) = true /\
  runo (dec (TColl CVec 4 (TPrim 4))) true [x03; xff; xff; xff; xff; x01] = OErr [x01] /\
  runo (dec TStr) true [x08; xc3; x28] = OErr [].
Proof. repeat split; vm_compute; reflexivity. Qed.

(* recursive derived types (Rec.v): with any recursion budget the decoder returns a value, an error
   or runs out of budget (the model's rendering of native stack exhaustion, known finding F7) - it
   never panics; with a depth limit below the budget it does not run out either (C11) *)
Theorem C03_recursive_never_panics : forall d, wf_rdef d = true -> forall F known bs,
  runo (rdec F d) known bs <> OPanic.
Proof. exact rec_never_panics. Qed.

Print Assumptions C03_total.
Print Assumptions C03_consumes_prefix.
Print Assumptions C03_compact_exact.
Print Assumptions C03_bool_tag_rejected.
Print Assumptions C03_option_tag_rejected.
Print Assumptions C03_result_tag_rejected.
Print Assumptions C03_optionbool_tag_rejected.
Print Assumptions C03_unknown_variant_rejected.
Print Assumptions C03_nonzero_zero_rejected.
Print Assumptions C03_duration_nanos_rejected.
Print Assumptions C03_invalid_utf8_rejected.
Print Assumptions C03_bits_too_long_rejected.
Print Assumptions C03_count_exceeds_input_rejected.
Print Assumptions C03_recursive_never_panics.
