(* C06 — encoding depends only on logical content.
   In the model a value IS its logical content (the element sequence in iteration order,
   the bits of a bit sequence, the pointee of a holder); what can vary in memory is how a
   container presents that content to the encoder.  The theorems cover those presentations. *)
Require Import Scale.Bytes Scale.Eres Scale.Prog Scale.Codec Scale.CodecEnc Scale.CodecDec Scale.CodecRt Scale.CodecMore Scale.CodecLike.

(* a deque presents its content as two slices (every ring-buffer state is some split of the
   element sequence): encoding the two slices one after the other = encoding the sequence *)
Theorem C06_deque_any_split : forall c t s0 s1,
  ebind (econcat (map (enc c t) s0)) (fun a => ebind (econcat (map (enc c t) s1)) (fun b => EOk (a ++ b))) =
  econcat (map (enc c t) (s0 ++ s1)).
Proof. exact enc_two_slices. Qed.

(* the container kind and the element size recorded in the descriptor (all that distinguishes
   Vec, VecDeque, slices, lists, heaps, sets, maps on the encode side) do not matter *)
Theorem C06_container_kind_irrelevant : forall c k k' sz sz' t l,
  enc c (TColl k sz t) (VSeq l) = enc c (TColl k' sz' t) (VSeq l).
Proof. intros. apply like_coll. apply like_refl. Qed.

(* a set/map value that is strictly sorted is its own canonical form: building it again
   from its entries in that order changes nothing *)
Theorem C06_sorted_canonical : forall keyed l, strictly_sorted keyed l = true -> canon_set keyed l = l.
Proof. exact canon_set_id. Qed.

(* holders are transparent *)
Theorem C06_holder_transparent : forall c sz t v, enc c (TBox sz t) v = enc c t v.
Proof. intros. reflexivity. Qed.

(* determinism: the encoder is a function of (type, logical content) - two equal contents
   encode to the same bytes, and repeated encoding yields the same bytes *)
Theorem C06_deterministic : forall c t v v', v = v' -> enc c t v = enc c t v'.
Proof. intros c t v v' ->. reflexivity. Qed.

(* bit sequences: the words depend only on the bits (a slice at any offset of any backing
   store is described by its bits): zero-padded words of the chunks of the bits *)
Theorem C06_bits_content_only : forall c B msb l l', l = l' -> enc c (TBits B msb) (VBits l) = enc c (TBits B msb) (VBits l').
Proof. intros c B msb l l' ->. reflexivity. Qed.

Example C06_nonvacuous :
  enc_spec (TColl CVec 1 (TPrim 1)) (VSeq ([VN 1; VN 2] ++ [VN 3])) = EOk [x0c; x01; x02; x03] /\
  enc_spec (TBits 1 true) (VBits [true; false; true]) = EOk [x0c; xa0] /\
  enc_spec (TBits 1 false) (VBits [true; false; true]) = EOk [x0c; x05].
Proof. repeat split; vm_compute; reflexivity. Qed.

Print Assumptions C06_deque_any_split.
Print Assumptions C06_container_kind_irrelevant.
Print Assumptions C06_sorted_canonical.
Print Assumptions C06_holder_transparent.
Print Assumptions C06_deterministic.
Print Assumptions C06_bits_content_only.
