(* C11 — depth-limited decoding is transparent, monotone and bounded by the nesting. *)
Require Import Scale.Bytes Scale.Eres Scale.Prog Scale.ProgFacts Scale.ProgMore Scale.Chunks Scale.Monitors Scale.CompactImpl
  Scale.CompactSpec Scale.CompactProofs Scale.CompactTheorems Scale.Utf8 Scale.Codec Scale.CodecEnc Scale.CodecDec Scale.CodecRt Scale.CodecMore Scale.TraceEq Scale.Depth.

(* for EVERY decoder program (hence every type), input and limit: the limited decode returns
   what the unlimited decode returns iff the nesting of descend/ascend in its trace is at
   most L, and an error otherwise *)
Theorem C11_exact : forall A (p : prog A) known bs L,
  let '(o, evs) := runt p known bs in
  if max_depth 0 evs <=? L
  then exists d, run (depthmon L) p known bs 0 = lift_out o d
  else exists d, run (depthmon L) p known bs 0 = RErr d.
Proof. exact depth_limit_exact. Qed.

Theorem C11_transparent : forall A (p : prog A) known bs L,
  match run (depthmon L) p known bs 0 with
  | ROk v rest _ => runo p known bs = OOk v rest
  | RErr _ => True
  | RPanic => runo p known bs = OPanic
  | RNoFuel => runo p known bs = ONoFuel
  end.
Proof. intros. apply run_transparent. Qed.

Theorem C11_error_preserved : forall A (p : prog A) known bs L r,
  runo p known bs = OErr r -> exists d, run (depthmon L) p known bs 0 = RErr d.
Proof. intros. eapply run_err_of_err; eauto. Qed.

Theorem C11_monotone : forall A (p : prog A) known bs L L' v rest d,
  L <= L' -> run (depthmon L) p known bs 0 = ROk v rest d ->
  exists d', run (depthmon L') p known bs 0 = ROk v rest d'.
Proof. exact depth_limit_monotone. Qed.

Example C11_nonvacuous :
  let t := TColl CVec 24 (TColl CVec 24 (TColl CVec 1 (TPrim 1))) in
  let bs := [x04; x04; x04; x2a] in
  max_depth 0 (snd (runt (dec t) true bs)) = 2 /\
  run (depthmon 2) (dec t) true bs 0 = ROk (VSeq [VSeq [VSeq [VN 42]]]) [] 0 /\
  run (depthmon 1) (dec t) true bs 0 = RErr 2.
Proof. repeat split; vm_compute; reflexivity. Qed.

(* value side: the nesting of the trace of decoding an ENCODING is the nesting depth of the encoded
   value (ddepth: one level per Box/Rc/Arc and per non-bulk sequence/list/set/map/heap, none for
   options, tuples, arrays, variants, strings and sequences of fixed-width primitives) *)
Theorem C11_trace_depth_is_value_depth : forall t v bs known rest,
  nobits t = true -> wf_ty t = true -> wf t v = true -> enc_spec t v = EOk bs ->
  max_depth 0 (snd (runt (dec t) known (bs ++ rest))) = ddepth t v.
Proof. exact trace_depth_is_value_depth. Qed.

(* hence, for every well-formed value: decoding its encoding with limit L yields the value when
   L >= its nesting depth and an error when it is deeper *)
Theorem C11_limit_on_encodings : forall t v bs known rest L,
  nobits t = true -> wf_ty t = true -> wf t v = true -> enc_spec t v = EOk bs ->
  if ddepth t v <=? L
  then exists d, run (depthmon L) (dec t) known (bs ++ rest) 0 = ROk (canon t v) rest d
  else exists d, run (depthmon L) (dec t) known (bs ++ rest) 0 = RErr d.
Proof. exact depth_limit_on_encodings. Qed.

Example C11_value_nonvacuous :
  let t := TColl CVec 24 (TBox 8 (TOption (TColl CList 1 (TPrim 1)))) in
  let v := VSeq [VNone; VSome (VSeq [VN 1; VN 2])] in
  nobits t = true /\ wf_ty t = true /\ wf t v = true /\
  enc_spec t v = EOk [x08; x00; x01; x08; x01; x02] /\ ddepth t v = 3.
Proof. repeat split; vm_compute; reflexivity. Qed.

Print Assumptions C11_exact.
Print Assumptions C11_transparent.
Print Assumptions C11_error_preserved.
Print Assumptions C11_monotone.
Print Assumptions C11_trace_depth_is_value_depth.
Print Assumptions C11_limit_on_encodings.
