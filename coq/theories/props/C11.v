(* C11 — depth-limited decoding is transparent, monotone and bounded by the nesting. *)
Require Import Scale.Bytes Scale.Eres Scale.Prog Scale.ProgFacts Scale.ProgMore Scale.Chunks Scale.Monitors Scale.CompactImpl
  Scale.CompactSpec Scale.CompactProofs Scale.CompactTheorems Scale.Utf8 Scale.Codec Scale.CodecEnc Scale.CodecDec Scale.CodecRt Scale.CodecMore.

(* for EVERY decoder program (hence every type), input and limit: the limited decode returns
   what the unlimited decode returns iff the nesting of descend/ascend in its trace is at
   most L, and an error otherwise *)
Theorem C11_exact : forall A (p : prog A) known bs L,
  let '(o, evs) := runt p known bs in
  if max_depth 0 evs <=? L
  then exists d, run (depthmon L) p known bs 0 = lift_out o d
  else exists d, run (depthmon L) p known bs 0 = RErr d.
Proof. exact depth_limit_exact. Qed.

Theorem C11_transparent : forall A (p : prog A) known bs L,
  match run (depthmon L) p known bs 0 with
  | ROk v rest _ => runo p known bs = OOk v rest
  | RErr _ => True
  | RPanic => runo p known bs = OPanic
  | RNoFuel => runo p known bs = ONoFuel
  end.
Proof. intros. apply run_transparent. Qed.

Theorem C11_error_preserved : forall A (p : prog A) known bs L r,
  runo p known bs = OErr r -> exists d, run (depthmon L) p known bs 0 = RErr d.
Proof. intros. eapply run_err_of_err; eauto. Qed.

Theorem C11_monotone : forall A (p : prog A) known bs L L' v rest d,
  L <= L' -> run (depthmon L) p known bs 0 = ROk v rest d ->
  exists d', run (depthmon L') p known bs 0 = ROk v rest d'.
Proof. exact depth_limit_monotone. Qed.

Example C11_nonvacuous :
  let t := TColl CVec 24 (TColl CVec 24 (TColl CVec 1 (TPrim 1))) in
  let bs := [x04; x04; x04; x2a] in
  max_depth 0 (snd (runt (dec t) true bs)) = 2 /\
  run (depthmon 2) (dec t) true bs 0 = ROk (VSeq [VSeq [VSeq [VN 42]]]) [] 0 /\
  run (depthmon 1) (dec t) true bs 0 = RErr 2.
Proof. repeat split; vm_compute; reflexivity. Qed.

Print Assumptions C11_exact.
Print Assumptions C11_transparent.
Print Assumptions C11_error_preserved.
Print Assumptions C11_monotone.
