(* C11 — depth-limited decoding is transparent, monotone and bounded by the nesting. *)
Require Import Scale.Bytes Scale.Eres Scale.Prog Scale.ProgFacts Scale.ProgMore Scale.Chunks Scale.Monitors Scale.CompactImpl
  Scale.CompactSpec Scale.CompactProofs Scale.CompactTheorems Scale.Utf8 Scale.Codec Scale.CodecEnc Scale.CodecDec Scale.CodecRt Scale.CodecMore Scale.TraceEq Scale.Depth Scale.Rec Scale.RecRt.

(* for EVERY decoder program (hence every type), input and limit: the limited decode returns
   what the unlimited decode returns iff the nesting of descend/ascend in its trace is at
   most L, and an error otherwise *)
Theorem C11_exact : forall A (p : prog A) known bs L,
  let '(o, evs) := runt p known bs in
  if max_depth 0 evs <=? L
  then exists d, run (depthmon L) p known bs 0 = lift_out o d
  else exists d, run (depthmon L) p known bs 0 = RErr d.
Proof. exact depth_limit_exact. Qed.

Theorem C11_transparent : forall A (p : prog A) known bs L,
  match run (depthmon L) p known bs 0 with
  | ROk v rest _ => runo p known bs = OOk v rest
  | RErr _ => True
  | RPanic => runo p known bs = OPanic
  | RNoFuel => runo p known bs = ONoFuel
  end.
Proof. intros. apply run_transparent. Qed.

Theorem C11_error_preserved : forall A (p : prog A) known bs L r,
  runo p known bs = OErr r -> exists d, run (depthmon L) p known bs 0 = RErr d.
Proof. intros. eapply run_err_of_err; eauto. Qed.

Theorem C11_monotone : forall A (p : prog A) known bs L L' v rest d,
  L <= L' -> run (depthmon L) p known bs 0 = ROk v rest d ->
  exists d', run (depthmon L') p known bs 0 = ROk v rest d'.
Proof. exact depth_limit_monotone. Qed.

Example C11_nonvacuous :
  let t := TColl CVec 24 (TColl CVec 24 (TColl CVec 1 (TPrim 1))) in
  let bs := [x04; x04; x04; x2a] in
  max_depth 0 (snd (runt (dec t) true bs)) = 2 /\
  run (depthmon 2) (dec t) true bs 0 = ROk (VSeq [VSeq [VSeq [VN 42]]]) [] 0 /\
  run (depthmon 1) (dec t) true bs 0 = RErr 2.
Proof. repeat split; vm_compute; reflexivity. Qed.

(* value side: the nesting of the trace of decoding an ENCODING is the nesting depth of the encoded
   value (ddepth: one level per Box/Rc/Arc and per non-bulk sequence/list/set/map/heap, none for
   options, tuples, arrays, variants, strings and sequences of fixed-width primitives) *)
Theorem C11_trace_depth_is_value_depth : forall t v bs known rest,
  wf_ty t = true -> wf t v = true -> enc_spec t v = EOk bs ->
  max_depth 0 (snd (runt (dec t) known (bs ++ rest))) = ddepth t v.
Proof. exact trace_depth_is_value_depth. Qed.

(* hence, for every well-formed value: decoding its encoding with limit L yields the value when
   L >= its nesting depth and an error when it is deeper *)
Theorem C11_limit_on_encodings : forall t v bs known rest L,
  wf_ty t = true -> wf t v = true -> enc_spec t v = EOk bs ->
  if ddepth t v <=? L
  then exists d, run (depthmon L) (dec t) known (bs ++ rest) 0 = ROk (canon t v) rest d
  else exists d, run (depthmon L) (dec t) known (bs ++ rest) 0 = RErr d.
Proof. exact depth_limit_on_encodings. Qed.

Example C11_value_nonvacuous :
  let t := TColl CVec 24 (TBox 8 (TOption (TColl CList 1 (TPrim 1)))) in
  let v := VSeq [VNone; VSome (VSeq [VN 1; VN 2])] in
  wf_ty t = true /\ wf t v = true /\
  enc_spec t v = EOk [x08; x00; x01; x08; x01; x02] /\ ddepth t v = 3.
Proof. repeat split; vm_compute; reflexivity. Qed.

(* recursive derived types (Rec.v: an index byte, then fields that are universe types or recursive
   occurrences held by Box<Self>, Option<Box<Self>>, Vec<Self>).  The decoder recurses natively: the
   model gives it a recursion budget F - the frames the native stack can hold - and answers NoFuel
   when it runs out, the model's rendering of a stack overflow.  All the theorems above apply to it
   (they hold for every program).  Stack safety: with a depth limit L below the budget, the limited
   decode never runs out, whatever the input (adversarially deep input is rejected after at most
   L+1 frames) ... *)
Theorem C11_recursive_never_overflows : forall d F L known bs,
  wf_rdef d = true -> L < N.of_nat F -> run (depthmon L) (rdec F d) known bs 0 <> RNoFuel.
Proof. exact rec_depth_limit_never_overflows. Qed.

(* ... and its answer is the same for every budget above L *)
Theorem C11_recursive_budget_irrelevant : forall d F F' L known bs,
  wf_rdef d = true -> L < N.of_nat F -> (F <= F')%nat ->
  run (depthmon L) (rdec F' d) known bs 0 = run (depthmon L) (rdec F d) known bs 0.
Proof. exact rec_depth_limit_budget_irrelevant. Qed.

(* the reason: decode traces are well nested, and running out of a budget of F frames means the
   trace nests at least F levels deep *)
Theorem C11_recursive_overflow_means_deep : forall d, wf_rdef d = true -> forall F known bs evs,
  runt (rdec F d) known bs = (ONoFuel, evs) -> forall d0, d0 + N.of_nat F <= max_depth d0 evs.
Proof. intros d Hw F. exact (proj2 (rdec_nested d Hw F)). Qed.

(* every decoder of the universe leaves the nesting where it found it when it succeeds, on every
   input (not only on encodings) *)
Theorem C11_traces_well_nested : forall t known bs v r evs,
  runt (dec t) known bs = (OOk v r, evs) -> forall d, end_depth d evs = d.
Proof. exact dec_bok. Qed.

(* value side for recursive types: decoding the encoding of a recursive value with limit L yields
   the value when L covers its nesting depth (one level per Box / Vec holder on the deepest path)
   and an error when it is deeper *)
Theorem C11_recursive_limit_on_encodings : forall d F v bs known rest L,
  wf_rdef d = true -> ridx_ok d = true -> renc F d v = EOk bs ->
  if rdepth F d v <=? L
  then exists s, run (depthmon L) (rdec F d) known (bs ++ rest) 0 = ROk (rcanon F d v) rest s
  else exists s, run (depthmon L) (rdec F d) known (bs ++ rest) 0 = RErr s.
Proof. exact rec_depth_limit_on_encodings. Qed.

Definition ex_tree : rdef := [(0, [FTy (TPrim 1)]); (1, [FBox 32]); (2, [FBox 32; FTy (TPrim 2); FOptBox 32]); (5, [FVec 32])].
Example C11_recursive_nonvacuous :
  wf_rdef ex_tree = true /\
  (* Node(Node(Node(Leaf 7))) : nesting 3 *)
  run (depthmon 3) (rdec 4 ex_tree) true [x01; x01; x01; x00; x07] 0
    = ROk (VVar 1 (VPair (VVar 1 (VPair (VVar 1 (VPair (VVar 0 (VPair (VN 7) VUnit)) VUnit)) VUnit)) VUnit)) [] 0 /\
  run (depthmon 2) (rdec 3 ex_tree) true [x01; x01; x01; x00; x07] 0 = RErr 3 /\
  (* without a limit a budget of 3 frames overflows on the same input *)
  runo (rdec 3 ex_tree) true [x01; x01; x01; x00; x07] = ONoFuel.
Proof. repeat split; vm_compute; reflexivity. Qed.

Print Assumptions C11_exact.
Print Assumptions C11_transparent.
Print Assumptions C11_error_preserved.
Print Assumptions C11_monotone.
Print Assumptions C11_trace_depth_is_value_depth.
Print Assumptions C11_limit_on_encodings.
Print Assumptions C11_recursive_never_overflows.
Print Assumptions C11_recursive_budget_irrelevant.
Print Assumptions C11_recursive_overflow_means_deep.
Print Assumptions C11_traces_well_nested.
Print Assumptions C11_recursive_limit_on_encodings.
