(* C20 — wire format identical in every feature configuration.
   The model of the codec (Codec.v) takes no configuration parameter: the only cfg-gated
   code on the data path is the Output implementation and the Error representation, modelled
   in Cfg.v.  The deciding part of this check is the cross-configuration differential (the
   same corpus built under five feature sets, digests compared line by line, and compared
   with the model); a cfg gate the model does not know about can only be exhibited there. *)
Require Import Scale.Bytes Scale.Cfg.

(* std: Output for any io::Write goes through write_all; a writer accepting any k >= 1 bytes
   per call ends up with exactly the appended bytes - the same as Vec::extend_from_slice *)
Theorem C20_write_all_appends : forall k bytes fuel out, (length bytes <= fuel)%nat ->
  write_all fuel k out bytes = Some (out ++ bytes).
Proof. exact write_all_appends. Qed.

Theorem C20_output_cfg_independent : forall std std' k k' out bytes,
  output_write std k out bytes = output_write std' k' out bytes.
Proof. exact output_cfg_independent. Qed.

Theorem C20_error_description_irrelevant : forall A (a : option A) chain chain' desc,
  verdict (match a with Some x => inl x | None => inr (mk_error chain desc) end) =
  verdict (match a with Some x => inl x | None => inr (mk_error chain' desc) end).
Proof. exact error_cfg_independent. Qed.

Example C20_nonvacuous : write_all 5 2 [x00] [x01; x02; x03; x04; x05] = Some [x00; x01; x02; x03; x04; x05].
Proof. vm_compute. reflexivity. Qed.

Print Assumptions C20_write_all_appends.
Print Assumptions C20_output_cfg_independent.
Print Assumptions C20_error_description_irrelevant.
