(* C05 — derived codecs implement the declared layout for every type definition.
   The descriptor of a definition (Codec.v header): the non-skipped fields in declaration
   order, each in its selected representation (compact / encoded_as fields carry the type they
   are encoded as), as a right-nested pair ending in TUnit; for enums one (effective index,
   payload) entry per non-skipped variant.  The check derives that descriptor from generated
   definitions, compiles them against /repo and compares the real derived codec with the model
   on values, mutated inputs and every possible first byte. *)
Require Import Scale.Bytes Scale.Eres Scale.Prog Scale.ProgMore Scale.CompactSpec Scale.Codec Scale.CodecEnc Scale.CodecDec Scale.CodecRt
  Scale.CodecLike Scale.Derive.

(* encoding of a struct = concatenation of its non-skipped fields' encodings in declaration order *)
Theorem C05_struct_layout : forall c a b x y,
  enc c (TPair a b) (VPair x y) = eapp (enc c a x) (enc c b y).
Proof. reflexivity. Qed.

(* an enum value = one byte holding the variant's index, then the payload *)
Theorem C05_enum_layout : forall c i t r v, i < 256 ->
  enc c (TEnum (VsCons i t r)) (VVar 0 v) = eapp (EOk [byte_of i]) (enc c t v).
Proof. intros c i t r v H. cbn [enc enc_vars]. apply N.ltb_lt in H. now rewrite H. Qed.
Theorem C05_enum_layout_later : forall c i t r k v,
  enc c (TEnum (VsCons i t r)) (VVar (S k) v) = enc c (TEnum r) (VVar k v).
Proof. reflexivity. Qed.

(* the single-non-skipped-field forwarder and the general path agree: a one-field struct
   encodes like its field *)
Theorem C05_single_field_forwarding : forall c t v, enc c (TPair t TUnit) (VPair v VUnit) = enc c t v.
Proof. exact like_one_tuple. Qed.

(* decoding inverts the layout (skipped fields are absent from the descriptor: the decoder
   fills them with Default) - the round trip over every accepted definition whose indices are
   pairwise distinct and below 256, which derive_accepts guarantees *)
Theorem C05_decode_inverts : forall t v bs known rest,
  wf_ty t = true -> wf t v = true -> enc_spec t v = EOk bs ->
  runo (dec t) known (bs ++ rest) = OOk (canon t v) rest.
Proof. exact roundtrip. Qed.
Theorem C05_accepted_enums_have_valid_indices : forall vs payloads, derive_accepts (DEnum vs) = true ->
  length payloads = length (eff_indices 0 vs) -> idx_ok (mk_variants (eff_indices 0 vs) payloads) = true.
Proof. exact accepted_indices_ok. Qed.

(* an index byte naming no variant is rejected *)
Fixpoint no_index (b : N) (vs : variants) : bool :=
  match vs with VsNil => true | VsCons i _ r => negb (b =? i mod 256) && no_index b r end.
Theorem C05_unknown_index_rejected : forall vs b known rest, no_index (Byte.to_N b) vs = true ->
  runo (dec (TEnum vs)) known (b :: rest) = OErr rest.
Proof.
  intros vs b known rest H. cbn [dec read_byte bindp runo]. generalize 0%nat.
  induction vs as [|i t r IH]; intros k; cbn [dec_vars no_index] in *; [reflexivity|].
  apply andb_prop in H as [H1 H2]. destruct (Byte.to_N b =? i mod 256); [discriminate|]. now apply IH.
Qed.

(* a skipped variant is not in the descriptor: the derived encoder writes nothing for it and
   returns (checked on the implementation by encoding such values in child processes) *)

Example C05_nonvacuous :
  enc_spec (TEnum (VsCons 0 TUnit (VsCons 9 (TPair (TCompact 2) (TPair TBool TUnit)) VsNil))) (VVar 1 (VPair (VN 300) (VPair (VBool true) VUnit)))
  = EOk [x09; xb1; x04; x01].
Proof. vm_compute. reflexivity. Qed.

Print Assumptions C05_struct_layout.
Print Assumptions C05_enum_layout.
Print Assumptions C05_enum_layout_later.
Print Assumptions C05_single_field_forwarding.
Print Assumptions C05_decode_inverts.
Print Assumptions C05_accepted_enums_have_valid_indices.
Print Assumptions C05_unknown_index_rejected.
