(* Program equivalence modulo a projection of the event trace.
   [teq pi p q]: on every input p and q have the same outcome and traces with the same
   pi-projection.  With pi = (fun _ => []) this is outcome equivalence; with pi keeping only
   the descend/ascend hooks it is what the depth limiter can observe. *)
Require Import Scale.Bytes Scale.Prog Scale.ProgFacts Scale.ProgMore.

Section Teq.
  Context (pi : list event -> list event) (pi_app : forall a b, pi (a ++ b) = pi a ++ pi b).

  Definition teq {A} (p q : prog A) : Prop :=
    forall known bs, fst (runt p known bs) = fst (runt q known bs) /\
                     pi (snd (runt p known bs)) = pi (snd (runt q known bs)).

  Lemma teq_refl A (p : prog A) : teq p p. Proof. intros ? ?; split; reflexivity. Qed.
  Lemma teq_sym A (p q : prog A) : teq p q -> teq q p.
  Proof. intros H known bs. destruct (H known bs). split; congruence. Qed.
  Lemma teq_trans A (p q r : prog A) : teq p q -> teq q r -> teq p r.
  Proof. intros H1 H2 known bs. destruct (H1 known bs), (H2 known bs). split; congruence. Qed.
  Lemma peq_teq A (p q : prog A) : peq p q -> teq p q.
  Proof. intros H known bs. rewrite (H known bs). split; reflexivity. Qed.

  Lemma teq_bind A B (p q : prog A) (f g : A -> prog B) :
    teq p q -> (forall a, teq (f a) (g a)) -> teq (bindp p f) (bindp q g).
  Proof.
    intros Hp Hf known bs. rewrite !runt_bind. destruct (Hp known bs) as [H1 H2].
    destruct (runt p known bs) as [o1 e1]; destruct (runt q known bs) as [o2 e2]. cbn [fst snd] in *. subst o2.
    destruct o1 as [a r|r| |]; cbn [fst snd]; auto.
    destruct (Hf a known r) as [G1 G2]. unfold app_ev. cbn [fst snd]. rewrite !pi_app. split; congruence.
  Qed.

  Lemma teq_rep_nat A (c d : prog A) n : teq c d -> teq (rep_nat n c) (rep_nat n d).
  Proof.
    intros H. induction n as [|n IH]; cbn [rep_nat]; [apply teq_refl|].
    apply teq_bind; [exact H|]. intros a. apply teq_bind; [exact IH|]. intros; apply teq_refl.
  Qed.
  Lemma teq_rep A (c d : prog A) n : teq c d -> teq (rep n c) (rep n d).
  Proof.
    intros H. eapply teq_trans; [apply peq_teq, rep_rep_nat|].
    eapply teq_trans; [apply teq_rep_nat; exact H|]. apply teq_sym, peq_teq, rep_rep_nat.
  Qed.

  (* a hook the projection does not see *)
  Lemma teq_emit_invisible A h (p : prog A) : pi [EHook h] = [] -> teq (emit h ;;; p) p.
  Proof.
    intros Hh known bs. cbn [emit bindp runt]. unfold cons_ev. cbn [fst snd]. split; [reflexivity|].
    change (EHook h :: snd (runt p known bs)) with ([EHook h] ++ snd (runt p known bs)). now rewrite pi_app, Hh.
  Qed.

  Lemma rep_nat_mul_t A (c : prog A) (q m : nat) :
    teq (l <- rep_nat q (rep_nat m c) ;; Ret (concat l)) (rep_nat (q * m) c).
  Proof.
    induction q as [|q IH]; cbn [rep_nat Nat.mul].
    - apply teq_refl.
    - eapply teq_trans; [|apply teq_sym, peq_teq, rep_nat_app].
      eapply teq_trans; [apply peq_teq, peq_bind_assoc|].
      apply teq_bind; [apply teq_refl|]. intros l1.
      eapply teq_trans; [apply peq_teq, peq_bind_assoc|]. cbn [bindp concat].
      eapply teq_trans; [|apply teq_bind; [apply IH|intros; apply teq_refl]].
      eapply teq_trans; [|apply teq_sym, peq_teq, peq_bind_assoc]. cbn [bindp].
      apply teq_refl.
  Qed.

  (* decode_vec_chunked modulo pi, when the per-chunk preamble is invisible to pi *)
  Theorem chunked_is_rep_t A (c : prog A) (pre : N -> prog unit) (cl n : N) :
    0 < cl -> (forall k B (p : prog B), teq (pre k ;;; p) p) ->
    teq (full <- (if n / cl =? 0 then Ret [] else rep (n / cl) (pre cl ;;; rep cl c)) ;;
         (if n mod cl =? 0 then Ret (concat full)
          else last <- (pre (n mod cl) ;;; rep (n mod cl) c) ;; Ret (concat full ++ last)))
        (rep n c).
  Proof.
    intros Hcl Hpre.
    pose proof (N.div_mod n cl ltac:(lia)) as Hdm.
    set (q := n / cl) in *. set (r := n mod cl) in *.
    eapply teq_trans; [|apply teq_sym, peq_teq, rep_rep_nat].
    replace (N.to_nat n) with (N.to_nat q * N.to_nat cl + N.to_nat r)%nat by lia.
    eapply teq_trans; [|apply teq_sym, peq_teq, rep_nat_app].
    assert (H1: teq (if q =? 0 then Ret [] else rep q (pre cl ;;; rep cl c))
                    (rep_nat (N.to_nat q) (rep_nat (N.to_nat cl) c))).
    { destruct (N.eqb_spec q 0) as [E|E]; [rewrite E; apply teq_refl|].
      eapply teq_trans; [apply peq_teq, rep_rep_nat|].
      apply teq_rep_nat. eapply teq_trans; [apply Hpre|]. apply peq_teq, rep_rep_nat. }
    eapply teq_trans; [apply teq_bind; [exact H1|intros; apply teq_refl]|].
    eapply teq_trans; [|apply teq_bind; [apply rep_nat_mul_t|intros; apply teq_refl]].
    eapply teq_trans; [|apply teq_sym, peq_teq, peq_bind_assoc]. cbn [bindp].
    apply teq_bind; [apply teq_refl|]. intros full.
    destruct (N.eqb_spec r 0) as [E|E].
    - rewrite E. change (N.to_nat 0) with 0%nat. cbn [rep_nat bindp]. intros known bs. cbn [runt fst snd].
      now rewrite app_nil_r.
    - apply teq_bind; [|intros; apply teq_refl].
      eapply teq_trans; [apply Hpre|]. apply peq_teq, rep_rep_nat.
  Qed.
End Teq.

(* ------------------------------------------------------------------ *)
(* The additive variant: an N-valued measure of the trace (for instance the sum of the sizes
   announced to the memory tracker), compared on SUCCESSFUL runs only.  [seq mu p q]: p and q
   have the same outcome on every input and, when that outcome is a value, traces of equal measure. *)
Section Seq.
  Context (mu : list event -> N) (mu_app : forall a b, mu (a ++ b) = mu a + mu b) (mu_nil : mu [] = 0).

  Definition is_ok {A} (o : out A) : bool := match o with OOk _ _ => true | _ => false end.

  Definition seq {A} (p q : prog A) : Prop :=
    forall known bs, fst (runt p known bs) = fst (runt q known bs) /\
                     (is_ok (fst (runt p known bs)) = true -> mu (snd (runt p known bs)) = mu (snd (runt q known bs))).

  Lemma seq_refl A (p : prog A) : seq p p. Proof. intros ? ?; split; reflexivity. Qed.
  Lemma seq_sym A (p q : prog A) : seq p q -> seq q p.
  Proof. intros H known bs. destruct (H known bs) as [H1 H2]. split; [congruence|]. rewrite <- H1. intros E. symmetry. auto. Qed.
  Lemma seq_trans A (p q r : prog A) : seq p q -> seq q r -> seq p r.
  Proof.
    intros H1 H2 known bs. destruct (H1 known bs) as [A1 A2], (H2 known bs) as [B1 B2]. split; [congruence|].
    intros E. rewrite A2 by exact E. apply B2. now rewrite <- A1.
  Qed.
  Lemma peq_seq A (p q : prog A) : peq p q -> seq p q.
  Proof. intros H known bs. rewrite (H known bs). split; reflexivity. Qed.

  Lemma seq_bind A B (p q : prog A) (f g : A -> prog B) :
    seq p q -> (forall a, seq (f a) (g a)) -> seq (bindp p f) (bindp q g).
  Proof.
    intros Hp Hf known bs. rewrite !runt_bind. destruct (Hp known bs) as [H1 H2].
    destruct (runt p known bs) as [o1 e1]; destruct (runt q known bs) as [o2 e2]. cbn [fst snd] in *. subst o2.
    destruct o1 as [a r|r| |]; cbn [fst snd is_ok]; try (split; [reflexivity|discriminate]).
    destruct (Hf a known r) as [G1 G2]. unfold app_ev. cbn [fst snd]. rewrite !mu_app. split; [exact G1|].
    intros E. rewrite H2 by reflexivity. rewrite G2 by exact E. reflexivity.
  Qed.

  Lemma seq_rep_nat A (c d : prog A) n : seq c d -> seq (rep_nat n c) (rep_nat n d).
  Proof.
    intros H. induction n as [|n IH]; cbn [rep_nat]; [apply seq_refl|].
    apply seq_bind; [exact H|]. intros a. apply seq_bind; [exact IH|]. intros; apply seq_refl.
  Qed.
  Lemma seq_rep A (c d : prog A) n : seq c d -> seq (rep n c) (rep n d).
  Proof.
    intros H. eapply seq_trans; [apply peq_seq, rep_rep_nat|].
    eapply seq_trans; [apply seq_rep_nat; exact H|]. apply seq_sym, peq_seq, rep_rep_nat.
  Qed.

  Lemma rep_nat_mul_s A (c : prog A) (q m : nat) :
    seq (l <- rep_nat q (rep_nat m c) ;; Ret (concat l)) (rep_nat (q * m) c).
  Proof.
    induction q as [|q IH]; cbn [rep_nat Nat.mul].
    - apply seq_refl.
    - eapply seq_trans; [|apply seq_sym, peq_seq, rep_nat_app].
      eapply seq_trans; [apply peq_seq, peq_bind_assoc|].
      apply seq_bind; [apply seq_refl|]. intros l1.
      eapply seq_trans; [apply peq_seq, peq_bind_assoc|]. cbn [bindp concat].
      eapply seq_trans; [|apply seq_bind; [apply IH|intros; apply seq_refl]].
      eapply seq_trans; [|apply seq_sym, peq_seq, peq_bind_assoc]. cbn [bindp].
      apply seq_refl.
  Qed.

  (* decode_vec_chunked against an element-wise twin c' that accounts, per element, for what the
     chunk preamble accounts per chunk *)
  Theorem chunked_is_rep_s A (c c' : prog A) (pre : N -> prog unit) (cl n : N) :
    0 < cl -> (forall k, k <= cl -> seq (pre k ;;; rep k c) (rep_nat (N.to_nat k) c')) ->
    seq (full <- (if n / cl =? 0 then Ret [] else rep (n / cl) (pre cl ;;; rep cl c)) ;;
         (if n mod cl =? 0 then Ret (concat full)
          else last <- (pre (n mod cl) ;;; rep (n mod cl) c) ;; Ret (concat full ++ last)))
        (rep n c').
  Proof.
    intros Hcl Hpre.
    pose proof (N.div_mod n cl ltac:(lia)) as Hdm. pose proof (N.mod_lt n cl ltac:(lia)) as Hlt.
    set (q := n / cl) in *. set (r := n mod cl) in *.
    eapply seq_trans; [|apply seq_sym, peq_seq, rep_rep_nat].
    replace (N.to_nat n) with (N.to_nat q * N.to_nat cl + N.to_nat r)%nat by lia.
    eapply seq_trans; [|apply seq_sym, peq_seq, rep_nat_app].
    assert (H1: seq (if q =? 0 then Ret [] else rep q (pre cl ;;; rep cl c))
                    (rep_nat (N.to_nat q) (rep_nat (N.to_nat cl) c'))).
    { destruct (N.eqb_spec q 0) as [E|E]; [rewrite E; apply seq_refl|].
      eapply seq_trans; [apply peq_seq, rep_rep_nat|].
      apply seq_rep_nat. apply Hpre. lia. }
    eapply seq_trans; [apply seq_bind; [exact H1|intros; apply seq_refl]|].
    eapply seq_trans; [|apply seq_bind; [apply rep_nat_mul_s|intros; apply seq_refl]].
    eapply seq_trans; [|apply seq_sym, peq_seq, peq_bind_assoc]. cbn [bindp].
    apply seq_bind; [apply seq_refl|]. intros full.
    destruct (N.eqb_spec r 0) as [E|E].
    - rewrite E. change (N.to_nat 0) with 0%nat. cbn [rep_nat bindp]. intros known bs. cbn [runt fst snd].
      now rewrite app_nil_r.
    - apply seq_bind; [|intros; apply seq_refl]. apply Hpre. lia.
  Qed.
End Seq.
