(* Correspondence cases for C15: append_or_new on (encoded vector, item count, item bytes). *)
Require Import Scale.Bytes Scale.Hex Scale.Eres Scale.Prog Scale.CompactImpl Scale.Append.

Inductive c15res := XOk (out : string) | XErr | XPanic.
Inductive c15case := KApp (vec : string) (n : N) (p : string) (r : c15res).

Definition c15_check (c : c15case) : bool :=
  match c with
  | KApp vec n p r =>
      match append (hex vec) n (hex p), r with
      | AOk bs, XOk out => bytes_eqb bs (hex out)
      | AErr, XErr => true
      | APanic, XPanic => true
      | _, _ => false
      end
  end.
Definition c15_model (c : c15case) : ares := match c with KApp vec n p _ => append (hex vec) n (hex p) end.
