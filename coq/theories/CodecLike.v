(* C16: the EncodeLike families as equations between encoders of the model. *)
Require Import Scale.Bytes Scale.Eres Scale.Prog Scale.ProgFacts Scale.ProgMore Scale.Chunks Scale.CompactImpl
  Scale.CompactSpec Scale.Codec Scale.CodecEnc Scale.CodecDec Scale.CodecRt Scale.CodecMore.

(* [A] encodes like [B] on a value: same bytes *)
Definition like (c : N -> N -> eres (list byte)) (a b : ty) : Prop := forall v, enc c a v = enc c b v.

Lemma like_refl c t : like c t t. Proof. intros v; reflexivity. Qed.
Lemma like_trans c a b d : like c a b -> like c b d -> like c a d.
Proof. intros H1 H2 v. now rewrite H1. Qed.
Lemma like_sym c a b : like c a b -> like c b a.
Proof. intros H v. symmetry. apply H. Qed.

(* holders: Box / Rc / Arc (TBox); &T, &mut T, &&T, Cow, Ref are the type itself in the descriptor *)
Theorem like_box c sz t : like c (TBox sz t) t.
Proof. intros v. reflexivity. Qed.
Theorem like_box_box c sz sz' t u : like c t u -> like c (TBox sz t) (TBox sz' u).
Proof. intros H v. cbn [enc]. apply H. Qed.

(* sequences: Vec, VecDeque, slices, LinkedList, BinaryHeap, BTreeSet, BTreeMap and slices of
   tuples all encode as count ++ items, whatever the container kind and element size *)
Theorem like_coll c k k' sz sz' t u : like c t u -> like c (TColl k sz t) (TColl k' sz' u).
Proof.
  intros H [ | | | | | | |l| | | ]; cbn [enc]; try reflexivity.
  f_equal. f_equal. apply map_ext. exact H.
Qed.

(* String / &str encode like their bytes (Vec<u8>, &[u8], Bytes) *)
Theorem like_str_bytes c sz l bs : bytes_of_vals l = Some bs ->
  enc c TStr (VSeq l) = enc c (TColl CVec sz (TPrim 1)) (VSeq l).
Proof.
  intros H. cbn [enc]. rewrite H. f_equal.
  revert bs H. induction l as [|v l IH]; intros bs H; cbn [bytes_of_vals] in H.
  - injection H as <-. reflexivity.
  - destruct (is_byte v) as [b|] eqn:Ev; [|discriminate]. destruct (bytes_of_vals l) as [bs'|] eqn:El; [|discriminate].
    injection H as <-. cbn [map econcat]. rewrite <- (IH bs' eq_refl).
    unfold is_byte in Ev. destruct v; try discriminate. destruct (N.ltb_spec n 256); [|discriminate]. injection Ev as <-.
    cbn [enc]. change (2 ^ (8 * 1)) with 256. destruct (N.ltb_spec n 256); [|lia]. reflexivity.
Qed.

(* element-wise lifting *)
Theorem like_option c t u : like c t u -> like c (TOption t) (TOption u).
Proof. intros H [ | | | |v| | | | | | ]; cbn [enc]; try reflexivity. now rewrite H. Qed.
Theorem like_result c t u e f : like c t u -> like c e f -> like c (TResult t e) (TResult u f).
Proof. intros H1 H2 [ | | | | |v|v| | | | ]; cbn [enc]; try reflexivity; [now rewrite H1|now rewrite H2]. Qed.
Theorem like_array c n t u : like c t u -> like c (TArray n t) (TArray n u).
Proof.
  intros H [ | | | | | | |l| | | ]; cbn [enc]; try reflexivity.
  destruct (N.of_nat (length l) =? n); [|reflexivity]. f_equal. apply map_ext. exact H.
Qed.
Theorem like_pair c a b a' b' : like c a a' -> like c b b' -> like c (TPair a b) (TPair a' b').
Proof. intros H1 H2 [ | | | | | | | |x y| | ]; cbn [enc]; try reflexivity. now rewrite H1, H2. Qed.

(* a one-tuple encodes like its element, a struct with one field like the field *)
Theorem like_one_tuple c t v : enc c (TPair t TUnit) (VPair v VUnit) = enc c t v.
Proof. cbn [enc]. unfold eapp, ebind. destruct (enc c t v); try reflexivity. now rewrite app_nil_r. Qed.

(* what A produces decodes as B to the corresponding value *)
Theorem like_decodes a b v bs known rest :
  like spec_c a b -> wf_ty b = true -> wf b v = true -> enc_spec a v = EOk bs ->
  runo (dec b) known (bs ++ rest) = OOk (canon b v) rest.
Proof.
  intros Hl Ht Hw He. apply roundtrip; auto.
  change (enc spec_c a v = EOk bs) in He. change (enc spec_c b v = EOk bs). now rewrite <- (Hl v).
Qed.
