(* UTF-8 well-formedness, as core::str::from_utf8 decides it (Unicode 15 table 3-7):
   no overlong forms, no surrogates, nothing above U+10FFFF. *)
Require Import Scale.Bytes.

Definition in_range (lo hi : N) (b : byte) : bool :=
  let n := Byte.to_N b in (lo <=? n) && (n <=? hi).
Definition cont := in_range 128 191.

Fixpoint utf8_valid_fuel (fuel : nat) (bs : list byte) : bool :=
  match fuel with
  | O => match bs with [] => true | _ => false end
  | S f =>
    match bs with
    | [] => true
    | b0 :: r =>
      let n := Byte.to_N b0 in
      if n <=? 127 then utf8_valid_fuel f r
      else if in_range 194 223 b0 then
        match r with b1 :: r' => cont b1 && utf8_valid_fuel f r' | _ => false end
      else if n =? 224 then
        match r with b1 :: b2 :: r' => in_range 160 191 b1 && cont b2 && utf8_valid_fuel f r' | _ => false end
      else if in_range 225 236 b0 || in_range 238 239 b0 then
        match r with b1 :: b2 :: r' => cont b1 && cont b2 && utf8_valid_fuel f r' | _ => false end
      else if n =? 237 then
        match r with b1 :: b2 :: r' => in_range 128 159 b1 && cont b2 && utf8_valid_fuel f r' | _ => false end
      else if n =? 240 then
        match r with b1 :: b2 :: b3 :: r' => in_range 144 191 b1 && cont b2 && cont b3 && utf8_valid_fuel f r' | _ => false end
      else if in_range 241 243 b0 then
        match r with b1 :: b2 :: b3 :: r' => cont b1 && cont b2 && cont b3 && utf8_valid_fuel f r' | _ => false end
      else if n =? 244 then
        match r with b1 :: b2 :: b3 :: r' => in_range 128 143 b1 && cont b2 && cont b3 && utf8_valid_fuel f r' | _ => false end
      else false
    end
  end.

(* every step consumes at least one byte, so [length bs] steps suffice *)
Definition utf8_valid (bs : list byte) : bool := utf8_valid_fuel (length bs) bs.
