(* C01: the implementation encoder (per-width compact code) computes the
   specification encoder, and never panics on well-formed values. *)
Require Import Scale.Bytes Scale.Eres Scale.Prog Scale.CompactImpl Scale.CompactSpec
  Scale.CompactProofs Scale.CompactTheorems Scale.Utf8 Scale.Codec.

Scheme ty_mut := Induction for ty Sort Prop
  with variants_mut := Induction for variants Sort Prop.
Combined Scheme ty_variants_ind from ty_mut, variants_mut.

Definition spec_c : N -> N -> eres (list byte) := fun _ n => EOk (spec_compact n).

Lemma okB_okwidth B : okB B = true -> okwidth B.
Proof.
  unfold okB, okwidth. intros H.
  repeat (apply orb_prop in H; destruct H as [H|H]); apply N.eqb_eq in H; auto.
Qed.

Lemma enc_count_agree n : N.of_nat n <=? u32max = true ->
  enc_count enc_compact n = enc_count spec_c n.
Proof.
  intros H. apply N.leb_le in H. unfold enc_count, spec_c.
  destruct (N.ltb_spec u32max (N.of_nat n)); [lia|].
  apply enc_compact_spec; [unfold okwidth; auto|]. unfold u32max in *. change (2 ^ (8 * 4)) with 4294967296. lia.
Qed.

Lemma map_enc_agree (f g : val -> eres (list byte)) (P : val -> bool) l :
  (forall v, P v = true -> f v = g v) -> forallb P l = true -> map f l = map g l.
Proof.
  intros H Hl. apply map_ext_in. intros v Hv. apply H. rewrite forallb_forall in Hl. now apply Hl.
Qed.

Theorem enc_impl_is_spec_mut :
  (forall t v, wf t v = true -> enc enc_compact t v = enc spec_c t v) /\
  (forall vs k v, wf_vars vs k v = true -> enc_vars enc_compact vs k v = enc_vars spec_c vs k v).
Proof.
  apply ty_variants_ind.
  - (* TUnit *) reflexivity.
  - reflexivity.
  - (* TPrim *) reflexivity.
  - (* TCompact *) intros B [ | | n| | | | | | | | ]; cbn [wf enc]; try discriminate.
    intros H. apply andb_prop in H as [HB Hn]. rewrite Hn. unfold spec_c.
    apply enc_compact_spec; [now apply okB_okwidth|now apply N.ltb_lt].
  - reflexivity.
  - (* TOption *) intros t IH [ | | | |v'| | | | | | ]; cbn [wf enc]; try discriminate; auto.
    intros H. now rewrite IH.
  - (* TResult *) intros t IHt e IHe [ | | | | |v'|v'| | | | ]; cbn [wf enc]; try discriminate; intros H.
    + now rewrite IHt. + now rewrite IHe.
  - reflexivity.
  - (* TColl *) intros k sz t IH [ | | | | | | |l| | | ]; cbn [wf enc]; try discriminate.
    intros H. apply andb_prop in H as [H _]. apply andb_prop in H as [Hl Hn].
    rewrite (enc_count_agree _ Hn). f_equal. f_equal.
    eapply map_enc_agree; [|exact Hl]. exact IH.
  - (* TStr *) intros [ | | | | | | |l| | | ]; cbn [wf enc]; try discriminate.
    intros H. apply andb_prop in H as [Hn _].
    destruct (bytes_of_vals l); [|reflexivity]. now rewrite (enc_count_agree _ Hn).
  - (* TArray *) intros n t IH [ | | | | | | |l| | | ]; cbn [wf enc]; try discriminate.
    intros H. apply andb_prop in H as [Hl Hn]. rewrite Hn. f_equal.
    eapply map_enc_agree; [|exact Hl]. exact IH.
  - (* TPair *) intros a IHa b IHb [ | | | | | | | |x y| | ]; cbn [wf enc]; try discriminate.
    intros H. apply andb_prop in H as [Hx Hy]. now rewrite IHa, IHb.
  - (* TBox *) intros sz t IH v. cbn [wf enc]. apply IH.
  - reflexivity.
  - (* TBits *) intros B msb [ | | | | | | | | |l| ]; cbn [wf enc]; try discriminate.
    intros H. apply andb_prop in H as [H Hn]. apply N.ltb_lt in Hn.
    destruct (N.ltb_spec (2 ^ 29 - 1) (N.of_nat (length l))); [reflexivity|].
    unfold spec_c at 1. rewrite enc_compact_spec; [reflexivity|unfold okwidth; auto|].
    change (2 ^ 29) with 536870912 in *. change (2 ^ (8 * 4)) with 4294967296. lia.
  - (* TEnum *) intros vs IH [ | | | | | | | | | |k v']; cbn [wf enc]; try discriminate.
    intros H. apply andb_prop in H as [_ H]. now apply IH.
  - (* VsNil *) intros k v. cbn [wf_vars]. discriminate.
  - (* VsCons *) intros idx t IHt vs IHvs [|k] v; cbn [wf_vars enc_vars]; intros H.
    + now rewrite IHt. + now apply IHvs.
Qed.

Theorem enc_impl_is_spec t v : wf t v = true -> enc_impl t v = enc_spec t v.
Proof. apply (proj1 enc_impl_is_spec_mut). Qed.
