(* C09 over the universe: reservations of [dec t] are bounded by rate * bytes read + allowance,
   for every type whose containers store elements that occupy at least one input byte. *)
Require Import Scale.Bytes Scale.Eres Scale.Prog Scale.ProgFacts Scale.ProgMore Scale.Chunks Scale.Real Scale.CompactImpl
  Scale.CompactSpec Scale.CompactProofs Scale.CompactTheorems Scale.Utf8 Scale.Codec Scale.CodecEnc Scale.CodecDec.

Ltac nr := repeat first
  [ progress cbn [noreal bindp read read_byte prefixed]
  | progress intros
  | apply noreal_bind
  | apply noreal_rep_nat
  | match goal with |- noreal (match ?x with _ => _ end) => destruct x end
  | match goal with |- noreal (if ?x then _ else _) => destruct x end
  | exact I ].

Lemma noreal_dec_compact B : noreal (dec_compact B).
Proof.
  unfold dec_compact, dec_c8, dec_c16, dec_c32, dec_cbig.
  destruct (B =? 1); [nr|]. destruct (B =? 2); [nr|]. destruct (B =? 4); nr.
Qed.

Lemma abound_dec_compact B : abound 0 0 0 0 (dec_compact B).
Proof. apply noreal_abound, noreal_dec_compact. Qed.

(* a successful compact decode has read at least the prefix byte *)
Lemma abound_dec_compact_w B : abound 0 0 0 1 (dec_compact B).
Proof.
  intros known bs. pose proof (abound_dec_compact B known bs) as H.
  pose proof (reads_account _ (dec_compact B) known bs) as Hacc.
  destruct (runt (dec_compact B) known bs) as [[v rest|rest| |] evs] eqn:E; auto.
  destruct H as [H _]. split; [exact H|].
  (* success consumed at least one byte: the empty input fails *)
  assert (Hne: rest <> bs \/ bs <> []).
  { destruct bs as [|b r]; [|right; discriminate]. exfalso.
    assert (Ho: runo (dec_compact B) known [] = OOk v rest) by (rewrite <- runt_fst, E; reflexivity).
    unfold dec_compact, dec_c8, dec_c16, dec_c32, dec_cbig in Ho.
    destruct (B =? 1); [discriminate|]. destruct (B =? 2); [discriminate|]. destruct (B =? 4); discriminate. }
  destruct bs as [|b r].
  - destruct Hne as [Hne|Hne]; [|contradiction].
    assert (Ho: runo (dec_compact B) known [] = OOk v rest) by (rewrite <- runt_fst, E; reflexivity).
    unfold dec_compact, dec_c8, dec_c16, dec_c32, dec_cbig in Ho.
    destruct (B =? 1); [discriminate|]. destruct (B =? 2); [discriminate|]. destruct (B =? 4); discriminate.
  - (* first operation is read_byte *)
    assert (Hs: exists evs', evs = ERead 1 :: evs').
    { unfold dec_compact, dec_c8, dec_c16, dec_c32, dec_cbig in E.
      destruct (B =? 1); [|destruct (B =? 2); [|destruct (B =? 4)]];
        cbn [read_byte bindp runt] in E; unfold cons_ev in E;
        match type of E with (_, ?x :: ?y) = _ => injection E as _ E2; exists y; now rewrite <- E2 end. }
    destruct Hs as [evs' ->]. cbn [sum_reads]. lia.
Qed.

Definition P : N := max_prealloc.

Fixpoint minw (t : ty) : N :=
  match t with
  | TUnit => 0
  | TBool => 1
  | TPrim B => B
  | TCompact _ => 1
  | TNonZero B => B
  | TOption _ | TResult _ _ | TOptionBool | TColl _ _ _ | TStr | TBits _ _ | TEnum _ => 1
  | TArray n t' => n * minw t'
  | TPair a b => minw a + minw b
  | TBox _ t' => minw t'
  | TDuration => 12
  end.

(* positive wire: every element stored by a container occupies at least one input byte *)
Fixpoint pw (t : ty) : bool :=
  match t with
  | TOption t' | TArray _ t' | TBox _ t' => pw t'
  | TResult a b | TPair a b => pw a && pw b
  | TColl _ sz t' => pw t' && (1 <=? minw t')
  | TEnum vs => pw_vars vs
  | _ => true
  end
with pw_vars (vs : variants) : bool :=
  match vs with VsNil => true | VsCons _ t r => pw t && pw_vars r end.

(* success allowance, failure allowance, rate *)
Fixpoint cs (t : ty) : N :=
  match t with
  | TOption t' => cs t'
  | TResult a b => N.max (cs a) (cs b)
  | TArray n t' => match t' with TPrim _ => 0 | _ => n * cs t' end
  | TPair a b => cs a + cs b
  | TBox sz t' => sz + cs t'
  | TEnum vs => csv vs
  | _ => 0
  end
with csv (vs : variants) : N :=
  match vs with VsNil => 0 | VsCons _ t r => N.max (cs t) (csv r) end.

Fixpoint cf (t : ty) : N :=
  match t with
  | TOption t' => cf t'
  | TResult a b => N.max (cf a) (cf b)
  | TColl k sz t' =>
      match k with
      | CVec | CHeap => match t' with TPrim _ => P | _ => P + cf t' end
      | _ => N.max (cf t') (cs t' + sz)
      end
  | TStr | TBits _ _ => P
  | TArray n t' => match t' with TPrim _ => 0 | _ => n * N.max (cs t') (cf t') end
  | TPair a b => N.max (cf a) (cs a + cf b)
  | TBox sz t' => sz + cf t'
  | TEnum vs => cfv vs
  | _ => 0
  end
with cfv (vs : variants) : N :=
  match vs with VsNil => 0 | VsCons _ t r => N.max (cf t) (cfv r) end.

Fixpoint cr (t : ty) : N :=
  match t with
  | TOption t' => cr t'
  | TResult a b => N.max (cr a) (cr b)
  | TColl k sz t' =>
      match k with
      | CVec | CHeap => match t' with TPrim _ => 1 | _ => cr t' + cs t' + sz end
      | _ => cr t' + cs t' + sz
      end
  | TStr | TBits _ _ => 1
  | TArray n t' => match t' with TPrim _ => 0 | _ => cr t' end
  | TPair a b => N.max (cr a) (cr b)
  | TBox _ t' => cr t'
  | TEnum vs => crv vs
  | _ => 0
  end
with crv (vs : variants) : N :=
  match vs with VsNil => 0 | VsCons _ t r => N.max (cr t) (crv r) end.

Ltac leqs :=
  repeat match goal with
  | Hle : (forall t, cs t <= cf t) |- context [cs ?t] =>
      lazymatch goal with H : cs t <= cf t |- _ => fail | _ => pose proof (Hle t) end
  | Hlev : (forall vs, csv vs <= cfv vs) |- context [csv ?vs] =>
      lazymatch goal with H : csv vs <= cfv vs |- _ => fail | _ => pose proof (Hlev vs) end
  end.
Ltac ab_by H := eapply abound_weaken; [| | | |exact H]; try apply N.le_0_l; try lia; leqs; try lia; try nia.

Lemma chunk_bound sz k : sz <= P -> k <= chunk_len sz -> sat_mul k sz <= P.
Proof.
  unfold P, chunk_len, sat_mul, max_prealloc. intros Hsz Hk.
  destruct (N.eqb_spec sz 0) as [->|Hz]; [rewrite N.mul_0_r; lia|].
  assert (k * sz <= 16384 / sz * sz) by (apply N.mul_le_mono_r; exact Hk).
  pose proof (N.div_mod 16384 sz Hz). lia.
Qed.

Lemma sat_mul_le k sz : sat_mul k sz <= k * sz.
Proof. unfold sat_mul. lia. Qed.

Lemma abound_one_chunk c s' f' r' w' sz k K : abound s' f' r' w' c -> 1 <= w' -> sat_mul k sz <= K ->
  abound 0 (K + f') (r' + s' + sz) (k * w') (one_chunk sz k c).
Proof.
  intros Hc Hw HK known bs. unfold one_chunk. cbn [emit bindp runt]. unfold cons_ev.
  pose proof (abound_rep_dyn_N _ c s' f' r' w' k Hw Hc known bs) as H.
  pose proof (sat_mul_le k sz) as Hle.
  destruct (runt (rep k c) known bs) as [[l rest|rest| |] evs]; cbn [fst snd real_sum sum_reads]; auto.
  - destruct H as [H W]. split; [nia|lia].
  - nia.
Qed.

Lemma abound_chunked c s' f' r' w' sz n : abound s' f' r' w' c -> 1 <= w' -> sz <= P ->
  abound 0 (P + f') (r' + s' + sz) 0 (chunked_items sz n c).
Proof.
  intros Hc Hw Hsz. unfold chunked_items. cbv zeta.
  assert (Hcl: 0 < chunk_len sz) by (apply chunk_len_pos; exact Hsz).
  set (cl := chunk_len sz) in *.
  assert (Hfull: abound 0 (P + f') (r' + s' + sz) 0 (if n / cl =? 0 then Ret [] else rep (n / cl) (one_chunk sz cl c))).
  { destruct (n / cl =? 0); [ab_by (abound_ret _ (@nil (list val)))|].
    pose proof (abound_one_chunk c s' f' r' w' sz cl P Hc Hw (chunk_bound sz cl Hsz (N.le_refl _))) as H1.
    assert (Hw1: 1 <= cl * w') by nia.
    ab_by (abound_rep_dyn_N _ _ _ _ _ _ (n / cl) Hw1 H1). }
  assert (Hlast: forall full, abound 0 (P + f') (r' + s' + sz) 0
            (if n mod cl =? 0 then Ret (concat full) else last <- one_chunk sz (n mod cl) c ;; Ret (concat full ++ last))).
  { intros full. destruct (n mod cl =? 0); [ab_by (abound_ret _ (concat full))|].
    assert (Hk: n mod cl <= cl) by (pose proof (N.mod_lt n cl ltac:(lia)); lia).
    pose proof (abound_one_chunk c s' f' r' w' sz (n mod cl) P Hc Hw (chunk_bound sz _ Hsz Hk)) as H1.
    ab_by (abound_bind _ _ _ (fun last => Ret (concat full ++ last)) _ _ _ _ 0 0 0 0 H1 (fun l => abound_ret _ _)). }
  ab_by (abound_bind _ _ _ _ _ _ _ _ _ _ _ _ Hfull Hlast).
Qed.

Lemma abound_one_bulk B k K : sat_mul k B <= K -> abound 0 K 1 (k * B) (one_bulk B k).
Proof.
  intros HK known bs. unfold one_bulk. cbn [emit bindp read runt]. unfold cons_ev.
  pose proof (sat_mul_le k B).
  destruct (avail (k * B) bs); cbn [fst snd runt real_sum sum_reads]; [split; lia|lia].
Qed.

Lemma abound_bulk B n : 1 <= B <= 16 -> abound 0 P 1 0 (bulk_bytes B n).
Proof.
  intros HB. unfold bulk_bytes. cbv zeta.
  assert (HBP: B <= P) by (unfold P, max_prealloc; lia).
  assert (Hcl: 0 < chunk_len B) by (apply chunk_len_pos; exact HBP).
  set (cl := chunk_len B) in *.
  assert (Hfull: abound 0 P 1 0 (if n / cl =? 0 then Ret [] else rep (n / cl) (one_bulk B cl))).
  { destruct (n / cl =? 0); [ab_by (abound_ret _ (@nil (list byte)))|].
    pose proof (abound_one_bulk B cl P (chunk_bound B cl HBP (N.le_refl _))) as H1.
    assert (Hw1: 1 <= cl * B) by nia.
    ab_by (abound_rep_dyn_N _ _ _ _ _ _ (n / cl) Hw1 H1). }
  assert (Hlast: forall full, abound 0 P 1 0
            (if n mod cl =? 0 then Ret (concat full) else last <- one_bulk B (n mod cl) ;; Ret (concat full ++ last))).
  { intros full. destruct (n mod cl =? 0); [ab_by (abound_ret _ (concat full))|].
    assert (Hk: n mod cl <= cl) by (pose proof (N.mod_lt n cl ltac:(lia)); lia).
    pose proof (abound_one_bulk B (n mod cl) P (chunk_bound B _ HBP Hk)) as H1.
    ab_by (abound_bind _ _ _ (fun last => Ret (concat full ++ last)) _ _ _ _ 0 0 0 0 H1 (fun l => abound_ret _ _)). }
  pose proof (abound_bind _ _ _ _ _ _ _ _ _ _ _ _ Hfull Hlast) as Hbody.
  ab_by (abound_bind _ _ (need (n * B)) _ _ _ _ _ _ _ _ _ (abound_need (n * B)) (fun _ => Hbody)).
Qed.

Lemma abound_node c s' f' r' w' sz : abound s' f' r' w' c ->
  abound (s' + sz) (N.max f' (s' + sz)) r' w' (node sz c).
Proof.
  intros Hc. unfold node.
  ab_by (abound_bind _ _ c _ _ _ _ _ _ _ _ _ Hc (fun v => abound_bind _ _ (emit (HReal sz)) (fun _ => Ret v) _ _ _ _ 0 0 0 0 (abound_emit (HReal sz)) (fun _ => abound_ret _ v))).
Qed.

Lemma abound_dec_prim B : abound 0 0 0 B (dec_prim B).
Proof.
  unfold dec_prim. destruct (N.eqb_spec B 1) as [->|].
  - ab_by (abound_bind _ _ read_byte (fun b => Ret (Byte.to_N b)) _ _ _ _ 0 0 0 0 abound_read_byte (fun _ => abound_ret _ _)).
  - ab_by (abound_bind _ _ (read B) (fun bs => Ret (le_dec bs)) _ _ _ _ 0 0 0 0 (abound_read B) (fun _ => abound_ret _ _)).
Qed.

Lemma cs_le_cf_mut : (forall t, cs t <= cf t) /\ (forall vs, csv vs <= cfv vs).
Proof.
  apply ty_variants_ind; cbn [cs cf csv cfv]; intros; try lia;
    repeat match goal with |- context [match ?x with _ => _ end] => destruct x end; try lia; try nia.
Qed.

Ltac tagcases b := destruct (Byte.to_N b) as [|[[?|?|]|[?|?|]|]].

Theorem dec_abound_mut :
  (forall t, wf_ty t = true -> pw t = true -> abound (cs t) (cf t) (cr t) (minw t) (dec t)) /\
  (forall vs, wf_vars_ty vs = true -> pw_vars vs = true ->
     forall b k, abound (csv vs) (cfv vs) (crv vs) 0 (dec_vars vs b k)).
Proof.
  pose proof (proj1 cs_le_cf_mut) as Hle. pose proof (proj2 cs_le_cf_mut) as Hlev.
  apply ty_variants_ind; cbn [wf_ty wf_vars_ty pw pw_vars cs cf cr csv cfv crv minw dec dec_vars].
  - (* TUnit *) intros _ _. ab_by (abound_ret _ VUnit).
  - (* TBool *) intros _ _.
    ab_by (abound_bind _ _ read_byte _ _ _ _ _ 0 0 0 0 abound_read_byte
             (fun b => noreal_abound _ (match Byte.to_N b with 0 => Ret (VBool false) | 1 => Ret (VBool true) | _ => Fail end) ltac:(nr))).
  - (* TPrim *) intros B _ _.
    ab_by (abound_bind _ _ (dec_prim B) (fun n => Ret (VN n)) _ _ _ _ 0 0 0 0 (abound_dec_prim B) (fun _ => abound_ret _ _)).
  - (* TCompact *) intros B _ _.
    ab_by (abound_bind _ _ (dec_compact B) (fun n => Ret (VN n)) _ _ _ _ 0 0 0 0 (abound_dec_compact_w B) (fun _ => abound_ret _ _)).
  - (* TNonZero *) intros B _ _.
    ab_by (abound_bind _ _ (dec_prim B) (fun n => if n =? 0 then Fail else Ret (VN n)) _ _ _ _ 0 0 0 0 (abound_dec_prim B)
             (fun n => noreal_abound _ (if n =? 0 then Fail else Ret (VN n)) ltac:(nr))).
  - (* TOption *) intros t IH Ht Hp. specialize (IH Ht Hp).
    assert (Hk: forall b, abound (cs t) (cf t) (cr t) 0
              (match Byte.to_N b with 0 => Ret VNone | 1 => v <- dec t ;; Ret (VSome v) | _ => Fail end)).
    { intros b. tagcases b; try (ab_by (abound_fail val)); [ab_by (abound_ret _ VNone)|].
      ab_by (abound_bind _ _ (dec t) (fun v => Ret (VSome v)) _ _ _ _ 0 0 0 0 IH (fun _ => abound_ret _ _)). }
    ab_by (abound_bind _ _ read_byte _ _ _ _ _ _ _ _ _ abound_read_byte Hk).
  - (* TResult *) intros t IHt e IHe H Hp. apply andb_prop in H as [Ht He]. apply andb_prop in Hp as [Hpt Hpe].
    specialize (IHt Ht Hpt). specialize (IHe He Hpe).
    assert (Hk: forall b, abound (N.max (cs t) (cs e)) (N.max (cf t) (cf e)) (N.max (cr t) (cr e)) 0
              (match Byte.to_N b with 0 => v <- dec t ;; Ret (VOk v) | 1 => v <- dec e ;; Ret (VErr v) | _ => Fail end)).
    { intros b. tagcases b; try (ab_by (abound_fail val)).
      - ab_by (abound_bind _ _ (dec t) (fun v => Ret (VOk v)) _ _ _ _ 0 0 0 0 IHt (fun _ => abound_ret _ _)).
      - ab_by (abound_bind _ _ (dec e) (fun v => Ret (VErr v)) _ _ _ _ 0 0 0 0 IHe (fun _ => abound_ret _ _)). }
    ab_by (abound_bind _ _ read_byte _ _ _ _ _ _ _ _ _ abound_read_byte Hk).
  - (* TOptionBool *) intros _ _.
    ab_by (abound_bind _ _ read_byte _ _ _ _ _ 0 0 0 0 abound_read_byte
             (fun b => noreal_abound _ (match Byte.to_N b with 0 => Ret VNone | 1 => Ret (VSome (VBool true)) | 2 => Ret (VSome (VBool false)) | _ => Fail end) ltac:(nr))).
  - (* TColl *) intros k sz t IH H Hp. apply andb_prop in H as [Ht Hsz]. apply N.leb_le in Hsz.
    apply andb_prop in Hp as [Hpt Hw]. apply N.leb_le in Hw. specialize (IH Ht Hpt).
    assert (HszP: sz <= P) by exact Hsz.
    (* the element-wise vector body *)
    assert (Hgen: forall n, abound 0 (P + cf t) (cr t + cs t + sz) 0
              (emit HDescend ;;; l <- chunked_items sz n (dec t) ;; emit HAscend ;;; Ret l)).
    { intros n.
      pose proof (abound_chunked (dec t) _ _ _ _ sz n IH Hw HszP) as Hc.
      pose proof (abound_bind _ _ _ (fun l => emit HAscend ;;; Ret l) _ _ _ _ 0 0 0 0 Hc
                    (fun l => abound_bind _ _ (emit HAscend) (fun _ => Ret l) _ _ _ _ 0 0 0 0 (abound_emit HAscend) (fun _ => abound_ret _ l))) as H1.
      ab_by (abound_bind _ _ (emit HDescend) _ _ _ _ _ _ _ _ _ (abound_emit HDescend) (fun _ => H1)). }
    (* the node-by-node body of lists and trees *)
    assert (Hnodes: forall n (a : N) (fin : list val -> val), abound 0 (N.max (cf t) (cs t + sz)) (cr t + cs t + sz) 0
              (emit HDescend ;;; emit (HAlloc a) ;;; items <- rep n (node sz (dec t)) ;; emit HAscend ;;; Ret (fin items))).
    { intros n a fin.
      pose proof (abound_rep_dyn_N _ _ _ _ _ _ n Hw (abound_node (dec t) _ _ _ _ sz IH)) as Hr.
      pose proof (abound_bind _ _ _ (fun items => emit HAscend ;;; Ret (fin items)) _ _ _ _ 0 0 0 0 Hr
                    (fun l => abound_bind _ _ (emit HAscend) (fun _ => Ret (fin l)) _ _ _ _ 0 0 0 0 (abound_emit HAscend) (fun _ => abound_ret _ _))) as H1.
      pose proof (abound_bind _ _ (emit (HAlloc a)) _ _ _ _ _ _ _ _ _ (abound_emit (HAlloc a)) (fun _ => H1)) as H2.
      ab_by (abound_bind _ _ (emit HDescend) _ _ _ _ _ _ _ _ _ (abound_emit HDescend) (fun _ => H2)). }
    destruct k.
    + (* CVec *) destruct t; try (ab_by (abound_bind _ _ (dec_compact 4) _ _ _ _ _ _ _ _ _ (abound_dec_compact_w 4)
                    (fun n => abound_bind _ _ _ (fun items => Ret (VSeq items)) _ _ _ _ 0 0 0 0 (Hgen n) (fun _ => abound_ret _ _)))).
      cbn [wf_ty] in Ht. pose proof (okB_pos B Ht) as HB.
      ab_by (abound_bind _ _ (dec_compact 4) _ _ _ _ _ _ _ _ _ (abound_dec_compact_w 4)
               (fun n => abound_bind _ _ _ (fun items => Ret (VSeq items)) _ _ _ _ 0 0 0 0
                  (abound_bind _ _ (bulk_bytes B n) (fun bs => Ret (map VN (words B bs))) _ _ _ _ 0 0 0 0 (abound_bulk B n HB) (fun _ => abound_ret _ _))
                  (fun _ => abound_ret _ _))).
    + (* CHeap *) destruct t; try (ab_by (abound_bind _ _ (dec_compact 4) _ _ _ _ _ _ _ _ _ (abound_dec_compact_w 4)
                    (fun n => abound_bind _ _ _ (fun items => Ret (VSeq (sort_vals items))) _ _ _ _ 0 0 0 0 (Hgen n) (fun _ => abound_ret _ _)))).
      cbn [wf_ty] in Ht. pose proof (okB_pos B Ht) as HB.
      ab_by (abound_bind _ _ (dec_compact 4) _ _ _ _ _ _ _ _ _ (abound_dec_compact_w 4)
               (fun n => abound_bind _ _ _ (fun items => Ret (VSeq (sort_vals items))) _ _ _ _ 0 0 0 0
                  (abound_bind _ _ (bulk_bytes B n) (fun bs => Ret (map VN (words B bs))) _ _ _ _ 0 0 0 0 (abound_bulk B n HB) (fun _ => abound_ret _ _))
                  (fun _ => abound_ret _ _))).
    + (* CList *) ab_by (abound_bind _ _ (dec_compact 4) _ _ _ _ _ _ _ _ _ (abound_dec_compact_w 4) (fun n => Hnodes n (sat_mul n sz) VSeq)).
    + (* CSet *) ab_by (abound_bind _ _ (dec_compact 4) _ _ _ _ _ _ _ _ _ (abound_dec_compact_w 4)
                          (fun n => Hnodes n (btree_mem sz n) (fun items => VSeq (canon_set (is_keyed CSet) items)))).
    + (* CMap *) ab_by (abound_bind _ _ (dec_compact 4) _ _ _ _ _ _ _ _ _ (abound_dec_compact_w 4)
                          (fun n => Hnodes n (btree_mem sz n) (fun items => VSeq (canon_set (is_keyed CMap) items)))).
  - (* TStr *) intros _ _.
    ab_by (abound_bind _ _ (dec_compact 4) _ _ _ _ _ _ _ _ _ (abound_dec_compact_w 4)
             (fun n => abound_bind _ _ (bulk_bytes 1 n) (fun bs => if utf8_valid bs then Ret (VSeq (map (fun b => VN (Byte.to_N b)) bs)) else Fail)
                         _ _ _ _ 0 0 0 0 (abound_bulk 1 n ltac:(lia))
                         (fun bs => noreal_abound _ (if utf8_valid bs then Ret (VSeq (map (fun b => VN (Byte.to_N b)) bs)) else Fail) ltac:(nr)))).
  - (* TArray *) intros n t IH Ht Hp. specialize (IH Ht Hp).
    assert (Hgen: abound (n * cs t) (n * N.max (cs t) (cf t)) (cr t) (n * minw t) (items <- rep n (dec t) ;; Ret (VSeq items))).
    { ab_by (abound_bind _ _ (rep n (dec t)) (fun items => Ret (VSeq items)) _ _ _ _ 0 0 0 0 (abound_rep_static_N _ _ _ _ _ _ n IH) (fun _ => abound_ret _ _)). }
    destruct t; try exact Hgen. cbn [minw cs cf cr].
    ab_by (abound_bind _ _ (read (n * B)) (fun bs => Ret (VSeq (map VN (words B bs)))) _ _ _ _ 0 0 0 0 (abound_read (n * B)) (fun _ => abound_ret _ _)).
  - (* TPair *) intros a IHa b IHb H Hp. apply andb_prop in H as [Ha Hb]. apply andb_prop in Hp as [Hpa Hpb].
    specialize (IHa Ha Hpa). specialize (IHb Hb Hpb).
    ab_by (abound_bind _ _ (dec a) _ _ _ _ _ _ _ _ _ IHa
             (fun x => abound_bind _ _ (dec b) (fun y => Ret (VPair x y)) _ _ _ _ 0 0 0 0 IHb (fun _ => abound_ret _ _))).
  - (* TBox *) intros sz t IH Ht Hp. specialize (IH Ht Hp).
    pose proof (abound_bind _ _ (dec t) (fun v => emit HAscend ;;; Ret v) _ _ _ _ 0 0 0 0 IH
                  (fun v => abound_bind _ _ (emit HAscend) (fun _ => Ret v) _ _ _ _ 0 0 0 0 (abound_emit HAscend) (fun _ => abound_ret _ v))) as H1.
    pose proof (abound_bind _ _ (emit (HReal sz)) _ _ _ _ _ _ _ _ _ (abound_emit (HReal sz)) (fun _ => H1)) as H2.
    pose proof (abound_bind _ _ (emit (HAlloc sz)) _ _ _ _ _ _ _ _ _ (abound_emit (HAlloc sz)) (fun _ => H2)) as H3.
    ab_by (abound_bind _ _ (emit HDescend) _ _ _ _ _ _ _ _ _ (abound_emit HDescend) (fun _ => H3)).
  - (* TDuration *) intros _ _.
    ab_by (abound_bind _ _ (read 8) _ _ _ _ _ _ _ _ _ (abound_read 8)
             (fun s => abound_bind _ _ (read 4) (fun n => if a_billion <=? le_dec n then Fail else Ret (VPair (VN (le_dec s)) (VPair (VN (le_dec n)) VUnit)))
                         _ _ _ _ 0 0 0 0 (abound_read 4)
                         (fun n => noreal_abound _ (if a_billion <=? le_dec n then Fail else Ret (VPair (VN (le_dec s)) (VPair (VN (le_dec n)) VUnit))) ltac:(nr)))).
  - (* TBits *) intros B msb H _. apply andb_prop in H as [HB _]. pose proof (okB_pos B HB) as HBp.
    assert (Hk: forall bits, abound 0 P 1 0
              (if 2 ^ 29 - 1 <? bits then Fail
               else bs <- bulk_bytes B ((bits + 8 * B - 1) / (8 * B)) ;;
                    let all := concat (map (chunk_of_word B msb) (words B bs)) in
                    if N.of_nat (length all) <? bits then Crash else Ret (VBits (firstn (N.to_nat bits) all)))).
    { intros bits. destruct (2 ^ 29 - 1 <? bits); [ab_by (abound_fail val)|].
      ab_by (abound_bind _ _ (bulk_bytes B ((bits + 8 * B - 1) / (8 * B))) _ _ _ _ _ 0 0 0 0 (abound_bulk B _ HBp)
               (fun bs => noreal_abound _ (let all := concat (map (chunk_of_word B msb) (words B bs)) in
                    if N.of_nat (length all) <? bits then Crash else Ret (VBits (firstn (N.to_nat bits) all))) ltac:(cbv zeta; nr))). }
    ab_by (abound_bind _ _ (dec_compact 4) _ _ _ _ _ _ _ _ _ (abound_dec_compact_w 4) Hk).
  - (* TEnum *) intros vs IH Hvs Hp. specialize (IH Hvs Hp).
    ab_by (abound_bind _ _ read_byte _ _ _ _ _ _ _ _ _ abound_read_byte (fun b => IH (Byte.to_N b) 0%nat)).
  - (* VsNil *) intros _ _ b k. ab_by (abound_fail val).
  - (* VsCons *) intros idx t IHt vs IHvs H Hp b k. apply andb_prop in H as [Ht Hvs]. apply andb_prop in Hp as [Hpt Hpvs].
    specialize (IHt Ht Hpt). specialize (IHvs Hvs Hpvs).
    destruct (b =? idx mod 256).
    + ab_by (abound_bind _ _ (dec t) (fun v => Ret (VVar k v)) _ _ _ _ 0 0 0 0 IHt (fun _ => abound_ret _ _)).
    + ab_by (IHvs b (S k)).
Qed.

(* the statement of C09: for every positive-wire type, every byte string, known or unknown
   input length: what the decode reserves is at most rate * (input length) + allowance *)
Theorem reservations_bounded_by_input t known bs : wf_ty t = true -> pw t = true ->
  real_sum (snd (runt (dec t) known bs)) <= cr t * N.of_nat (length bs) + N.max (cs t) (cf t).
Proof.
  intros Ht Hp. pose proof (proj1 dec_abound_mut t Ht Hp known bs) as H.
  pose proof (reads_account _ (dec t) known bs) as Hacc.
  pose proof (proj1 dec_total_mut t Ht known bs) as Htot. rewrite <- runt_fst in Htot.
  destruct (runt (dec t) known bs) as [[v rest|rest| |] evs]; cbn [fst snd] in *; try contradiction.
  - destruct H as [H _]. nia.
  - nia.
Qed.
