(* Compact integers, as src/compact.rs writes them: per-width encoders with their
   casts/shifts/masks, compact_len, and per-width decoders (in the Prog monad)
   with the PrefixInput re-injection and the U*_OUT_OF_RANGE comparisons. *)
Require Import Scale.Bytes Scale.Eres Scale.Prog.

(* ---------------- encoders: CompactRef<'_, uN>::encode_to ---------------- *)

(* `dest.push_byte((x as u8) << 2)` *)
Definition mode0 (v : N) : list byte := [byte_of (wrap 8 (N.shiftl (wrap 8 v) 2))].
(* `(((x as u16) << 2) | 0b01).encode_to(dest)` *)
Definition mode1 (v : N) : list byte := le_enc 2 (N.lor (wrap 16 (N.shiftl (wrap 16 v) 2)) 1).
(* `(((x as u32) << 2) | 0b10).encode_to(dest)` *)
Definition mode2 (v : N) : list byte := le_enc 4 (N.lor (wrap 32 (N.shiftl (wrap 32 v) 2)) 2).

Definition enc_c8 (v : N) : eres (list byte) :=
  if v <=? 63 then EOk (mode0 v) else EOk (mode1 v).

Definition enc_c16 (v : N) : eres (list byte) :=
  if v <=? 63 then EOk (mode0 v)
  else if v <=? 16383 then EOk (mode1 v)
  else EOk (mode2 v).

Definition enc_c32 (v : N) : eres (list byte) :=
  if v <=? 63 then EOk (mode0 v)
  else if v <=? 16383 then EOk (mode1 v)
  else if v <=? 1073741823 then EOk (mode2 v)
  else EOk (byte_of 3 :: le_enc 4 v).

(* `leading_zeros()` of a B-byte unsigned integer *)
Definition leading_zeros (B : N) (v : N) : N := 8 * B - N.size v.

(* the byte loop: `for _ in 0..n { dest.push_byte(v as u8); v >>= 8 }`, returns
   the bytes and the final v *)
Fixpoint push_loop (n : nat) (v : N) : list byte * N :=
  match n with
  | O => ([], v)
  | S n' => let '(bs, v') := push_loop n' (N.shiftr v 8) in (byte_of (wrap 8 v) :: bs, v')
  end.

(* u64 (B = 8) and u128 (B = 16) *)
Definition enc_cbig (B : N) (v : N) : eres (list byte) :=
  if v <=? 63 then EOk (mode0 v)
  else if v <=? 16383 then EOk (mode1 v)
  else if v <=? 1073741823 then EOk (mode2 v)
  else
    let bytes_needed := B - leading_zeros B v / 8 in
    if bytes_needed <? 4 then EPanic
    else
      let tag := byte_of (wrap 8 (3 + wrap 32 (N.shiftl (bytes_needed - 4) 2))) in
      let '(bs, v') := push_loop (N.to_nat bytes_needed) v in
      if v' =? 0 then EOk (tag :: bs) else EPanic.

(* width in bytes -> encoder *)
Definition enc_compact (B : N) (v : N) : eres (list byte) :=
  if B =? 1 then enc_c8 v
  else if B =? 2 then enc_c16 v
  else if B =? 4 then enc_c32 v
  else enc_cbig B v.

(* ---------------- CompactLen::compact_len ---------------- *)
Definition len_compact (B : N) (v : N) : N :=
  if v <=? 63 then 1
  else if B =? 1 then 2
  else if v <=? 16383 then 2
  else if B =? 2 then 4
  else if v <=? 1073741823 then 4
  else if B =? 4 then 5
  else (B - leading_zeros B v / 8) + 1.

(* ---------------- decoders: Decode for Compact<uN> ---------------- *)

(* `res |= uN::from(input.read_byte()?) << (i * 8)` *)
Fixpoint lor_bytes (i : N) (bs : list byte) : N :=
  match bs with
  | [] => 0
  | b :: r => N.lor (N.shiftl (Byte.to_N b) (i * 8)) (lor_bytes (i + 1) r)
  end.

(* `uN::decode(&mut PrefixInput { prefix: Some(prefix), input })? >> 2` for a
   (1+k)-byte integer: the prefix is re-injected, k more bytes are read *)
Definition prefixed (p : byte) (k : N) : prog N :=
  b <- read k ;; Ret (N.shiftr (le_dec (p :: b)) 2).

Definition dec_c8 : prog N :=
  p <- read_byte ;;
  let pn := Byte.to_N p in
  match pn mod 4 with
  | 0 => Ret (N.shiftr pn 2)
  | 1 => x <- prefixed p 1 ;;
         if (63 <? x) && (x <=? 255) then Ret x else Fail
  | _ => Fail
  end.

Definition dec_c16 : prog N :=
  p <- read_byte ;;
  let pn := Byte.to_N p in
  match pn mod 4 with
  | 0 => Ret (N.shiftr pn 2)
  | 1 => x <- prefixed p 1 ;;
         if (63 <? x) && (x <=? 16383) then Ret x else Fail
  | 2 => x <- prefixed p 3 ;;
         if (16383 <? x) && (x <? 65536) then Ret x else Fail
  | _ => Fail
  end.

Definition dec_c32 : prog N :=
  p <- read_byte ;;
  let pn := Byte.to_N p in
  match pn mod 4 with
  | 0 => Ret (N.shiftr pn 2)
  | 1 => x <- prefixed p 1 ;;
         if (63 <? x) && (x <=? 16383) then Ret x else Fail
  | 2 => x <- prefixed p 3 ;;
         if (16383 <? x) && (x <=? N.shiftr u32max 2) then Ret x else Fail
  | _ => if N.shiftr pn 2 =? 0
         then b <- read 4 ;; let x := le_dec b in
              if N.shiftr u32max 2 <? x then Ret x else Fail
         else Fail
  end.

Definition umax (B : N) : N := 2 ^ (8 * B) - 1.

Definition dec_cbig (B : N) : prog N :=
  p <- read_byte ;;
  let pn := Byte.to_N p in
  match pn mod 4 with
  | 0 => Ret (N.shiftr pn 2)
  | 1 => x <- prefixed p 1 ;;
         if (63 <? x) && (x <=? 16383) then Ret x else Fail
  | 2 => x <- prefixed p 3 ;;
         if (16383 <? x) && (x <=? N.shiftr u32max 2) then Ret x else Fail
  | _ => let n := N.shiftr pn 2 + 4 in
         if n =? 4 then
           b <- read 4 ;; let x := le_dec b in
           if N.shiftr u32max 2 <? x then Ret x else Fail
         else if n =? 8 then
           b <- read 8 ;; let x := le_dec b in
           if N.shiftr u64max 8 <? x then Ret x else Fail
         else if (B =? 16) && (n =? 16) then
           b <- read 16 ;; let x := le_dec b in
           if N.shiftr (umax 16) 8 <? x then Ret x else Fail
         else if B <? n then Fail
         else
           bs <- rep_nat (N.to_nat n) read_byte ;;
           let r := lor_bytes 0 bs in
           if N.shiftr (umax B) ((B - n + 1) * 8) <? r then Ret r else Fail
  end.

Definition dec_compact (B : N) : prog N :=
  if B =? 1 then dec_c8
  else if B =? 2 then dec_c16
  else if B =? 4 then dec_c32
  else dec_cbig B.
