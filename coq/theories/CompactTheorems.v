(* Consequences of CompactProofs + CompactSpec used by props/C04.v. *)
Require Import Scale.Bytes Scale.Eres Scale.Prog Scale.ProgFacts Scale.ProgMore Scale.CompactImpl Scale.CompactSpec Scale.CompactProofs.

Lemma okwidth_bits B : okwidth B -> 8 <= 8 * B /\ 8 * B <= 536.
Proof. intros [->|[->|[->|[->| ->]]]]; lia. Qed.

Theorem compact_dec_iff B known bs v rest : okwidth B ->
  (oview (runo (dec_compact B) known bs) = OOk v rest <->
   v < 2 ^ (8 * B) /\ bs = spec_compact v ++ rest).
Proof.
  intros HB. destruct (okwidth_bits B HB) as [H8 H536].
  rewrite dec_compact_spec by exact HB. split.
  - destruct (sdec (8 * B) bs) as [[v' r']|] eqn:E; cbn [of_opt]; [|discriminate].
    intros [= <- <-]. now apply (sdec_canon (8 * B)).
  - intros [Hv ->]. now rewrite sdec_spec.
Qed.

Theorem compact_dec_no_panic B known bs : okwidth B ->
  runo (dec_compact B) known bs <> OPanic /\ runo (dec_compact B) known bs <> ONoFuel.
Proof.
  intros HB. pose proof (dec_compact_spec B known bs HB) as H.
  destruct (runo (dec_compact B) known bs); cbn [oview] in H;
    destruct (sdec (8 * B) bs) as [[? ?]|]; cbn [of_opt] in H; try discriminate; split; discriminate.
Qed.

Theorem compact_width_compat B B' v : okwidth B -> okwidth B' ->
  v < 2 ^ (8 * B) -> v < 2 ^ (8 * B') -> enc_compact B v = enc_compact B' v.
Proof. intros. now rewrite !enc_compact_spec. Qed.

Theorem spec_compact_length v :
  length (spec_compact v) =
  if v <? 2 ^ 6 then 1%nat else if v <? 2 ^ 14 then 2%nat else if v <? 2 ^ 30 then 4%nat
  else S (byte_len v).
Proof.
  unfold spec_compact.
  destruct (v <? 2 ^ 6); [reflexivity|]. destruct (v <? 2 ^ 14); [reflexivity|].
  destruct (v <? 2 ^ 30); [reflexivity|]. cbn [length]. now rewrite le_enc_len.
Qed.

(* in the length-tagged form the byte count is minimal (no leading zero byte)
   and at least 4 *)
Theorem spec_compact_big_minimal v : 2 ^ 30 <= v ->
  (4 <= byte_len v)%nat /\ 256 ^ (N.of_nat (byte_len v) - 1) <= v < 256 ^ N.of_nat (byte_len v).
Proof.
  intros H. split; [now apply byte_len_big|]. apply byte_len_spec. rewrite E30 in H. lia.
Qed.

(* uniqueness: two byte strings that decode (under any width) to the same value
   with the same remainder are equal; and the canonical forms are prefix-free *)
Theorem compact_unique B known bs1 bs2 v rest : okwidth B ->
  oview (runo (dec_compact B) known bs1) = OOk v rest ->
  oview (runo (dec_compact B) known bs2) = OOk v rest -> bs1 = bs2.
Proof.
  intros HB H1 H2. apply compact_dec_iff in H1 as [_ ->]; [|exact HB].
  apply compact_dec_iff in H2 as [_ ->]; [|exact HB]. reflexivity.
Qed.

Theorem spec_compact_inj a b ra rb : a < 2 ^ 128 -> b < 2 ^ 128 ->
  spec_compact a ++ ra = spec_compact b ++ rb -> a = b /\ ra = rb.
Proof.
  intros Ha Hb H.
  pose proof (sdec_spec 128 a ra ltac:(lia) ltac:(lia) Ha) as E1.
  pose proof (sdec_spec 128 b rb ltac:(lia) ltac:(lia) Hb) as E2.
  rewrite H in E1. rewrite E1 in E2. now inversion E2.
Qed.

Theorem enc_compact_no_panic B v : okwidth B -> v < 2 ^ (8 * B) -> enc_compact B v <> EPanic.
Proof. intros HB Hv. rewrite enc_compact_spec by assumption. discriminate. Qed.
