(* Consequences used by C14, C07, C18: self-delimitation, consume-all entry points,
   bulk = element-wise, skip = decode. *)
Require Import Scale.Bytes Scale.Eres Scale.Prog Scale.ProgFacts Scale.ProgMore Scale.Chunks Scale.CompactImpl
  Scale.CompactSpec Scale.CompactProofs Scale.CompactTheorems Scale.Utf8 Scale.Codec Scale.CodecEnc Scale.CodecDec Scale.CodecRt.

(* ---------- C14 ---------- *)
(* DecodeAll::decode_all / decode_all_with_depth_limit: decode, then require empty input *)
Definition decode_all (t : ty) (bs : list byte) : out val :=
  match runo (dec t) true bs with
  | OOk v [] => OOk v []
  | OOk _ (_ :: _) => OErr []
  | o => o
  end.

Theorem decode_all_exact t bs v :
  decode_all t bs = OOk v [] <-> runo (dec t) true bs = OOk v [].
Proof.
  unfold decode_all. destruct (runo (dec t) true bs) as [v' [|b r]|r| |]; split; intros H; try discriminate; auto.
Qed.

Theorem decode_all_rejects_trailing t bs v b r :
  runo (dec t) true bs = OOk v (b :: r) -> decode_all t bs = OErr [].
Proof. unfold decode_all. intros ->. reflexivity. Qed.

Theorem strict_prefix_fails t v bs pre suf known :
  wf_ty t = true -> wf t v = true -> enc_spec t v = EOk bs ->
  bs = pre ++ suf -> suf <> [] ->
  forall v' r, runo (dec t) known pre <> OOk v' r.
Proof.
  intros Ht Hw He -> Hs v' r Hd.
  pose proof (runo_extend _ (dec t) known suf pre v' r Hd) as Hx.
  pose proof (roundtrip t v (pre ++ suf) known [] Ht Hw He) as Hr. rewrite app_nil_r in Hr.
  rewrite Hr in Hx. injection Hx as _ Hx. destruct r; destruct suf; try discriminate. now apply Hs.
Qed.

(* a concatenation of encodings decodes value by value, in order *)
Fixpoint dec_all_of (ts : list ty) (known : bool) (bs : list byte) : option (list val * list byte) :=
  match ts with
  | [] => Some ([], bs)
  | t :: r => match runo (dec t) known bs with
              | OOk v rest => match dec_all_of r known rest with
                              | Some (vs, rest') => Some (v :: vs, rest')
                              | None => None
                              end
              | _ => None
              end
  end.

Definition item_ty (x : ty * val * list byte) := fst (fst x).
Definition item_val (x : ty * val * list byte) := snd (fst x).
Definition item_bytes (x : ty * val * list byte) := snd x.

Theorem concat_decodes_in_order known : forall (items : list (ty * val * list byte)) rest,
  Forall (fun x => wf_ty (item_ty x) = true /\
                   wf (item_ty x) (item_val x) = true /\ enc_spec (item_ty x) (item_val x) = EOk (item_bytes x)) items ->
  dec_all_of (map item_ty items) known (concat (map item_bytes items) ++ rest)
  = Some (map (fun x => canon (item_ty x) (item_val x)) items, rest).
Proof.
  induction items as [|x items IH]; intros rest H; [reflexivity|].
  inversion H as [|? ? Hx Hrest]; subst. destruct Hx as (Ht & Hw & He).
  cbn [map concat dec_all_of]. rewrite <- app_assoc, (roundtrip _ _ _ known _ Ht Hw He).
  now rewrite IH.
Qed.

(* ---------- C07: the bulk fast paths are indistinguishable from element-wise decoding ---------- *)
Lemma words_fuel_chunks (B : nat) : (0 < B)%nat -> forall l f,
  (length l <= f)%nat -> Forall (fun c => length c = B) l ->
  words_fuel f B (concat l) = map le_dec l.
Proof.
  intros HB. induction l as [|c l IH]; intros f Hf Hl.
  - destruct f; reflexivity.
  - destruct f as [|f]; [cbn in Hf; lia|]. inversion Hl as [|? ? H1 H2]; subst.
    cbn [concat words_fuel map].
    destruct (c ++ concat l) as [|b r] eqn:E.
    + exfalso. apply (f_equal (@length byte)) in E. rewrite app_length in E. cbn in E. lia.
    + rewrite <- E. rewrite firstn_app, skipn_app, Nat.sub_diag, firstn_all, skipn_all.
      cbn [firstn skipn app]. rewrite app_nil_r. f_equal. apply IH; [cbn in Hf; lia|exact H2].
Qed.

Lemma words_chunks B l : 0 < B -> Forall (fun c => length c = N.to_nat B) l ->
  words B (concat l) = map le_dec l.
Proof.
  intros HB Hl. unfold words. apply words_fuel_chunks; [lia| |exact Hl].
  rewrite (concat_length_uniform (N.to_nat B)) by exact Hl. nia.
Qed.

Lemma dec_prim_is_read B known bs : okB B = true ->
  runo (dec_prim B) known bs = runo (x <- read B ;; Ret (le_dec x)) known bs.
Proof.
  intros HB. unfold dec_prim. destruct (N.eqb_spec B 1) as [->|]; [|reflexivity].
  cbn [read_byte read bindp runo]. rewrite avail_spec. destruct bs as [|b r].
  - cbn [length]. destruct (N.leb_spec 1 (N.of_nat 0)); [lia|reflexivity].
  - cbn [length]. destruct (N.leb_spec 1 (N.of_nat (S (length r)))); [|lia].
    change (N.to_nat 1) with 1%nat. cbn [firstn skipn runo le_dec]. f_equal. lia.
Qed.

Lemma rep_dec_prim B known : okB B = true -> forall k bs,
  runo (rep_nat k (dec_prim B)) known bs =
  match runo (rep_nat k (read B)) known bs with
  | OOk l r => OOk (map le_dec l) r | OErr r => OErr r | OPanic => OPanic | ONoFuel => ONoFuel
  end.
Proof.
  intros HB. induction k as [|k IHk]; intros bs; [reflexivity|]. cbn [rep_nat].
  rewrite !runo_bind, dec_prim_is_read, runo_bind by exact HB.
  destruct (runo (read B) known bs) as [a r|r| |]; try reflexivity. cbn [runo].
  rewrite !runo_bind, IHk. destruct (runo (rep_nat k (read B)) known r); reflexivity.
Qed.

(* a primitive vector read in 16 KiB chunks (read_vec_from_u8s) = its elements read one at a time *)
Theorem bulk_vec_is_elementwise B n known bs : okB B = true ->
  oview (runo (x <- bulk_bytes B n ;; Ret (map VN (words B x))) known bs) =
  oview (runo (x <- rep n (dec_prim B) ;; Ret (map VN x)) known bs).
Proof.
  intros HB. pose proof (okB_pos B HB) as HBp.
  rewrite !runo_bind, runo_rep, (rep_dec_prim B known HB).
  pose proof (bulk_spec B n known bs HBp) as Hb.
  pose proof (rep_read_concat (read B) B known (fun bs0 => runo_read B known bs0) (N.to_nat n) bs) as He.
  rewrite N2Nat.id, runo_bind in He.
  pose proof (okP_rep_nat (list byte) (fun c => length c = N.to_nat B) (read B) (N.to_nat n) (okP_read B) known bs) as Hk.
  unfold rd in *.
  destruct (runo (bulk_bytes B n) known bs) as [x r|r| |]; destruct (avail (n * B) bs); cbn [oview] in Hb; try discriminate;
    destruct (runo (rep_nat (N.to_nat n) (read B)) known bs) as [l r'|r'| |]; cbn [runo oview] in He; try discriminate;
    cbn [runo oview]; try reflexivity; try contradiction.
  injection Hb as Ex Er. injection He as E1 E2. subst x r r'. destruct Hk as [Hl _].
  rewrite <- E1, words_chunks by (lia || exact Hl). reflexivity.
Qed.

(* a primitive array read in one piece = its elements read one at a time *)
Theorem bulk_array_is_elementwise B n known bs : okB B = true ->
  oview (runo (x <- read (n * B) ;; Ret (VSeq (map VN (words B x)))) known bs) =
  oview (runo (x <- rep n (dec_prim B) ;; Ret (VSeq (map VN x))) known bs).
Proof.
  intros HB. pose proof (okB_pos B HB) as HBp.
  rewrite !runo_bind, runo_rep, (rep_dec_prim B known HB).
  pose proof (runo_read (n * B) known bs) as Hb.
  pose proof (rep_read_concat (read B) B known (fun bs0 => runo_read B known bs0) (N.to_nat n) bs) as He.
  rewrite N2Nat.id, runo_bind in He.
  pose proof (okP_rep_nat (list byte) (fun c => length c = N.to_nat B) (read B) (N.to_nat n) (okP_read B) known bs) as Hk.
  unfold rd in *.
  destruct (runo (read (n * B)) known bs) as [x r|r| |]; destruct (avail (n * B) bs); cbn [oview] in Hb; try discriminate;
    destruct (runo (rep_nat (N.to_nat n) (read B)) known bs) as [l r'|r'| |]; cbn [runo oview] in He; try discriminate;
    cbn [runo oview]; try reflexivity; try contradiction.
  injection Hb as Ex Er. injection He as E1 E2. subst x r r'. destruct Hk as [Hl _].
  rewrite <- E1, words_chunks by (lia || exact Hl). reflexivity.
Qed.

(* encoding side: the deque's two slices, and the slice memory image, are the element-wise encoding *)
Theorem enc_two_slices c t (s0 s1 : list val) :
  ebind (econcat (map (enc c t) s0)) (fun a => ebind (econcat (map (enc c t) s1)) (fun b => EOk (a ++ b))) =
  econcat (map (enc c t) (s0 ++ s1)).
Proof.
  induction s0 as [|v s0 IH]; cbn [map econcat app].
  - cbn [ebind]. destruct (econcat (map (enc c t) s1)); reflexivity.
  - destruct (enc c t v) as [x| | |]; cbn [ebind]; try reflexivity.
    rewrite <- IH. destruct (econcat (map (enc c t) s0)) as [y| | |]; cbn [ebind]; try reflexivity.
    destruct (econcat (map (enc c t) s1)) as [z| | |]; cbn [ebind]; try reflexivity.
    now rewrite app_assoc.
Qed.

(* ---------- C18: skip and length peeking ---------- *)
(* Decode::encoded_fixed_size: Some for the multi-byte integers/floats (impl_endians), bool,
   and arrays of such; None for u8/i8 (impl_one_byte does not define it) and everything else *)
Fixpoint fixed_size (t : ty) : option N :=
  match t with
  | TPrim B => if B =? 1 then None else Some B
  | TBool => Some 1
  | TArray n t' => match fixed_size t' with Some s => Some (s * n) | None => None end
  | _ => None
  end.

(* Decode::skip: the default decodes and drops the value; arrays with a fixed element size
   skip element by element *)
Fixpoint skip (t : ty) : prog unit :=
  match t with
  | TArray n t' =>
      match fixed_size (TArray n t') with
      | Some _ => rep n (skip t') ;;; Ret tt
      | None => dec t ;;; Ret tt
      end
  | _ => dec t ;;; Ret tt
  end.

Definition forget {A} (o : out A) : out unit :=
  match o with OOk _ r => OOk tt r | OErr _ => OErr [] | OPanic => OPanic | ONoFuel => ONoFuel end.

Lemma forget_bind A (p : prog A) known bs : forget (runo (p ;;; Ret tt) known bs) = forget (runo p known bs).
Proof. rewrite runo_bind. destruct (runo p known bs); reflexivity. Qed.

Lemma forget_rep_nat A B (c : prog A) (d : prog B) known :
  (forall bs, forget (runo c known bs) = forget (runo d known bs)) ->
  forall k bs, forget (runo (rep_nat k c) known bs) = forget (runo (rep_nat k d) known bs).
Proof.
  intros H. induction k as [|k IH]; intros bs; [reflexivity|]. cbn [rep_nat]. rewrite !runo_bind.
  specialize (H bs).
  destruct (runo c known bs) as [a r|r| |]; destruct (runo d known bs) as [b r'|r'| |]; cbn [forget] in H; try discriminate; try reflexivity.
  injection H as <-. rewrite !runo_bind. specialize (IH r).
  destruct (runo (rep_nat k c) known r) as [l r1|r1| |]; destruct (runo (rep_nat k d) known r) as [l' r1'|r1'| |];
    cbn [forget] in IH; try discriminate; try reflexivity.
  injection IH as <-. reflexivity.
Qed.

Lemma forget_oview A B (o : out A) (o' : out B) :
  forget o = forget o' <-> forget (oview o) = forget (oview o').
Proof. destruct o; destruct o'; cbn [oview forget]; split; auto. Qed.

(* skipping advances exactly as far as decoding and fails exactly when decoding fails *)
Theorem skip_is_decode t known : wf_ty t = true -> forall bs,
  forget (runo (skip t) known bs) = forget (runo (dec t) known bs).
Proof.
  induction t; intros Hw bs; try (cbn [skip]; apply forget_bind).
  (* TArray *)
  cbn [skip]. destruct (fixed_size (TArray n t)) as [s|] eqn:Ef; [|apply forget_bind].
  cbn [fixed_size] in Ef. destruct (fixed_size t) as [s'|] eqn:Et; [|discriminate].
  cbn [wf_ty] in Hw. rewrite forget_bind.
  assert (Hel: forall bs0, forget (runo (skip t) known bs0) = forget (runo (dec t) known bs0)) by (intros; now apply IHt).
  assert (Hrep: forget (runo (rep n (skip t)) known bs) = forget (runo (rep n (dec t)) known bs)).
  { rewrite !runo_rep. now apply forget_rep_nat. }
  rewrite Hrep. clear Hrep.
  destruct t; cbn [fixed_size] in Et; try discriminate.
  - (* TBool elements: decoded element-wise *)
    change (dec (TArray n TBool)) with (items <- rep n (dec TBool) ;; Ret (VSeq items)).
    rewrite runo_bind. destruct (runo (rep n (dec TBool)) known bs); reflexivity.
  - (* primitive elements: the array decoder reads in bulk *)
    cbn [wf_ty] in Hw.
    pose proof (bulk_array_is_elementwise B n known bs Hw) as Hb.
    assert (E1: forget (runo (rep n (dec (TPrim B))) known bs) = forget (runo (x <- rep n (dec_prim B) ;; Ret (VSeq (map VN x))) known bs)).
    { rewrite runo_bind, !runo_rep.
      transitivity (forget (runo (rep_nat (N.to_nat n) (dec_prim B)) known bs)).
      - apply forget_rep_nat. intros bs0. cbn [dec]. rewrite runo_bind. destruct (runo (dec_prim B) known bs0); reflexivity.
      - destruct (runo (rep_nat (N.to_nat n) (dec_prim B)) known bs); reflexivity. }
    rewrite E1. symmetry. apply forget_oview.
    change (dec (TArray n (TPrim B))) with (x <- read (n * B) ;; Ret (VSeq (map VN (words B x)))). now rewrite Hb.
  - (* nested fixed-size arrays *)
    change (dec (TArray n (TArray n0 t))) with (items <- rep n (dec (TArray n0 t)) ;; Ret (VSeq items)).
    rewrite runo_bind. destruct (runo (rep n (dec (TArray n0 t))) known bs); reflexivity.
Qed.

(* DecodeLength::len on the six collections (and tuples led by one): the compact count *)
Definition peek_len (bs : list byte) : out N :=
  match runo (dec_compact 4) true bs with OOk n _ => OOk n [] | OErr _ => OErr [] | o => o end.

Theorem peek_len_correct k sz t l bs rest : wf (TColl k sz t) (VSeq l) = true ->
  enc_spec (TColl k sz t) (VSeq l) = EOk bs -> peek_len (bs ++ rest) = OOk (N.of_nat (length l)) [].
Proof.
  intros Hw He. cbn [wf] in Hw. apply andb_prop in Hw as [Hw _]. apply andb_prop in Hw as [_ Hn].
  change (enc spec_c (TColl k sz t) (VSeq l) = EOk bs) in He. cbn [enc] in He.
  apply eapp_ok in He as (x & y & Hx & _ & ->).
  rewrite (enc_count_spec _ Hn) in Hx. injection Hx as <-.
  unfold peek_len. rewrite <- app_assoc, rt_compact by (apply okwidth4 || now apply u32_fits). reflexivity.
Qed.

(* a tuple led by a collection: the leading collection's count *)
Theorem peek_len_tuple k sz t l b vb bs rest : wf (TPair (TColl k sz t) b) (VPair (VSeq l) vb) = true ->
  enc_spec (TPair (TColl k sz t) b) (VPair (VSeq l) vb) = EOk bs -> peek_len (bs ++ rest) = OOk (N.of_nat (length l)) [].
Proof.
  intros Hw He. cbn [wf] in Hw. apply andb_prop in Hw as [Hw _].
  change (enc spec_c (TPair (TColl k sz t) b) (VPair (VSeq l) vb) = EOk bs) in He. cbn [enc] in He.
  apply eapp_ok in He as (x & y & Hx & _ & ->).
  rewrite <- app_assoc. now apply (peek_len_correct k sz t l x).
Qed.
