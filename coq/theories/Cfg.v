(* C20: the cfg-gated code on the data path.
   - Output: without std, `impl Output for Vec<u8>` (extend_from_slice); with std,
     `impl<W: io::Write> Output for W` (write_all, which loops over short writes).
   - Error: with chain-error a description and a cause chain are kept, without it they are
     dropped.  The verdict does not depend on them. *)
Require Import Scale.Bytes.

(* a writer that accepts at most k >= 1 bytes per call; write_all loops until all is written *)
Fixpoint write_all (fuel : nat) (k : nat) (out bytes : list byte) : option (list byte) :=
  match bytes with
  | [] => Some out
  | _ => match fuel with
         | O => None
         | S f => let n := Nat.min (Nat.max k 1) (length bytes) in
                  write_all f k (out ++ firstn n bytes) (skipn n bytes)
         end
  end.

Theorem write_all_appends k : forall bytes fuel out, (length bytes <= fuel)%nat ->
  write_all fuel k out bytes = Some (out ++ bytes).
Proof.
  intros bytes fuel. revert bytes. induction fuel as [|f IH]; intros bytes out Hf.
  - destruct bytes; [cbn; now rewrite app_nil_r|cbn in Hf; lia].
  - destruct bytes as [|b r]; [cbn; now rewrite app_nil_r|].
    cbn [write_all]. set (n := Nat.min (Nat.max k 1) (length (b :: r))).
    assert (Hn: (1 <= n <= length (b :: r))%nat) by (unfold n; cbn [length]; lia).
    rewrite IH.
    + rewrite <- app_assoc. now rewrite firstn_skipn.
    + rewrite skipn_length. cbn [length] in *. lia.
Qed.

(* the two Output implementations describe the same byte string *)
Definition output_write (std : bool) (k : nat) (out bytes : list byte) : option (list byte) :=
  if std then write_all (length bytes) k out bytes else Some (out ++ bytes).

Theorem output_cfg_independent std std' k k' out bytes :
  output_write std k out bytes = output_write std' k' out bytes.
Proof. unfold output_write. destruct std, std'; rewrite ?write_all_appends by lia; reflexivity. Qed.

(* errors: only the description differs *)
Inductive error := EPlain | EDescribed (desc : list (list byte)).
Definition mk_error (chain : bool) (desc : list (list byte)) : error :=
  if chain then EDescribed desc else EPlain.
Definition verdict {A} (r : A + error) : option A := match r with inl a => Some a | inr _ => None end.

Theorem error_cfg_independent A (a : option A) chain chain' desc :
  verdict (match a with Some x => inl x | None => inr (mk_error chain desc) end) =
  verdict (match a with Some x => inl x | None => inr (mk_error chain' desc) end).
Proof. destruct a; reflexivity. Qed.
