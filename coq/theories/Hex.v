(* Hex string literals -> byte lists (used by the generated correspondence cases). *)
Require Import Scale.Bytes.
From Coq Require Export String Ascii.

Definition hexval (c : ascii) : N :=
  let n := N_of_ascii c in
  if (48 <=? n) && (n <=? 57) then n - 48
  else if (97 <=? n) && (n <=? 102) then n - 87
  else if (65 <=? n) && (n <=? 70) then n - 55
  else 0.

Fixpoint hex (s : string) : list byte :=
  match s with
  | String a (String b r) => byte_of (16 * hexval a + hexval b) :: hex r
  | _ => []
  end.

Fixpoint bytes_eqb (a b : list byte) : bool :=
  match a, b with
  | [], [] => true
  | x :: a', y :: b' => Byte.eqb x y && bytes_eqb a' b'
  | _, _ => false
  end.

Lemma bytes_eqb_eq a b : bytes_eqb a b = true <-> a = b.
Proof.
  revert b; induction a as [|x a IH]; intros [|y b]; cbn [bytes_eqb]; split; try discriminate; auto.
  - intros H. apply andb_prop in H as [H1 H2]. apply Byte.byte_dec_bl in H1. apply IH in H2. now subst.
  - intros [= -> ->]. apply andb_true_intro. split; [apply Byte.byte_dec_lb; reflexivity|now apply IH].
Qed.

(* indices (from 0) of the cases a checker rejects *)
Fixpoint failures_from {A} (chk : A -> bool) (i : N) (l : list A) : list N :=
  match l with
  | [] => []
  | c :: r => if chk c then failures_from chk (i + 1) r else i :: failures_from chk (i + 1) r
  end.
Definition failures {A} (chk : A -> bool) (l : list A) : list N := failures_from chk 0 l.
