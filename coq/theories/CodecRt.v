(* C02: decode (encode v ++ rest) = (canon v, rest), for every well-formed value of
   every type of the universe without bit sequences (those are tied by the
   correspondence check only). *)
Require Import Scale.Bytes Scale.Eres Scale.Prog Scale.ProgFacts Scale.ProgMore Scale.Chunks Scale.CompactImpl
  Scale.CompactSpec Scale.CompactProofs Scale.CompactTheorems Scale.Utf8 Scale.Codec Scale.CodecEnc Scale.CodecDec Scale.Bits.

(* ---------- inversion of the encoder combinators ---------- *)
Lemma eapp_ok a b bs : eapp a b = EOk bs -> exists x y, a = EOk x /\ b = EOk y /\ bs = x ++ y.
Proof.
  unfold eapp, ebind. destruct a as [x| | |]; try discriminate. destruct b as [y| | |]; try discriminate.
  intros [= <-]. eauto.
Qed.

Lemma econcat_ok l : forall bs, econcat l = EOk bs -> exists bss, l = map EOk bss /\ bs = concat bss.
Proof.
  induction l as [|r l IH]; intros bs; cbn [econcat].
  - intros [= <-]. exists []. auto.
  - unfold ebind at 1. destruct r as [x| | |]; try discriminate.
    unfold ebind. destruct (econcat l) as [y| | |] eqn:E; try discriminate.
    intros [= <-]. destruct (IH y eq_refl) as [bss [-> ->]]. exists (x :: bss). auto.
Qed.


(* ---------- primitive round trips ---------- *)
Lemma rt_compact B n known rest : okwidth B -> n < 2 ^ (8 * B) ->
  runo (dec_compact B) known (spec_compact n ++ rest) = OOk n rest.
Proof. intros HB Hn. apply oview_ok. apply compact_dec_iff; auto. Qed.

Lemma rt_read n a known rest : length a = N.to_nat n -> runo (read n) known (a ++ rest) = OOk a rest.
Proof.
  intros Hl. cbn [read runo]. rewrite avail_spec, app_length.
  destruct (N.leb_spec n (N.of_nat (length a + length rest))); [|lia]. cbn [runo].
  rewrite firstn_app, skipn_app, <- Hl, Nat.sub_diag, firstn_all, skipn_all. cbn [firstn skipn app].
  now rewrite app_nil_r.
Qed.

Lemma rt_read_bind A n a (f : list byte -> prog A) known rest : length a = N.to_nat n ->
  runo (x <- read n ;; f x) known (a ++ rest) = runo (f a) known rest.
Proof. intros Hl. rewrite runo_bind, rt_read by exact Hl. reflexivity. Qed.

Lemma pow_bytes B : 256 ^ N.of_nat (N.to_nat B) = 2 ^ (8 * B).
Proof. rewrite N2Nat.id. apply pow256. Qed.

Lemma rt_prim B n known rest : okB B = true -> n < 2 ^ (8 * B) ->
  runo (dec_prim B) known (le_enc (N.to_nat B) n ++ rest) = OOk n rest.
Proof.
  intros HB Hn. unfold dec_prim. destruct (N.eqb_spec B 1) as [->|H1].
  - change (N.to_nat 1) with 1%nat. cbn [le_enc app read_byte bindp runo]. rewrite to_byte_of.
    change (2 ^ (8 * 1)) with 256 in Hn. now rewrite N.mod_small.
  - rewrite rt_read_bind by apply le_enc_len. cbn [runo].
    rewrite le_dec_enc; [reflexivity|]. now rewrite pow_bytes.
Qed.

(* ---------- repetition ---------- *)
Lemma rep_rt (c : prog val) (f : val -> eres (list byte)) (g : val -> val) known l :
  (forall v, In v l -> forall bs, f v = EOk bs -> forall rest, runo c known (bs ++ rest) = OOk (g v) rest) ->
  forall bs, econcat (map f l) = EOk bs ->
  forall rest, runo (rep (N.of_nat (length l)) c) known (bs ++ rest) = OOk (map g l) rest.
Proof.
  intros Hc bs Hb rest. rewrite runo_rep, Nat2N.id. revert Hc bs Hb rest.
  induction l as [|a l IH]; intros Hc bs Hb rest; cbn [map econcat] in Hb.
  - injection Hb as <-. reflexivity.
  - unfold ebind at 1 in Hb. destruct (f a) as [x| | |] eqn:Ea; try discriminate.
    unfold ebind in Hb. destruct (econcat (map f l)) as [y| | |] eqn:El; try discriminate.
    injection Hb as <-. cbn [length rep_nat map]. rewrite runo_bind, <- app_assoc.
    rewrite (Hc a (or_introl eq_refl) x Ea). rewrite runo_bind.
    rewrite (IH (fun v Hv => Hc v (or_intror Hv)) y eq_refl). reflexivity.
Qed.

(* ---------- words ---------- *)
Lemma words_fuel_concat (B : nat) : (0 < B)%nat -> forall ns f,
  (length ns <= f)%nat -> Forall (fun n => n < 256 ^ N.of_nat B) ns ->
  words_fuel f B (concat (map (le_enc B) ns)) = ns.
Proof.
  intros HB. induction ns as [|n ns IH]; intros f Hf Hn.
  - destruct f; reflexivity.
  - destruct f as [|f]; [cbn in Hf; lia|]. inversion Hn as [|? ? H1 H2]; subst.
    cbn [map concat words_fuel].
    destruct (le_enc B n ++ concat (map (le_enc B) ns)) as [|b r] eqn:E.
    + exfalso. apply (f_equal (@length byte)) in E. rewrite app_length, le_enc_len in E. cbn in E. lia.
    + rewrite <- E. rewrite firstn_app, skipn_app, le_enc_len, Nat.sub_diag.
      rewrite firstn_all2 by (rewrite le_enc_len; lia). rewrite skipn_all2 by (rewrite le_enc_len; lia).
      cbn [firstn skipn app]. rewrite app_nil_r, le_dec_enc by exact H1. f_equal.
      apply IH; [cbn in Hf; lia|exact H2].
Qed.

Lemma words_concat B ns : 0 < B -> Forall (fun n => n < 2 ^ (8 * B)) ns ->
  words B (concat (map (le_enc (N.to_nat B)) ns)) = ns.
Proof.
  intros HB Hn. unfold words. apply words_fuel_concat; [lia| |].
  - rewrite (concat_length_uniform (N.to_nat B)).
    + rewrite map_length. nia.
    + apply Forall_forall. intros x Hx. apply in_map_iff in Hx as [n [<- _]]. apply le_enc_len.
  - eapply Forall_impl; [|exact Hn]. intros n H. cbv beta. now rewrite pow_bytes.
Qed.

(* a sequence of well-formed primitive values *)
Lemma prim_vals B l : forallb (wf (TPrim B)) l = true ->
  exists ns, l = map VN ns /\ Forall (fun n => n < 2 ^ (8 * B)) ns.
Proof.
  induction l as [|v l IH]; intros H; [exists []; split; [reflexivity|constructor]|].
  cbn [forallb] in H. apply andb_prop in H as [Hv Hl].
  destruct v; cbn [wf] in Hv; try discriminate. apply andb_prop in Hv as [HB Hn]. apply N.ltb_lt in Hn.
  destruct (IH Hl) as [ns [-> Hns]]. exists (n :: ns). split; [reflexivity|now constructor].
Qed.

Lemma enc_prims c B ns : Forall (fun n => n < 2 ^ (8 * B)) ns ->
  econcat (map (enc c (TPrim B)) (map VN ns)) = EOk (concat (map (le_enc (N.to_nat B)) ns)).
Proof.
  induction 1 as [|n ns Hn Hns IH]; [reflexivity|].
  cbn [map econcat]. rewrite IH. cbn [enc]. apply N.ltb_lt in Hn. rewrite Hn. reflexivity.
Qed.

(* bulk read of exactly the bytes that are there *)
Lemma rt_bulk B n bs known rest : 1 <= B <= 16 -> length bs = N.to_nat (n * B) ->
  runo (bulk_bytes B n) known (bs ++ rest) = OOk bs rest.
Proof.
  intros HB Hl. apply oview_ok. rewrite bulk_spec by exact HB. unfold rd.
  rewrite avail_spec, app_length. destruct (N.leb_spec (n * B) (N.of_nat (length bs + length rest))); [|lia].
  rewrite firstn_app, skipn_app, <- Hl, Nat.sub_diag, firstn_all, skipn_all. cbn [firstn skipn app].
  now rewrite app_nil_r.
Qed.

(* ---------- sets and maps: a strictly sorted list is its own canonical form ---------- *)
Definition klt (keyed : bool) (x y : val) : bool :=
  match val_cmp (key_of keyed x) (key_of keyed y) with Lt => true | _ => false end.

Lemma set_insert_last keyed x acc :
  forallb (fun y => klt keyed y x) acc = true -> set_insert keyed x acc = acc ++ [x].
Proof.
  induction acc as [|y acc IH]; intros H; [reflexivity|].
  cbn [forallb] in H. apply andb_prop in H as [Hy Hacc]. cbn [set_insert app]. unfold klt in Hy.
  destruct (val_cmp (key_of keyed y) (key_of keyed x)); try discriminate. now rewrite IH.
Qed.

Lemma canon_set_sorted keyed l : forall acc,
  strictly_sorted keyed l = true ->
  forallb (fun y => forallb (fun z => klt keyed y z) l) acc = true ->
  fold_left (fun a x => set_insert keyed x a) l acc = acc ++ l.
Proof.
  induction l as [|x l IH]; intros acc Hs Hacc; cbn [fold_left]; [now rewrite app_nil_r|].
  cbn [strictly_sorted] in Hs. apply andb_prop in Hs as [Hx Hl].
  rewrite set_insert_last.
  - rewrite IH; [now rewrite <- app_assoc|exact Hl|].
    rewrite forallb_app. apply andb_true_intro. split.
    + rewrite forallb_forall in *. intros y Hy. specialize (Hacc y Hy). cbn [forallb] in Hacc.
      now apply andb_prop in Hacc as [_ H].
    + cbn [forallb]. rewrite andb_true_r. exact Hx.
  - rewrite forallb_forall in *. intros y Hy. specialize (Hacc y Hy). cbn [forallb] in Hacc.
    now apply andb_prop in Hacc as [H _].
Qed.

Lemma canon_set_id keyed l : strictly_sorted keyed l = true -> canon_set keyed l = l.
Proof. intros H. unfold canon_set. now rewrite canon_set_sorted. Qed.

(* ---------- strings ---------- *)
Lemma bytes_of_vals_inv l bs : bytes_of_vals l = Some bs -> l = map (fun b => VN (Byte.to_N b)) bs.
Proof.
  revert bs; induction l as [|v l IH]; intros bs; cbn [bytes_of_vals].
  - intros [= <-]. reflexivity.
  - destruct (is_byte v) as [b|] eqn:Ev; [|discriminate]. destruct (bytes_of_vals l) as [bs'|]; [|discriminate].
    intros [= <-]. cbn [map]. f_equal; [|now apply IH].
    unfold is_byte in Ev. destruct v; try discriminate. destruct (N.ltb_spec n 256); [|discriminate].
    injection Ev as <-. rewrite to_byte_of, N.mod_small by lia. reflexivity.
Qed.

Lemma bytes_of_vals_len l bs : bytes_of_vals l = Some bs -> length bs = length l.
Proof. intros H. apply bytes_of_vals_inv in H. subst. now rewrite map_length. Qed.

Lemma oeq_node sz c : oeq (node sz c) c.
Proof. intros known bs. unfold node. rewrite runo_bind. destruct (runo c known bs); reflexivity. Qed.

(* ---------- the theorem ---------- *)
Lemma enc_count_spec n : N.of_nat n <=? u32max = true -> enc_count spec_c n = EOk (spec_compact (N.of_nat n)).
Proof. intros H. apply N.leb_le in H. unfold enc_count, spec_c. destruct (N.ltb_spec u32max (N.of_nat n)); [lia|reflexivity]. Qed.

Lemma okwidth4 : okwidth 4. Proof. unfold okwidth; auto. Qed.

Lemma u32_fits n : N.of_nat n <=? u32max = true -> N.of_nat n < 2 ^ (8 * 4).
Proof. intros H. apply N.leb_le in H. unfold u32max in H. change (2 ^ (8 * 4)) with 4294967296. lia. Qed.

(* bit sequences: the words are the padded chunks; the first `bits` of them are the sequence *)
Lemma rt_bits B msb l bs known rest :
  okB B = true -> B <=? 8 = true -> N.of_nat (length l) <? 2 ^ 29 = true ->
  enc spec_c (TBits B msb) (VBits l) = EOk bs ->
  runo (dec (TBits B msb)) known (bs ++ rest) = OOk (VBits l) rest.
Proof.
  intros HB HB8 Hlen He. apply N.ltb_lt in Hlen. apply N.leb_le in HB8. pose proof (okB_pos B HB) as Hpos.
  cbn [enc] in He. destruct (N.ltb_spec (2 ^ 29 - 1) (N.of_nat (length l))) as [Hbig|_]; [change (2 ^ 29) with 536870912 in *; lia|].
  apply eapp_ok in He as (x & y & Hx & [= <-] & ->). unfold spec_c in Hx. injection Hx as <-.
  set (W := N.to_nat (8 * B)).
  assert (HW: (0 < W)%nat) by (unfold W; lia).
  destruct (chunks_spec W l HW) as ((k & Hcat) & Hall & Hcnt).
  set (cs := chunks W l) in *.
  cbn [dec]. rewrite runo_bind, <- app_assoc, rt_compact; [|apply okwidth4|change (2 ^ (8 * 4)) with 4294967296; change (2 ^ 29) with 536870912 in Hlen; lia].
  destruct (N.ltb_spec (2 ^ 29 - 1) (N.of_nat (length l))) as [Hbig|_]; [change (2 ^ 29) with 536870912 in *; lia|].
  assert (Hnw: (N.of_nat (length l) + 8 * B - 1) / (8 * B) = N.of_nat (length cs)).
  { rewrite Hcnt. unfold W. rewrite N2Nat.id. reflexivity. }
  rewrite Hnw.
  rewrite <- (map_map (word_of_chunk B msb) (le_enc (N.to_nat B))).
  rewrite runo_bind, rt_bulk.
  - rewrite words_concat.
    + rewrite map_map.
      assert (Hpad: map (fun c => chunk_of_word B msb (word_of_chunk B msb c)) cs = map (pad_to W) cs).
      { apply map_ext_in. intros c Hc. apply chunk_word_rt. rewrite Forall_forall in Hall. now apply Hall. }
      rewrite Hpad, Hcat. rewrite app_length.
      destruct (N.ltb_spec (N.of_nat (length l + length (repeat false k))) (N.of_nat (length l))) as [Hbad|_]; [lia|].
      cbn [runo]. rewrite Nat2N.id, firstn_app, Nat.sub_diag, firstn_all. cbn [firstn]. now rewrite app_nil_r.
    + lia.
    + apply Forall_forall. intros w Hw. apply in_map_iff in Hw as [c [<- Hc]]. apply word_lt. rewrite Forall_forall in Hall. now apply Hall.
  - lia.
  - rewrite (concat_length_uniform (N.to_nat B)).
    + rewrite !map_length. nia.
    + apply Forall_forall. intros z Hz. apply in_map_iff in Hz as [n [<- _]]. apply le_enc_len.
Qed.

Definition RT (t : ty) : Prop :=
  forall v bs, wf t v = true -> enc spec_c t v = EOk bs ->
  forall known rest, runo (dec t) known (bs ++ rest) = OOk (canon t v) rest.

Lemma rt_items t l y known rest : RT t -> forallb (wf t) l = true ->
  econcat (map (enc spec_c t) l) = EOk y ->
  runo (rep (N.of_nat (length l)) (dec t)) known (y ++ rest) = OOk (map (canon t) l) rest.
Proof.
  intros IH Hl Hy. apply (rep_rt (dec t) (enc spec_c t) (canon t) known l); [|exact Hy].
  intros v Hv bs Hbs rest0. apply IH; [|exact Hbs]. rewrite forallb_forall in Hl. now apply Hl.
Qed.

Theorem roundtrip_mut :
  (forall t, wf_ty t = true -> RT t) /\
  (forall vs, wf_vars_ty vs = true ->
     forall k v bs, idx_ok vs = true -> wf_vars vs k v = true -> enc_vars spec_c vs k v = EOk bs ->
     exists i pb, bs = byte_of i :: pb /\ i < 256 /\ idx_in i vs = true /\
       forall known rest k0, runo (dec_vars vs i k0) known (pb ++ rest) = OOk (VVar (k0 + k) (canon_vars vs k v)) rest).
Proof.
  apply ty_variants_ind; unfold RT; cbn [wf_ty wf_vars_ty].
  - (* TUnit *) intros _ [ | | | | | | | | | | ] bs; cbn [wf enc]; try discriminate. intros _ [= <-] known rest. reflexivity.
  - (* TBool *) intros _ [ |b| | | | | | | | | ] bs; cbn [wf enc]; try discriminate. intros _ [= <-] known rest.
    destruct b; reflexivity.
  - (* TPrim *) intros B HB [ | |n| | | | | | | | ] bs; cbn [wf enc dec]; try discriminate.
    intros H. apply andb_prop in H as [_ Hn]. rewrite Hn. intros [= <-] known rest.
    rewrite runo_bind, rt_prim; [reflexivity|exact HB|now apply N.ltb_lt].
  - (* TCompact *) intros B HB [ | |n| | | | | | | | ] bs; cbn [wf enc dec]; try discriminate.
    intros H. apply andb_prop in H as [_ Hn]. rewrite Hn. unfold spec_c. intros [= <-] known rest.
    rewrite runo_bind, rt_compact; [reflexivity|now apply okB_okwidth|now apply N.ltb_lt].
  - (* TNonZero *) intros B HB [ | |n| | | | | | | | ] bs; cbn [wf enc dec]; try discriminate.
    intros H. apply andb_prop in H as [H Hn]. apply andb_prop in H as [_ H0]. rewrite H0, Hn. cbn [andb].
    intros [= <-] known rest. rewrite runo_bind, rt_prim; [|exact HB|now apply N.ltb_lt].
    apply N.ltb_lt in H0. destruct (N.eqb_spec n 0); [lia|reflexivity].
  - (* TOption *) intros t IH Ht [ | | | |v'| | | | | | ] bs; cbn [wf enc dec canon]; try discriminate.
    + intros _ [= <-] known rest. reflexivity.
    + intros Hv He known rest. apply eapp_ok in He as (x & y & [= <-] & Hy & ->).
      cbn [app read_byte bindp runo Byte.to_N]. rewrite runo_bind, (IH Ht v' y Hv Hy). reflexivity.
  - (* TResult *) intros t IHt e IHe H. apply andb_prop in H as [Ht He].
    intros [ | | | | |v'|v'| | | | ] bs; cbn [wf enc dec canon]; try discriminate.
    + intros Hv Hx known rest. apply eapp_ok in Hx as (x & y & [= <-] & Hy & ->).
      cbn [app read_byte bindp runo Byte.to_N]. rewrite runo_bind, (IHt Ht v' y Hv Hy). reflexivity.
    + intros Hv Hx known rest. apply eapp_ok in Hx as (x & y & [= <-] & Hy & ->).
      cbn [app read_byte bindp runo Byte.to_N]. rewrite runo_bind, (IHe He v' y Hv Hy). reflexivity.
  - (* TOptionBool *) intros _ [ | | |  |[ |[|]| | | | | | | | | ]| | | | | | ] bs; cbn [wf enc]; try discriminate;
      intros _ [= <-] known rest; reflexivity.
  - (* TColl *) intros k sz t IH H. apply andb_prop in H as [Ht Hsz]. apply N.leb_le in Hsz.
    intros [ | | | | | | |l| | | ] bs; cbn [wf enc]; try discriminate.
    intros Hw He known rest. apply andb_prop in Hw as [Hw Hsorted]. apply andb_prop in Hw as [Hl Hn].
    apply eapp_ok in He as (x & y & Hx & Hy & ->). rewrite (enc_count_spec _ Hn) in Hx. injection Hx as <-.
    cbn [dec]. rewrite runo_bind, <- app_assoc, rt_compact by (apply okwidth4 || now apply u32_fits).
    pose proof (rt_items t l y known rest (IH Ht) Hl Hy) as Hitems.
    assert (Hvec: runo (match t with
                        | TPrim B => bs <- bulk_bytes B (N.of_nat (length l)) ;; Ret (map VN (words B bs))
                        | _ => emit HDescend ;;; l0 <- chunked_items sz (N.of_nat (length l)) (dec t) ;; emit HAscend ;;; Ret l0
                        end) known (y ++ rest) = OOk (map (canon t) l) rest).
    { assert (Hgen: runo (emit HDescend ;;; l0 <- chunked_items sz (N.of_nat (length l)) (dec t) ;; emit HAscend ;;; Ret l0)
                         known (y ++ rest) = OOk (map (canon t) l) rest).
      { rewrite runo_emit, runo_bind, (chunked_items_is_rep sz _ (dec t) Hsz), Hitems. reflexivity. }
      destruct t; try exact Hgen.
      (* bulk path *)
      cbn [wf_ty] in Ht. destruct (prim_vals B l Hl) as [ns [-> Hns]].
      rewrite enc_prims in Hy by exact Hns. injection Hy as <-.
      rewrite runo_bind, rt_bulk.
      - cbn [runo]. rewrite words_concat; [|pose proof (okB_pos B Ht); lia|exact Hns].
        f_equal. rewrite map_map. apply map_ext_in. intros n Hn'. reflexivity.
      - now apply okB_pos.
      - rewrite (concat_length_uniform (N.to_nat B)).
        + rewrite !map_length. nia.
        + apply Forall_forall. intros z Hz. apply in_map_iff in Hz as [n [<- _]]. apply le_enc_len. }
    cbn [canon]. destruct k.
    + rewrite runo_bind, Hvec. reflexivity.
    + rewrite runo_bind, Hvec. reflexivity.
    + rewrite !runo_emit, runo_bind, (oeq_rep _ _ _ _ (oeq_node sz (dec t))), Hitems. reflexivity.
    + rewrite !runo_emit, runo_bind, (oeq_rep _ _ _ _ (oeq_node sz (dec t))), Hitems. cbn [bindp runo is_keyed]. now rewrite canon_set_id.
    + rewrite !runo_emit, runo_bind, (oeq_rep _ _ _ _ (oeq_node sz (dec t))), Hitems. cbn [bindp runo is_keyed]. now rewrite canon_set_id.
  - (* TStr *) intros _ [ | | | | | | |l| | | ] bs; cbn [wf enc]; try discriminate.
    intros Hw He known rest. apply andb_prop in Hw as [Hn Hu].
    destruct (bytes_of_vals l) as [bl|] eqn:Eb; [|discriminate].
    apply eapp_ok in He as (x & y & Hx & [= <-] & ->). rewrite (enc_count_spec _ Hn) in Hx. injection Hx as <-.
    cbn [dec]. rewrite runo_bind, <- app_assoc, rt_compact by (apply okwidth4 || now apply u32_fits).
    rewrite runo_bind, rt_bulk; [|lia|rewrite (bytes_of_vals_len _ _ Eb); lia].
    rewrite Hu. cbn [runo canon]. now rewrite (bytes_of_vals_inv _ _ Eb).
  - (* TArray *) intros n t IH Ht [ | | | | | | |l| | | ] bs; cbn [wf enc]; try discriminate.
    intros Hw He known rest. apply andb_prop in Hw as [Hl Hn]. rewrite Hn in He. apply N.eqb_eq in Hn. subst n.
    pose proof (rt_items t l bs known rest (IH Ht) Hl He) as Hitems.
    cbn [dec canon].
    assert (Hgen: runo (items <- rep (N.of_nat (length l)) (dec t) ;; Ret (VSeq items)) known (bs ++ rest)
                  = OOk (VSeq (map (canon t) l)) rest).
    { rewrite runo_bind, Hitems. reflexivity. }
    destruct t; try exact Hgen.
    cbn [wf_ty] in Ht. destruct (prim_vals B l Hl) as [ns [-> Hns]].
    rewrite enc_prims in He by exact Hns. injection He as <-.
    rewrite rt_read_bind.
    + cbn [runo]. rewrite words_concat; [|pose proof (okB_pos B Ht); lia|exact Hns].
      f_equal. f_equal. rewrite map_map. apply map_ext_in. intros n Hn'. reflexivity.
    + rewrite (concat_length_uniform (N.to_nat B)).
      * rewrite !map_length. nia.
      * apply Forall_forall. intros z Hz. apply in_map_iff in Hz as [n [<- _]]. apply le_enc_len.
  - (* TPair *) intros a IHa b IHb H. apply andb_prop in H as [Ha Hb'].
    intros [ | | | | | | | |x y| | ] bs; cbn [wf enc]; try discriminate.
    intros Hw He known rest. apply andb_prop in Hw as [Hx Hy].
    apply eapp_ok in He as (bx & by' & Ex & Ey & ->).
    cbn [dec canon]. rewrite runo_bind, <- app_assoc, (IHa Ha x bx Hx Ex).
    rewrite runo_bind, (IHb Hb' y by' Hy Ey). reflexivity.
  - (* TBox *) intros sz t IH Ht v bs Hw He known rest. cbn [wf enc canon dec] in *.
    rewrite !runo_emit, runo_bind, (IH Ht v bs Hw He). reflexivity.
  - (* TDuration *) intros _ [ | | | | | | | |[ | |s| | | | | | | | ] [ | | | | | | | |[ | |n| | | | | | | | ] [ | | | | | | | | | | ]| | ]| | ] bs;
      cbn [wf enc]; try discriminate.
    intros Hw He known rest. apply andb_prop in Hw as [Hs Hn]. apply N.ltb_lt in Hs, Hn. unfold a_billion in Hn.
    destruct (N.ltb_spec s (2 ^ 64)); [|lia]. destruct (N.ltb_spec n (2 ^ 32)); [|change (2 ^ 32) with 4294967296 in *; lia].
    cbn [andb] in He. assert (Hbs: bs = le_enc 8 s ++ le_enc 4 n) by (now injection He). subst bs. clear He. cbn [dec canon].
    rewrite <- app_assoc, rt_read_bind by apply le_enc_len. rewrite rt_read_bind by apply le_enc_len.
    rewrite !le_dec_enc by (change (256 ^ N.of_nat 8) with (2 ^ 64) || change (256 ^ N.of_nat 4) with (2 ^ 32); assumption).
    unfold a_billion. destruct (N.leb_spec 1000000000 n); [lia|]. reflexivity.
  - (* TBits *) intros B msb H [ | | | | | | | | |l| ] bs; cbn [wf]; try discriminate.
    intros Hw He known rest. apply andb_prop in Hw as [Hw Hlen]. apply andb_prop in Hw as [HB HB8].
    cbn [canon]. now apply rt_bits.
  - (* TEnum *) intros vs IH Hvs [ | | | | | | | | | |k v'] bs; cbn [wf enc]; try discriminate.
    intros Hw He known rest. apply andb_prop in Hw as [Hidx Hw].
    destruct (IH Hvs k v' bs Hidx Hw He) as (i & pb & -> & Hi & _ & Hdec).
    cbn [dec app read_byte bindp runo canon]. rewrite to_byte_of, N.mod_small by exact Hi.
    apply (Hdec known rest 0%nat).
  - (* VsNil *) intros _ k v bs _ H. discriminate.
  - (* VsCons *) intros idx t IHt vs IHvs H. apply andb_prop in H as [Ht Hvs].
    intros [|k] v bs Hidx Hw He; cbn [idx_ok wf_vars enc_vars] in *.
    + apply andb_prop in Hidx as [Hidx _]. apply andb_prop in Hidx as [Hlt _]. rewrite Hlt in He.
      apply eapp_ok in He as (x & y & [= <-] & Hy & ->). apply N.ltb_lt in Hlt.
      exists idx, y. repeat split; auto.
      * cbn [idx_in]. now rewrite N.eqb_refl.
      * intros known rest k0. cbn [dec_vars canon_vars]. rewrite N.mod_small by exact Hlt. rewrite N.eqb_refl.
        rewrite runo_bind, (IHt Ht v y Hw Hy). cbn [runo]. now rewrite Nat.add_0_r.
    + apply andb_prop in Hidx as [Hidx Hrest]. apply andb_prop in Hidx as [Hlt Hnotin].
      destruct (IHvs Hvs k v bs Hrest Hw He) as (i & pb & -> & Hi & Hin & Hdec).
      exists i, pb. repeat split; auto.
      * cbn [idx_in]. rewrite Hin. apply orb_true_r.
      * intros known rest k0. cbn [dec_vars canon_vars]. apply N.ltb_lt in Hlt. rewrite N.mod_small by exact Hlt.
        destruct (N.eqb_spec i idx) as [->|Hne].
        { rewrite Hin in Hnotin. discriminate. }
        rewrite (Hdec known rest (S k0)). f_equal. f_equal. lia.
Qed.

Theorem roundtrip t v bs known rest :
  wf_ty t = true -> wf t v = true -> enc_spec t v = EOk bs ->
  runo (dec t) known (bs ++ rest) = OOk (canon t v) rest.
Proof. intros Ht Hw He. exact (proj1 roundtrip_mut t Ht v bs Hw He known rest). Qed.
