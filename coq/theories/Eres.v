(* Outcome of the (pure) encoding side of the model. *)
Require Import Scale.Bytes.

Inductive eres (A : Type) :=
| EOk (a : A)
| EIll        (* model artefact: the value is not a value of the type (ruled out by rustc) *)
| EPanic      (* the Rust code panics here (assert!/expect/unreachable!) *)
| ENoFuel.    (* model artefact: recursion budget exhausted *)
Arguments EOk {A}. Arguments EIll {A}. Arguments EPanic {A}. Arguments ENoFuel {A}.

Definition ebind {A B} (r : eres A) (f : A -> eres B) : eres B :=
  match r with EOk a => f a | EIll => EIll | EPanic => EPanic | ENoFuel => ENoFuel end.

Declare Scope eres_scope.
Delimit Scope eres_scope with eres.
Notation "x <-- c ;; f" := (ebind c (fun x => f))
  (at level 61, c at next level, right associativity) : eres_scope.

(* concatenating the encodings of a list *)
Fixpoint econcat (l : list (eres (list byte))) : eres (list byte) :=
  match l with
  | [] => EOk []
  | r :: rs => ebind r (fun a => ebind (econcat rs) (fun b => EOk (a ++ b)))
  end.
