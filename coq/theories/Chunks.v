(* Chunked reading = one read (the bulk fast path), and chunked element decoding =
   plain repetition (decode_vec_chunked): for every count, every chunk size. *)
Require Import Scale.Bytes Scale.Prog Scale.ProgFacts Scale.ProgMore.

Definition rd (n : N) (bs : list byte) : out (list byte) :=
  if avail n bs then OOk (firstn (N.to_nat n) bs) (skipn (N.to_nat n) bs) else OErr [].

Lemma runo_read n known bs : oview (runo (read n) known bs) = rd n bs.
Proof. unfold rd. cbn [read runo]. destruct (avail n bs); reflexivity. Qed.

Lemma firstn_plus {A} (a b : nat) (l : list A) : firstn (a + b) l = firstn a l ++ firstn b (skipn a l).
Proof.
  revert l; induction a as [|a IH]; intros l; [reflexivity|].
  destruct l as [|x l]; cbn [Nat.add firstn skipn app]; [now rewrite firstn_nil|]. now rewrite IH.
Qed.

Lemma avail_plus a b bs : avail (a + b) bs = avail a bs && avail b (skipn (N.to_nat a) bs).
Proof.
  rewrite !avail_spec, skipn_length.
  destruct (N.leb_spec (a + b) (N.of_nat (length bs))); destruct (N.leb_spec a (N.of_nat (length bs)));
    destruct (N.leb_spec b (N.of_nat (length bs - N.to_nat a))); cbn [andb]; try reflexivity; lia.
Qed.

(* q reads of m bytes, concatenated = one read of q*m bytes *)
Lemma rep_read_concat (c : prog (list byte)) (m : N) known :
  (forall bs, oview (runo c known bs) = rd m bs) ->
  forall q bs,
    oview (runo (l <- rep_nat q c ;; Ret (concat l)) known bs) = rd (N.of_nat q * m) bs.
Proof.
  intros Hc. induction q as [|q IH]; intros bs.
  - cbn [rep_nat bindp runo oview concat]. unfold rd. replace (N.of_nat 0 * m) with 0 by lia.
    rewrite avail_spec. cbn. destruct (N.leb_spec 0 (N.of_nat (length bs))); [reflexivity|lia].
  - cbn [rep_nat]. rewrite runo_bind, runo_bind. specialize (Hc bs). unfold rd in Hc.
    replace (N.of_nat (S q) * m) with (m + N.of_nat q * m) by lia.
    unfold rd at 1. rewrite avail_plus.
    destruct (runo c known bs) as [a r|r| |]; destruct (avail m bs); cbn [oview] in Hc; try discriminate; cbn [andb oview]; try reflexivity.
    injection Hc as Ea Er. subst a r.
    rewrite runo_bind. specialize (IH (skipn (N.to_nat m) bs)). rewrite runo_bind in IH.
    unfold rd in IH.
    destruct (runo (rep_nat q c) known (skipn (N.to_nat m) bs)) as [l r|r| |];
      destruct (avail (N.of_nat q * m) (skipn (N.to_nat m) bs)); cbn [runo oview] in *; try discriminate; try reflexivity.
    injection IH as E1 E2. cbn [concat]. rewrite E1. subst r.
    replace (N.to_nat (m + N.of_nat q * m)) with (N.to_nat m + N.to_nat (N.of_nat q * m))%nat by lia.
    rewrite firstn_plus. f_equal. now rewrite skipn_skipn', Nat.add_comm.
Qed.

(* the two-stage loop of read_vec_from_u8s / decode_vec_chunked on bytes *)
Theorem chunked_read_is_one_read (c : N -> prog (list byte)) (unit : N) known (cl n : N) :
  0 < cl ->
  (forall k bs, oview (runo (c k) known bs) = rd (k * unit) bs) ->
  forall bs,
    oview (runo (full <- (if n / cl =? 0 then Ret [] else rep (n / cl) (c cl)) ;;
                 (if n mod cl =? 0 then Ret (concat full)
                  else last <- c (n mod cl) ;; Ret (concat full ++ last))) known bs)
    = rd (n * unit) bs.
Proof.
  intros Hcl Hc bs.
  pose proof (N.div_mod n cl ltac:(lia)) as Hdm. pose proof (N.mod_lt n cl ltac:(lia)) as Hml.
  set (q := n / cl) in *. set (r := n mod cl) in *.
  assert (Hfull: forall bs0, oview (runo (l <- (if q =? 0 then Ret [] else rep q (c cl)) ;; Ret (concat l)) known bs0)
                 = rd (q * (cl * unit)) bs0).
  { intros bs0. destruct (N.eqb_spec q 0) as [E|E].
    - rewrite E. apply (rep_read_concat (c cl) (cl * unit) known (Hc cl) 0).
    - rewrite runo_bind, runo_rep, <- runo_bind.
      rewrite (rep_read_concat (c cl) (cl * unit) known (Hc cl)). now rewrite N2Nat.id. }
  rewrite runo_bind. specialize (Hfull bs). rewrite runo_bind in Hfull.
  replace (n * unit) with (q * (cl * unit) + r * unit) by nia.
  unfold rd at 1. rewrite avail_plus. unfold rd in Hfull.
  destruct (runo (if q =? 0 then Ret [] else rep q (c cl)) known bs) as [l rest|rest| |];
    destruct (avail (q * (cl * unit)) bs); cbn [runo oview] in Hfull; try discriminate; cbn [andb oview]; try reflexivity.
  injection Hfull as E1 E2.
  destruct (N.eqb_spec r 0) as [Er|Er].
  - cbn [runo oview]. rewrite Er. replace (0 * unit) with 0 by lia.
    rewrite avail_spec. destruct (N.leb_spec 0 (N.of_nat (length (skipn (N.to_nat (q * (cl * unit))) bs)))); [|lia].
    rewrite E1, E2. f_equal; [|f_equal; lia]. f_equal. lia.
  - rewrite runo_bind. specialize (Hc r rest). unfold rd in Hc. rewrite <- E2.
    destruct (runo (c r) known rest) as [a r'|r'| |]; destruct (avail (r * unit) rest); cbn [oview] in Hc; try discriminate; cbn [runo oview]; try reflexivity.
    injection Hc as F1 F2. rewrite E1, F1, F2, E2.
    replace (N.to_nat (q * (cl * unit) + r * unit)) with (N.to_nat (q * (cl * unit)) + N.to_nat (r * unit))%nat by lia.
    rewrite firstn_plus. f_equal. now rewrite skipn_skipn', Nat.add_comm.
Qed.

(* ---------- element-wise chunking = plain repetition (outcome level) ---------- *)
Definition oeq {A} (p q : prog A) : Prop := forall known bs, runo p known bs = runo q known bs.

Lemma oeq_refl A (p : prog A) : oeq p p. Proof. intros ? ?; reflexivity. Qed.
Lemma oeq_trans A (p q r : prog A) : oeq p q -> oeq q r -> oeq p r.
Proof. intros H1 H2 ? ?. rewrite H1. apply H2. Qed.
Lemma oeq_sym A (p q : prog A) : oeq p q -> oeq q p.
Proof. intros H ? ?. symmetry. apply H. Qed.
Lemma peq_oeq A (p q : prog A) : peq p q -> oeq p q.
Proof. intros H known bs. now apply peq_runo. Qed.
Lemma oeq_bind A B (p q : prog A) (f g : A -> prog B) :
  oeq p q -> (forall a, oeq (f a) (g a)) -> oeq (bindp p f) (bindp q g).
Proof.
  intros Hp Hf known bs. rewrite !runo_bind, Hp. destruct (runo q known bs); auto. apply Hf.
Qed.
Lemma oeq_emit A h (p : prog A) : oeq (emit h ;;; p) p.
Proof. intros ? ?; reflexivity. Qed.

Lemma oeq_rep_nat A (c d : prog A) n : oeq c d -> oeq (rep_nat n c) (rep_nat n d).
Proof.
  intros H. induction n as [|n IH]; cbn [rep_nat]; [apply oeq_refl|].
  apply oeq_bind; [exact H|]. intros a. apply oeq_bind; [exact IH|]. intros; apply oeq_refl.
Qed.
Lemma oeq_rep A (c d : prog A) n : oeq c d -> oeq (rep n c) (rep n d).
Proof.
  intros H. eapply oeq_trans; [apply peq_oeq, rep_rep_nat|].
  eapply oeq_trans; [apply oeq_rep_nat; exact H|]. apply oeq_sym, peq_oeq, rep_rep_nat.
Qed.

Lemma rep_nat_mul A (c : prog A) (q m : nat) :
  oeq (l <- rep_nat q (rep_nat m c) ;; Ret (concat l)) (rep_nat (q * m) c).
Proof.
  induction q as [|q IH]; cbn [rep_nat Nat.mul].
  - apply oeq_refl.
  - eapply oeq_trans; [|apply oeq_sym, peq_oeq, rep_nat_app].
    eapply oeq_trans; [apply peq_oeq, peq_bind_assoc|].
    apply oeq_bind; [apply oeq_refl|]. intros l1.
    eapply oeq_trans; [apply peq_oeq, peq_bind_assoc|]. cbn [bindp concat].
    eapply oeq_trans; [|apply oeq_bind; [apply IH|intros; apply oeq_refl]].
    eapply oeq_trans; [|apply oeq_sym, peq_oeq, peq_bind_assoc]. cbn [bindp].
    apply oeq_refl.
Qed.

Theorem chunked_is_rep A (c : prog A) (pre : N -> prog unit) (cl n : N) :
  0 < cl -> (forall k B (p : prog B), oeq (pre k ;;; p) p) ->
  oeq (full <- (if n / cl =? 0 then Ret [] else rep (n / cl) (pre cl ;;; rep cl c)) ;;
       (if n mod cl =? 0 then Ret (concat full)
        else last <- (pre (n mod cl) ;;; rep (n mod cl) c) ;; Ret (concat full ++ last)))
      (rep n c).
Proof.
  intros Hcl Hpre.
  pose proof (N.div_mod n cl ltac:(lia)) as Hdm.
  set (q := n / cl) in *. set (r := n mod cl) in *.
  (* right-hand side: rep_nat (q*cl + r) *)
  eapply oeq_trans; [|apply oeq_sym, peq_oeq, rep_rep_nat].
  replace (N.to_nat n) with (N.to_nat q * N.to_nat cl + N.to_nat r)%nat by lia.
  eapply oeq_trans; [|apply oeq_sym, peq_oeq, rep_nat_app].
  (* left-hand side, first stage *)
  assert (H1: oeq (if q =? 0 then Ret [] else rep q (pre cl ;;; rep cl c))
                  (rep_nat (N.to_nat q) (rep_nat (N.to_nat cl) c))).
  { destruct (N.eqb_spec q 0) as [E|E]; [rewrite E; apply oeq_refl|].
    eapply oeq_trans; [apply peq_oeq, rep_rep_nat|].
    assert (Hc: oeq (pre cl ;;; rep cl c) (rep_nat (N.to_nat cl) c)).
    { eapply oeq_trans; [apply Hpre|]. apply peq_oeq, rep_rep_nat. }
    clear -Hc. induction (N.to_nat q) as [|k IH]; cbn [rep_nat]; [apply oeq_refl|].
    apply oeq_bind; [exact Hc|]. intros a. apply oeq_bind; [exact IH|]. intros; apply oeq_refl. }
  eapply oeq_trans; [apply oeq_bind; [exact H1|intros; apply oeq_refl]|].
  eapply oeq_trans; [|apply oeq_bind; [apply rep_nat_mul|intros; apply oeq_refl]].
  eapply oeq_trans; [|apply oeq_sym, peq_oeq, peq_bind_assoc]. cbn [bindp].
  apply oeq_bind; [apply oeq_refl|]. intros full.
  destruct (N.eqb_spec r 0) as [E|E].
  - rewrite E. change (N.to_nat 0) with 0%nat. cbn [rep_nat bindp]. intros known bs. cbn [runo]. now rewrite app_nil_r.
  - apply oeq_bind; [|intros; apply oeq_refl].
    eapply oeq_trans; [apply Hpre|]. apply peq_oeq, rep_rep_nat.
Qed.
