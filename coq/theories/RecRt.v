(* Round trip for recursive derived types: decoding the encoding of a value of a recursive enum
   (with a recursion budget that covers the value) returns the value and leaves what follows. *)
Require Import Scale.Bytes Scale.Eres Scale.Prog Scale.ProgFacts Scale.ProgMore Scale.Chunks Scale.Monitors
  Scale.CompactImpl Scale.CompactSpec Scale.CompactProofs Scale.CompactTheorems Scale.Utf8 Scale.Codec Scale.CodecEnc Scale.CodecDec Scale.CodecRt
  Scale.TraceEq Scale.Depth Scale.Rec.

Definition renc_field (self : val -> eres (list byte)) (f : rfield) (x : val) : eres (list byte) :=
  match f, x with
  | FTy t, _ => if wf t x then enc spec_c t x else EIll
  | FBox _, _ => self x
  | FOptBox _, VNone => EOk [x00]
  | FOptBox _, VSome y => eapp (EOk [x01]) (self y)
  | FVec _, VSeq l => eapp (enc_count spec_c (length l)) (econcat (map self l))
  | _, _ => EIll
  end.
Fixpoint renc_fields (self : val -> eres (list byte)) (fs : list rfield) (fv : val) : eres (list byte) :=
  match fs, fv with
  | [], VUnit => EOk []
  | f :: r, VPair x y => eapp (renc_field self f x) (renc_fields self r y)
  | _, _ => EIll
  end.
Fixpoint renc (F : nat) (d : rdef) (v : val) : eres (list byte) :=
  match F with
  | O => EIll
  | S f =>
      match v with
      | VVar k fv =>
          match nth_error d k with
          | Some (idx, fs) => eapp (EOk [byte_of idx]) (renc_fields (renc f d) fs fv)
          | None => EIll
          end
      | _ => EIll
      end
  end.

(* what decoding returns: universe-typed fields in canonical form *)
Definition rcanon_field (self : val -> val) (f : rfield) (x : val) : val :=
  match f, x with
  | FTy t, _ => canon t x
  | FBox _, _ => self x
  | FOptBox _, VSome y => VSome (self y)
  | FVec _, VSeq l => VSeq (map self l)
  | _, _ => x
  end.
Fixpoint rcanon_fields (self : val -> val) (fs : list rfield) (fv : val) : val :=
  match fs, fv with
  | f :: r, VPair x y => VPair (rcanon_field self f x) (rcanon_fields self r y)
  | _, _ => fv
  end.
Fixpoint rcanon (F : nat) (d : rdef) (v : val) : val :=
  match F with
  | O => v
  | S f =>
      match v with
      | VVar k fv => match nth_error d k with Some (_, fs) => VVar k (rcanon_fields (rcanon f d) fs fv) | None => v end
      | _ => v
      end
  end.

(* indices below 256 and pairwise distinct (what derive_accepts guarantees, C17) *)
Fixpoint ridx_ok (d : rdef) : bool :=
  match d with
  | [] => true
  | (i, _) :: r => (i <? 256) && negb (existsb (fun v => fst v =? i) r) && ridx_ok r
  end.

Lemma rvariants_select (self : prog val) d : ridx_ok d = true -> forall k idx fs k0,
  nth_error d k = Some (idx, fs) ->
  rvariants self d idx k0 = (v <- rfields self fs ;; Ret (VVar (k0 + k) v)).
Proof.
  induction d as [|[i fs'] r IH]; intros Hok k idx fs k0 Hn; [destruct k; discriminate|].
  cbn [ridx_ok] in Hok. apply andb_prop in Hok as [Hok Hr]. apply andb_prop in Hok as [Hlt Hnot]. apply N.ltb_lt in Hlt.
  destruct k as [|k]; cbn [nth_error] in Hn; cbn [rvariants].
  - injection Hn as -> ->. rewrite N.mod_small, N.eqb_refl, Nat.add_0_r by exact Hlt. reflexivity.
  - rewrite N.mod_small by exact Hlt.
    destruct (N.eqb_spec idx i) as [->|Hne].
    + exfalso. apply nth_error_In in Hn. apply negb_true_iff in Hnot.
      assert (existsb (fun v : N * list rfield => fst v =? i) r = true); [|congruence].
      apply existsb_exists. exists (i, fs). split; [exact Hn|cbn [fst]; apply N.eqb_refl].
    + rewrite (IH Hr k idx fs (S k0) Hn). replace (k0 + S k)%nat with (S k0 + k)%nat by lia. reflexivity.
Qed.

Lemma ridx_lt d : ridx_ok d = true -> forall k idx fs, nth_error d k = Some (idx, fs) -> idx < 256.
Proof.
  induction d as [|[i fs'] r IH]; intros Hok k idx fs Hn; [destruct k; discriminate|].
  cbn [ridx_ok] in Hok. apply andb_prop in Hok as [Hok Hr]. apply andb_prop in Hok as [Hlt _].
  destruct k; cbn [nth_error] in Hn; [injection Hn as -> _; now apply N.ltb_lt|eauto].
Qed.
Lemma wf_rdef_nth d : wf_rdef d = true -> forall k idx fs, nth_error d k = Some (idx, fs) -> forallb wf_rfield fs = true.
Proof.
  unfold wf_rdef. intros H k idx fs Hn. rewrite forallb_forall in H. apply (H (idx, fs)). eapply nth_error_In; eauto.
Qed.

Section Fields.
  Variables (self : prog val) (senc : val -> eres (list byte)) (scanon : val -> val).
  Hypothesis self_rt : forall x bs, senc x = EOk bs -> forall known rest, runo self known (bs ++ rest) = OOk (scanon x) rest.

  Lemma boxed_rt sz x bs known rest : senc x = EOk bs -> runo (boxed sz self) known (bs ++ rest) = OOk (scanon x) rest.
  Proof. intros H. unfold boxed. rewrite !runo_emit, runo_bind, (self_rt x bs H). reflexivity. Qed.

  Lemma rfield_rt f x bs known rest : wf_rfield f = true -> renc_field senc f x = EOk bs ->
    runo (rfield_dec self f) known (bs ++ rest) = OOk (rcanon_field scanon f x) rest.
  Proof.
    intros Hw He. destruct f as [t|sz|sz|sz]; cbn [rfield_dec renc_field rcanon_field wf_rfield] in *.
    - destruct (wf t x) eqn:Hx; [|discriminate]. now apply roundtrip.
    - now apply boxed_rt.
    - destruct x; try discriminate.
      + injection He as <-. reflexivity.
      + apply eapp_ok in He as (a & b & [= <-] & Hb & ->). cbn [app read_byte bindp runo Byte.to_N].
        rewrite runo_bind, (boxed_rt sz x b known rest Hb). reflexivity.
    - destruct x; try discriminate. apply N.leb_le in Hw.
      apply eapp_ok in He as (a & b & Ha & Hb & ->).
      unfold enc_count in Ha. destruct (N.ltb_spec u32max (N.of_nat (length l))) as [|Hn]; [discriminate|].
      unfold spec_c in Ha. injection Ha as <-.
      rewrite runo_bind, <- app_assoc, rt_compact; [|apply okwidth4|unfold u32max in Hn; change (2 ^ (8 * 4)) with 4294967296; lia].
      rewrite runo_emit, runo_bind, (chunked_items_is_rep sz _ self Hw).
      rewrite (rep_rt self senc scanon known l (fun v _ bs0 Hbs rest0 => self_rt v bs0 Hbs known rest0) b Hb rest).
      reflexivity.
  Qed.

  Lemma rfields_rt fs : forallb wf_rfield fs = true -> forall fv bs known rest, renc_fields senc fs fv = EOk bs ->
    runo (rfields self fs) known (bs ++ rest) = OOk (rcanon_fields scanon fs fv) rest.
  Proof.
    induction fs as [|f r IH]; intros Hw fv bs known rest He; cbn [rfields renc_fields rcanon_fields forallb] in *.
    - destruct fv; try discriminate. injection He as <-. reflexivity.
    - apply andb_prop in Hw as [Hf Hr]. destruct fv; try discriminate.
      apply eapp_ok in He as (a & b & Ha & Hb & ->).
      rewrite runo_bind, <- app_assoc, (rfield_rt f fv1 a known (b ++ rest) Hf Ha).
      rewrite runo_bind, (IH Hr fv2 b known rest Hb). reflexivity.
  Qed.
End Fields.

Theorem rec_roundtrip d : wf_rdef d = true -> ridx_ok d = true ->
  forall F v bs, renc F d v = EOk bs ->
  forall known rest, runo (rdec F d) known (bs ++ rest) = OOk (rcanon F d v) rest.
Proof.
  intros Hw Hok. induction F as [|f IH]; intros v bs He known rest; cbn [renc] in He; [discriminate|].
  destruct v as [ | | | | | | | | | |k fv]; try discriminate.
  destruct (nth_error d k) as [[idx fs]|] eqn:Hn; [|discriminate].
  apply eapp_ok in He as (a & b & [= <-] & Hb & ->).
  pose proof (ridx_lt d Hok k idx fs Hn) as Hlt.
  cbn [rdec rcanon app read_byte bindp runo]. rewrite Hn, to_byte_of, N.mod_small by exact Hlt.
  rewrite (rvariants_select _ d Hok k idx fs 0 Hn), runo_bind.
  rewrite (rfields_rt (rdec f d) (renc f d) (rcanon f d) (fun x bs0 H known0 rest0 => IH x bs0 H known0 rest0) fs
             (wf_rdef_nth d Hw k idx fs Hn) fv b known rest Hb).
  reflexivity.
Qed.

(* more budget on the decoding side does not matter *)
Corollary rec_roundtrip_any_budget d F F' v bs known rest :
  wf_rdef d = true -> ridx_ok d = true -> (F <= F')%nat -> renc F d v = EOk bs ->
  runo (rdec F' d) known (bs ++ rest) = OOk (rcanon F d v) rest.
Proof.
  intros Hw Hok HF He. pose proof (rec_roundtrip d Hw Hok F v bs He known rest) as H.
  rewrite <- runt_fst. rewrite (rec_budget_monotone d F F' known (bs ++ rest) HF); [now rewrite runt_fst|].
  rewrite H. discriminate.
Qed.

(* ---------- nesting depth of a recursive value = nesting of the trace of decoding it ---------- *)
Definition rdepth_field (self : val -> N) (f : rfield) (x : val) : N :=
  match f, x with
  | FTy t, _ => ddepth t x
  | FBox _, _ => 1 + self x
  | FOptBox _, VSome y => 1 + self y
  | FVec _, VSeq l => 1 + maxl (map self l)
  | _, _ => 0
  end.
Fixpoint rdepth_fields (self : val -> N) (fs : list rfield) (fv : val) : N :=
  match fs, fv with
  | f :: r, VPair x y => N.max (rdepth_field self f x) (rdepth_fields self r y)
  | _, _ => 0
  end.
Fixpoint rdepth (F : nat) (d : rdef) (v : val) : N :=
  match F with
  | O => 0
  | S f =>
      match v with
      | VVar k fv => match nth_error d k with Some (_, fs) => rdepth_fields (rdepth f d) fs fv | None => 0 end
      | _ => 0
      end
  end.

Section FieldsDepth.
  Variables (self : prog val) (senc : val -> eres (list byte)) (scanon : val -> val) (sdepth : val -> N).
  Hypothesis self_rt : forall x bs, senc x = EOk bs -> forall known rest, runo self known (bs ++ rest) = OOk (scanon x) rest.
  Hypothesis self_bal : forall x bs, senc x = EOk bs -> forall known rest, bal (dtr self known (bs ++ rest)) (sdepth x).

  Lemma boxed_bal sz x bs known rest : senc x = EOk bs -> bal (dtr (boxed sz self) known (bs ++ rest)) (1 + sdepth x).
  Proof.
    intros H. unfold boxed. rewrite !dtr_emit. cbn [dpi filter is_depth app].
    rewrite (dtr_bind_ok _ _ self _ known _ _ _ (self_rt x bs H known rest)), dtr_emit, dtr_ret, app_nil_r.
    change (EHook HDescend :: ?y ++ dpi [EHook HAscend]) with ([EHook HDescend] ++ y ++ [EHook HAscend]).
    apply bal_wrap. now apply self_bal.
  Qed.

  Lemma rfield_bal f x bs known rest : wf_rfield f = true -> renc_field senc f x = EOk bs ->
    bal (dtr (rfield_dec self f) known (bs ++ rest)) (rdepth_field sdepth f x).
  Proof.
    intros Hw He. destruct f as [t|sz|sz|sz]; cbn [rfield_dec renc_field rdepth_field wf_rfield] in *.
    - destruct (wf t x) eqn:Hx; [|discriminate]. exact (proj1 ddepth_mut t Hw x bs Hx He known rest).
    - now apply boxed_bal.
    - destruct x; try discriminate.
      + injection He as <-. cbn [app]. rewrite dtr_read_byte. cbn [Byte.to_N]. apply bal_nil.
      + apply eapp_ok in He as (a & b & [= <-] & Hb & ->). cbn [app]. rewrite dtr_read_byte. cbn [Byte.to_N].
        rewrite (dtr_bind_ok _ _ _ _ known _ _ _ (boxed_rt self senc scanon self_rt sz x b known rest Hb)), dtr_ret, app_nil_r.
        now apply boxed_bal.
    - destruct x; try discriminate. apply N.leb_le in Hw.
      apply eapp_ok in He as (a & b & Ha & Hb & ->).
      unfold enc_count in Ha. destruct (N.ltb_spec u32max (N.of_nat (length l))) as [|Hn]; [discriminate|].
      unfold spec_c in Ha. injection Ha as <-. rewrite <- app_assoc.
      assert (Hfit: N.of_nat (length l) < 2 ^ (8 * 4)) by (unfold u32max in Hn; change (2 ^ (8 * 4)) with 4294967296; lia).
      rewrite (dtr_bind_ok _ _ (dec_compact 4) _ known _ _ _ (rt_compact 4 _ known (b ++ rest) okwidth4 Hfit)).
      rewrite (nodepth_dtr _ _ known (nodepth_dec_compact 4)). cbn [app].
      pose proof (rep_rt self senc scanon known l (fun v _ bs0 Hbs rest0 => self_rt v bs0 Hbs known rest0) b Hb rest) as Hrun.
      assert (Hch: runo (chunked_items sz (N.of_nat (length l)) self) known (b ++ rest) = OOk (map scanon l) rest)
        by (rewrite (chunked_items_is_rep sz _ self Hw); exact Hrun).
      rewrite dtr_emit, (dtr_bind_ok _ _ _ _ known _ _ _ Hch), dtr_emit, dtr_ret, app_nil_r.
      rewrite (teq_dtr _ _ _ (teq_chunked sz _ self Hw)).
      apply bal_wrap.
      apply (rep_bal self senc scanon sdepth known l); [|exact Hb].
      intros v _ bs0 Hbs rest0. split; [now apply self_rt|now apply self_bal].
  Qed.

  Lemma rfields_bal fs : forallb wf_rfield fs = true -> forall fv bs known rest, renc_fields senc fs fv = EOk bs ->
    bal (dtr (rfields self fs) known (bs ++ rest)) (rdepth_fields sdepth fs fv).
  Proof.
    induction fs as [|f r IH]; intros Hw fv bs known rest He; cbn [rfields renc_fields rdepth_fields forallb] in *.
    - destruct fv; try discriminate. apply bal_nil.
    - apply andb_prop in Hw as [Hf Hr]. destruct fv; try discriminate.
      apply eapp_ok in He as (a & b & Ha & Hb & ->). rewrite <- app_assoc.
      rewrite (dtr_bind_ok _ _ _ _ known _ _ _ (rfield_rt self senc scanon self_rt f fv1 a known (b ++ rest) Hf Ha)).
      rewrite (dtr_bind_ok _ _ _ _ known _ _ _ (rfields_rt self senc scanon self_rt r Hr fv2 b known rest Hb)), dtr_ret, app_nil_r.
      apply bal_app; [now apply rfield_bal|now apply IH].
  Qed.
End FieldsDepth.

Theorem rec_trace_depth d : wf_rdef d = true -> ridx_ok d = true ->
  forall F v bs, renc F d v = EOk bs ->
  forall known rest, bal (dtr (rdec F d) known (bs ++ rest)) (rdepth F d v).
Proof.
  intros Hw Hok. induction F as [|f IH]; intros v bs He known rest; cbn [renc] in He; [discriminate|].
  destruct v as [ | | | | | | | | | |k fv]; try discriminate.
  destruct (nth_error d k) as [[idx fs]|] eqn:Hn; [|discriminate].
  apply eapp_ok in He as (a & b & [= <-] & Hb & ->).
  pose proof (ridx_lt d Hok k idx fs Hn) as Hlt.
  cbn [rdec rdepth app]. rewrite Hn, dtr_read_byte, to_byte_of, N.mod_small by exact Hlt.
  rewrite (rvariants_select _ d Hok k idx fs 0 Hn).
  pose proof (fun x bs0 H known0 rest0 => rec_roundtrip d Hw Hok f x bs0 H known0 rest0) as Hrt.
  rewrite (dtr_bind_ok _ _ _ _ known _ _ _
             (rfields_rt (rdec f d) (renc f d) (rcanon f d) Hrt fs (wf_rdef_nth d Hw k idx fs Hn) fv b known rest Hb)), dtr_ret, app_nil_r.
  apply (rfields_bal (rdec f d) (renc f d) (rcanon f d) (rdepth f d) Hrt (fun x bs0 H known0 rest0 => IH x bs0 H known0 rest0) fs
           (wf_rdef_nth d Hw k idx fs Hn) fv b known rest Hb).
Qed.

(* depth-limited decoding of the encoding of a recursive value: the value when L covers its
   nesting, an error when it is deeper - with any recursion budget that covers the value *)
Theorem rec_depth_limit_on_encodings d F v bs known rest L :
  wf_rdef d = true -> ridx_ok d = true -> renc F d v = EOk bs ->
  if rdepth F d v <=? L
  then exists s, run (depthmon L) (rdec F d) known (bs ++ rest) 0 = ROk (rcanon F d v) rest s
  else exists s, run (depthmon L) (rdec F d) known (bs ++ rest) 0 = RErr s.
Proof.
  intros Hw Hok He. pose proof (depth_limit_exact _ (rdec F d) known (bs ++ rest) L) as H.
  pose proof (rec_trace_depth d Hw Hok F v bs He known rest) as Hb. apply bal_dpi in Hb.
  pose proof (rec_roundtrip d Hw Hok F v bs He known rest) as Hr. rewrite <- runt_fst in Hr.
  unfold dtr in Hb. destruct (runt (rdec F d) known (bs ++ rest)) as [o evs]. cbn [fst snd] in *. subst o.
  destruct (Hb 0) as [Hm _]. rewrite Hm, N.add_0_l in H. destruct (rdepth F d v <=? L); exact H.
Qed.

(* ---------- the memory announced while decoding a recursive value ---------- *)
Require Import Scale.Mem.

Definition rann_field (self : val -> N) (f : rfield) (x : val) : N :=
  match f, x with
  | FTy t, _ => ann t x
  | FBox sz, _ => sz + self x
  | FOptBox sz, VSome y => sz + self y
  | FVec sz, VSeq l => N.of_nat (length l) * sz + suml (map self l)
  | _, _ => 0
  end.
Fixpoint rann_fields (self : val -> N) (fs : list rfield) (fv : val) : N :=
  match fs, fv with
  | f :: r, VPair x y => rann_field self f x + rann_fields self r y
  | _, _ => 0
  end.
Fixpoint rann (F : nat) (d : rdef) (v : val) : N :=
  match F with
  | O => 0
  | S f =>
      match v with
      | VVar k fv => match nth_error d k with Some (_, fs) => rann_fields (rann f d) fs fv | None => 0 end
      | _ => 0
      end
  end.

Section FieldsMem.
  Variables (self : prog val) (senc : val -> eres (list byte)) (scanon : val -> val) (sann : val -> N).
  Hypothesis self_rt : forall x bs, senc x = EOk bs -> forall known rest, runo self known (bs ++ rest) = OOk (scanon x) rest.
  Hypothesis self_ann : forall x bs, senc x = EOk bs -> forall known rest, atr self known (bs ++ rest) = sann x.

  Lemma boxed_ann sz x bs known rest : senc x = EOk bs -> atr (boxed sz self) known (bs ++ rest) = sz + sann x.
  Proof.
    intros H. unfold boxed. rewrite !atr_emit. cbn [asum]. rewrite N.add_0_l, N.add_0_r. f_equal.
    rewrite (atr_bind_ok _ _ self _ known _ _ _ (self_rt x bs H known rest)), atr_emit, atr_ret. cbn [asum].
    rewrite !N.add_0_r. now apply self_ann.
  Qed.

  Lemma rfield_ann f x bs known rest : wf_rfield f = true -> renc_field senc f x = EOk bs ->
    atr (rfield_dec self f) known (bs ++ rest) = rann_field sann f x.
  Proof.
    intros Hw He. destruct f as [t|sz|sz|sz]; cbn [rfield_dec renc_field rann_field wf_rfield] in *.
    - destruct (wf t x) eqn:Hx; [|discriminate]. exact (proj1 ann_mut t Hw x bs Hx He known rest).
    - now apply boxed_ann.
    - destruct x; try discriminate.
      + injection He as <-. cbn [app]. rewrite atr_read_byte. reflexivity.
      + apply eapp_ok in He as (a & b & [= <-] & Hb & ->). cbn [app]. rewrite atr_read_byte. cbn [Byte.to_N].
        rewrite (atr_bind_ok _ _ _ _ known _ _ _ (boxed_rt self senc scanon self_rt sz x b known rest Hb)), atr_ret, N.add_0_r.
        now apply boxed_ann.
    - destruct x; try discriminate. apply N.leb_le in Hw.
      apply eapp_ok in He as (a & b & Ha & Hb & ->).
      unfold enc_count in Ha. destruct (N.ltb_spec u32max (N.of_nat (length l))) as [|Hn]; [discriminate|].
      unfold spec_c in Ha. injection Ha as <-. rewrite <- app_assoc.
      assert (Hfit: N.of_nat (length l) < 2 ^ (8 * 4)) by (unfold u32max in Hn; change (2 ^ (8 * 4)) with 4294967296; lia).
      rewrite (atr_bind_ok _ _ (dec_compact 4) _ known _ _ _ (rt_compact 4 _ known (b ++ rest) okwidth4 Hfit)).
      rewrite (noalloc_atr _ _ known (noalloc_dec_compact 4)), N.add_0_l.
      pose proof (rep_rt self senc scanon known l (fun v _ bs0 Hbs rest0 => self_rt v bs0 Hbs known rest0) b Hb rest) as Hrun.
      assert (Hch: runo (chunked_items sz (N.of_nat (length l)) self) known (b ++ rest) = OOk (map scanon l) rest)
        by (rewrite (chunked_items_is_rep sz _ self Hw); exact Hrun).
      rewrite atr_emit. cbn [asum]. rewrite N.add_0_l.
      rewrite (atr_bind_ok _ _ _ _ known _ _ _ Hch), atr_emit, atr_ret. cbn [asum]. rewrite !N.add_0_r.
      rewrite (seq_atr _ _ _ known _ _ _ (seq_chunked sz _ self Hw) Hch).
      rewrite <- suml_shift.
      apply (rep_sum (emit (HAlloc sz) ;;; self) senc scanon (fun v => sz + sann v) known l); [|exact Hb].
      intros v _ bs0 Hbs rest0. rewrite runo_emit, atr_emit. cbn [asum].
      split; [now apply self_rt|]. rewrite (self_ann v bs0 Hbs known rest0). lia.
  Qed.

  Lemma rfields_ann fs : forallb wf_rfield fs = true -> forall fv bs known rest, renc_fields senc fs fv = EOk bs ->
    atr (rfields self fs) known (bs ++ rest) = rann_fields sann fs fv.
  Proof.
    induction fs as [|f r IH]; intros Hw fv bs known rest He; cbn [rfields renc_fields rann_fields forallb] in *.
    - destruct fv; try discriminate. reflexivity.
    - apply andb_prop in Hw as [Hf Hr]. destruct fv; try discriminate.
      apply eapp_ok in He as (a & b & Ha & Hb & ->). rewrite <- app_assoc.
      rewrite (atr_bind_ok _ _ _ _ known _ _ _ (rfield_rt self senc scanon self_rt f fv1 a known (b ++ rest) Hf Ha)).
      rewrite (atr_bind_ok _ _ _ _ known _ _ _ (rfields_rt self senc scanon self_rt r Hr fv2 b known rest Hb)), atr_ret, N.add_0_r.
      f_equal; [now apply rfield_ann|now apply IH].
  Qed.
End FieldsMem.

Theorem rec_announced_closed_form d : wf_rdef d = true -> ridx_ok d = true ->
  forall F v bs, renc F d v = EOk bs ->
  forall known rest, asum (snd (runt (rdec F d) known (bs ++ rest))) = rann F d v.
Proof.
  intros Hw Hok. induction F as [|f IH]; intros v bs He known rest; cbn [renc] in He; [discriminate|].
  destruct v as [ | | | | | | | | | |k fv]; try discriminate.
  destruct (nth_error d k) as [[idx fs]|] eqn:Hn; [|discriminate].
  apply eapp_ok in He as (a & b & [= <-] & Hb & ->).
  pose proof (ridx_lt d Hok k idx fs Hn) as Hlt.
  change (atr (rdec (S f) d) known (([byte_of idx] ++ b) ++ rest) = rann (S f) d (VVar k fv)).
  cbn [rdec rann app]. rewrite Hn, atr_read_byte, to_byte_of, N.mod_small by exact Hlt.
  rewrite (rvariants_select _ d Hok k idx fs 0 Hn).
  pose proof (fun x bs0 H known0 rest0 => rec_roundtrip d Hw Hok f x bs0 H known0 rest0) as Hrt.
  rewrite (atr_bind_ok _ _ _ _ known _ _ _
             (rfields_rt (rdec f d) (renc f d) (rcanon f d) Hrt fs (wf_rdef_nth d Hw k idx fs Hn) fv b known rest Hb)), atr_ret, N.add_0_r.
  apply (rfields_ann (rdec f d) (renc f d) (rcanon f d) (rann f d) Hrt (fun x bs0 H known0 rest0 => IH x bs0 H known0 rest0) fs
           (wf_rdef_nth d Hw k idx fs Hn) fv b known rest Hb).
Qed.

(* memory-limited decoding of the encoding of a recursive value *)
Theorem rec_mem_limit_on_encodings d F v bs known rest L :
  wf_rdef d = true -> ridx_ok d = true -> renc F d v = EOk bs -> rann F d v <= usize_max ->
  (rann F d v < L -> exists u, run (memmon L) (rdec F d) known (bs ++ rest) 0 = ROk (rcanon F d v) rest u) /\
  (0 < rann F d v -> L <= rann F d v -> exists u, run (memmon L) (rdec F d) known (bs ++ rest) 0 = RErr u).
Proof.
  intros Hw Hok He Hu.
  pose proof (mem_limit_threshold _ (rdec F d) known (bs ++ rest) L) as H.
  pose proof (rec_announced_closed_form d Hw Hok F v bs He known rest) as Ha.
  pose proof (rec_roundtrip d Hw Hok F v bs He known rest) as Hr. rewrite <- runt_fst in Hr.
  destruct (runt (rdec F d) known (bs ++ rest)) as [o evs]. cbn [fst snd] in *. subst o. cbv zeta in H.
  rewrite used_after_asum in H by (rewrite Ha; lia). rewrite Ha, N.add_0_l in H.
  destruct H as (H1 & H2 & H3). split.
  - intros HL. exact (H1 HL).
  - intros Hpos HL. apply H2; [apply H3; exact Hpos|exact HL].
Qed.

(* ---------- self-delimitation for recursive values (C14) ---------- *)
Theorem rec_strict_prefix_fails d F v bs pre suf known :
  wf_rdef d = true -> ridx_ok d = true -> renc F d v = EOk bs ->
  bs = pre ++ suf -> suf <> [] ->
  forall F' v' r, (F <= F')%nat -> runo (rdec F' d) known pre <> OOk v' r.
Proof.
  intros Hw Hok He -> Hs F' v' r HF Hd.
  pose proof (runo_extend _ (rdec F' d) known suf pre v' r Hd) as Hx.
  pose proof (rec_roundtrip_any_budget d F F' v (pre ++ suf) known [] Hw Hok HF He) as Hr. rewrite app_nil_r in Hr.
  rewrite Hr in Hx. injection Hx as _ Hx. destruct r; destruct suf; try discriminate. now apply Hs.
Qed.
