(* Correspondence cases over the codec universe (C01, C02, C03, C07, C08, C11,
   C12, C14, C18, C19, C09): what the implementation did on a case, compared
   with what the model computes. *)
Require Import Scale.Bytes Scale.Hex Scale.Eres Scale.Prog Scale.Real Scale.CompactImpl Scale.CompactSpec Scale.Codec Scale.Rec Scale.RecRt.

Definition vbytes (s : list byte) : val := VSeq (map (fun b => VN (Byte.to_N b)) s).
Definition vwords (B : N) (s : list byte) : val := VSeq (map VN (words B s)).
Fixpoint bits_of_string (s : string) : list bool :=
  match s with
  | EmptyString => []
  | String c r => (N_of_ascii c =? 49) :: bits_of_string r
  end.
Definition vbits (s : string) : val := VBits (bits_of_string s).
(* n bits packed least-significant-bit first into bytes *)
Definition vbitsn (n : N) (bs : list byte) : val :=
  VBits (firstn (N.to_nat n) (List.concat (map (fun b => N_to_bits 8 (Byte.to_N b)) bs))).

Fixpoint bools_eqb (a b : list bool) : bool :=
  match a, b with
  | [], [] => true
  | x :: a', y :: b' => Bool.eqb x y && bools_eqb a' b'
  | _, _ => false
  end.

Fixpoint val_eqb (a b : val) : bool :=
  match a, b with
  | VUnit, VUnit => true
  | VBool x, VBool y => Bool.eqb x y
  | VN x, VN y => x =? y
  | VNone, VNone => true
  | VSome x, VSome y => val_eqb x y
  | VOk x, VOk y => val_eqb x y
  | VErr x, VErr y => val_eqb x y
  | VSeq l1, VSeq l2 =>
      (fix go (l1 l2 : list val) : bool :=
         match l1, l2 with
         | [], [] => true
         | x :: r1, y :: r2 => val_eqb x y && go r1 r2
         | _, _ => false
         end) l1 l2
  | VPair a1 b1, VPair a2 b2 => val_eqb a1 a2 && val_eqb b1 b2
  | VBits l1, VBits l2 => bools_eqb l1 l2
  | VVar k1 x, VVar k2 y => Nat.eqb k1 k2 && val_eqb x y
  | _, _ => false
  end.

Inductive dres := DOk (v : val) (consumed : N) | DErr | DPanic.

Definition dres_eqb (a b : dres) : bool :=
  match a, b with
  | DOk v c, DOk v' c' => val_eqb v v' && (c =? c')
  | DErr, DErr => true
  | DPanic, DPanic => true
  | _, _ => false
  end.

Definition consumed (bs rest : list byte) : N := N.of_nat (List.length bs) - N.of_nat (List.length rest).

Definition model_decode (t : ty) (known : bool) (bs : list byte) : dres :=
  match runo (dec t) known bs with
  | OOk v rest => DOk v (consumed bs rest)
  | OErr _ => DErr
  | OPanic => DPanic
  | ONoFuel => DPanic
  end.

(* wrapper stacks: innermost first *)
Inductive layer := LCount | LDepth (maxd : N) | LMem (limit : N).
Definition layer_mon (l : layer) : monitor :=
  match l with LCount => counted | LDepth d => depthmon d | LMem m => memmon m end.

(* a stack as one monitor over a list of counters (count / depth / used_mem), the
   inner wrapper sees every event first, as in the three wrapper files *)
Fixpoint stack_step (ls : list layer) (e : event) (st : list N) : list N * bool :=
  match ls, st with
  | l :: ls', s :: st' =>
      match l with
      | LCount => let '(s', ok) := mstep counted e s in
                  if ok then let '(r, ok') := stack_step ls' e st' in (s' :: r, ok') else (s' :: st', false)
      | LDepth d => let '(s', ok) := mstep (depthmon d) e s in
                  if ok then let '(r, ok') := stack_step ls' e st' in (s' :: r, ok') else (s' :: st', false)
      | LMem m => let '(s', ok) := mstep (memmon m) e s in
                  if ok then let '(r, ok') := stack_step ls' e st' in (s' :: r, ok') else (s' :: st', false)
      end
  | _, _ => (st, true)
  end.

(* CountedInput only counts a read that the *inner* input delivered; in a stack the
   layers outside it do not see reads fail, so the simple in-order fold above is
   the forwarding order of the code for reads; for hooks the depth and memory
   wrappers call the inner hook first and stop on its error. *)
Definition stackmon (ls : list layer) : monitor :=
  {| mst := list N; mstep := stack_step ls |}.

Inductive rres := ROk' (v : val) (consumed : N) (st : list N) | RErr' (st : list N) | RPanic'.

Definition model_run (t : ty) (known : bool) (ls : list layer) (bs : list byte) : rres :=
  match run (stackmon ls) (dec t) known bs (map (fun _ => 0) ls) with
  | ROk v rest st => ROk' v (consumed bs rest) st
  | RErr st => RErr' st
  | RPanic => RPanic'
  | RNoFuel => RPanic'
  end.

(* the recursive derived type: Rec.rdec with the recursion budget the harness chose *)
Definition model_rec_run (d : rdef) (F : N) (known : bool) (ls : list layer) (bs : list byte) : rres :=
  match run (stackmon ls) (rdec (N.to_nat F) d) known bs (map (fun _ => 0) ls) with
  | ROk v rest st => ROk' v (consumed bs rest) st
  | RErr st => RErr' st
  | RPanic => RPanic'
  | RNoFuel => RPanic'
  end.

Fixpoint ns_eqb (a b : list N) : bool :=
  match a, b with
  | [], [] => true
  | x :: a', y :: b' => (x =? y) && ns_eqb a' b'
  | _, _ => false
  end.

(* after an error the implementation's wrapper counters are compared only where the
   harness can observe them (count, used_mem); depth is internal: reported as 0 *)
Definition mask_depth (ls : list layer) (st : list N) : list N :=
  map (fun p => match fst p with LDepth _ => 0 | _ => snd p end) (combine ls st).

Definition rres_eqb (ls : list layer) (a b : rres) : bool :=
  match a, b with
  | ROk' v c st, ROk' v' c' st' => val_eqb v v' && (c =? c') && ns_eqb (mask_depth ls st) (mask_depth ls st')
  | RErr' st, RErr' st' => ns_eqb (mask_depth ls st) (mask_depth ls st')
  | RPanic', RPanic' => true
  | _, _ => false
  end.

(* trace summaries the harness can observe through a recording Input *)
Fixpoint allocs (evs : list event) : list N :=
  match evs with
  | [] => []
  | EHook (HAlloc n) :: r => n :: allocs r
  | _ :: r => allocs r
  end.

Inductive gcase :=
| GEnc (t : ty) (v : val) (out : list byte)
| GDec (t : ty) (known : bool) (inp : list byte) (r : dres)
| GRun (t : ty) (known : bool) (ls : list layer) (inp : list byte) (r : rres)
| GAlloc (t : ty) (known : bool) (inp : list byte) (al : list N)   (* sizes announced to on_before_alloc_mem, in order *)
| GPeak (t : ty) (known : bool) (inp : list byte) (peak : N)
| GRecRun (d : rdef) (F : N) (known : bool) (ls : list layer) (inp : list byte) (r : rres)
| GRecEnc (d : rdef) (F : N) (v : val) (out : list byte).     (* measured peak of live heap bytes during the decode *)

(* number of modelled reservations: each is one allocator request of the implementation, which may
   carry a header the model does not describe (the two reference counts of Rc/Arc, 16 bytes, plus
   padding to the alignment) *)
Fixpoint real_count (evs : list event) : N :=
  match evs with
  | [] => 0
  | EHook (HReal _) :: r => 1 + real_count r
  | _ :: r => real_count r
  end.
Definition peak_bound (evs : list event) : N := 2 * real_sum evs + 32 * real_count evs + 4096.

Definition g_check (c : gcase) : bool :=
  match c with
  | GEnc t v out =>
      match enc_impl t v with
      | EOk bs => bytes_eqb bs out
      | _ => false
      end
  | GDec t known inp r => dres_eqb (model_decode t known inp) r
  | GRun t known ls inp r => rres_eqb ls (model_run t known ls inp) r
  | GAlloc t known inp al => ns_eqb (allocs (snd (runt (dec t) known inp))) al
  | GPeak t known inp peak => peak <=? peak_bound (snd (runt (dec t) known inp))
  | GRecRun d F known ls inp r => rres_eqb ls (model_rec_run d F known ls inp) r
  | GRecEnc d F v out =>
      match renc (N.to_nat F) d v with
      | EOk bs => bytes_eqb bs out
      | _ => false
      end
  end.

Inductive gmodel := MEnc (r : eres (list byte)) | MDec (r : dres) | MRun (r : rres) | MAlloc (l : list N).
Definition g_model (c : gcase) : gmodel :=
  match c with
  | GEnc t v _ => MEnc (enc_impl t v)
  | GDec t known inp _ => MDec (model_decode t known inp)
  | GRun t known ls inp _ => MRun (model_run t known ls inp)
  | GAlloc t known inp _ => MAlloc (allocs (snd (runt (dec t) known inp)))
  | GPeak t known inp _ => MAlloc [real_sum (snd (runt (dec t) known inp)); real_count (snd (runt (dec t) known inp))]
  | GRecRun d F known ls inp _ => MRun (model_rec_run d F known ls inp)
  | GRecEnc d F v _ => MEnc (renc (N.to_nat F) d v)
  end.
