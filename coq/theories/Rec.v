(* Recursive user types and the stack-safety clause of C11.
   A recursive enum (the shape derive(Decode) emits a decoder for): an index byte, then the
   variant's fields in order; a field is an ordinary universe type or a recursive occurrence held
   by Box<Self>, Option<Box<Self>> or Vec<Self>.  The decoder recurses natively, so the model takes
   a recursion budget F (the frames the native stack can hold) and answers NoFuel when it is
   exhausted - the model's rendering of a stack overflow.
   Theorems: decode traces are well nested; running out of budget F means the trace nests at least
   F levels deep; hence a depth-limited decode with limit L < F never overflows, whatever the
   input, and its answer does not depend on the budget. *)
Require Import Scale.Bytes Scale.Eres Scale.Prog Scale.ProgFacts Scale.ProgMore Scale.Chunks Scale.TraceEq Scale.Monitors
  Scale.CompactImpl Scale.CompactSpec Scale.CompactProofs Scale.CompactTheorems Scale.Utf8 Scale.Codec Scale.CodecEnc Scale.CodecDec Scale.CodecRt Scale.Depth.

Inductive rfield := FTy (t : ty) | FBox (sz : N) | FOptBox (sz : N) | FVec (sz : N).
Definition rdef := list (N * list rfield).

Definition boxed (sz : N) (self : prog val) : prog val :=
  emit HDescend ;;; emit (HAlloc sz) ;;; emit (HReal sz) ;;; v <- self ;; emit HAscend ;;; Ret v.

Definition rfield_dec (self : prog val) (f : rfield) : prog val :=
  match f with
  | FTy t => dec t
  | FBox sz => boxed sz self
  | FOptBox sz =>
      b <- read_byte ;;
      (match Byte.to_N b with
       | 0 => Ret VNone
       | 1 => v <- boxed sz self ;; Ret (VSome v)
       | _ => Fail
       end)
  | FVec sz =>
      n <- dec_compact 4 ;;
      emit HDescend ;;; l <- chunked_items sz n self ;; emit HAscend ;;; Ret (VSeq l)
  end.

Fixpoint rfields (self : prog val) (fs : list rfield) : prog val :=
  match fs with
  | [] => Ret VUnit
  | f :: r => x <- rfield_dec self f ;; y <- rfields self r ;; Ret (VPair x y)
  end.

Fixpoint rvariants (self : prog val) (vs : rdef) (b : N) (k : nat) : prog val :=
  match vs with
  | [] => Fail
  | (idx, fs) :: r =>
      if b =? idx mod 256 then (v <- rfields self fs ;; Ret (VVar k v)) else rvariants self r b (S k)
  end.

Fixpoint rdec (fuel : nat) (d : rdef) : prog val :=
  match fuel with
  | O => NoFuel
  | S f => b <- read_byte ;; rvariants (rdec f d) d (Byte.to_N b) 0
  end.

Definition wf_rfield (f : rfield) : bool :=
  match f with FTy t => wf_ty t | FBox _ | FOptBox _ => true | FVec sz => sz <=? max_prealloc end.
Definition wf_rdef (d : rdef) : bool := forallb (fun v => forallb wf_rfield (snd v)) d.

(* ---------- well-nested on success ---------- *)
Definition bok {A} (p : prog A) : Prop :=
  forall known bs v r evs, runt p known bs = (OOk v r, evs) -> forall d, end_depth d evs = d.

Lemma bok_nodepth A (p : prog A) : nodepth p -> bok p.
Proof.
  intros H known bs v r evs E d. rewrite <- end_depth_dpi.
  pose proof (nodepth_dtr _ p known H bs) as Hd. unfold dtr in Hd. rewrite E in Hd. cbn [snd] in Hd. now rewrite Hd.
Qed.
Lemma bok_bind A B (p : prog A) (f : A -> prog B) : bok p -> (forall a, bok (f a)) -> bok (bindp p f).
Proof.
  intros Hp Hf known bs v r evs E d. rewrite runt_bind in E.
  destruct (runt p known bs) as [[a r1|r1| |] e1] eqn:Ep; try discriminate.
  unfold app_ev in E. destruct (runt (f a) known r1) as [o2 e2] eqn:Ef. cbn [fst snd] in E.
  injection E as -> <-. rewrite end_depth_app, (Hp known bs a r1 e1 Ep d). apply (Hf a known r1 v r e2 Ef).
Qed.
Lemma bok_ret A (a : A) : bok (Ret a).
Proof. intros known bs v r evs E d. cbn in E. injection E as _ _ <-. reflexivity. Qed.
Lemma bok_rep_nat A (c : prog A) n : bok c -> bok (rep_nat n c).
Proof.
  intros Hc. induction n as [|n IH]; cbn [rep_nat]; [apply bok_ret|].
  apply bok_bind; [exact Hc|]. intros a. apply bok_bind; [exact IH|]. intros l. apply bok_ret.
Qed.
Lemma bok_peq A (p q : prog A) : peq p q -> bok q -> bok p.
Proof. intros H Hq known bs v r evs E d. rewrite (H known bs) in E. eapply Hq; eauto. Qed.
Lemma bok_rep A (c : prog A) n : bok c -> bok (rep n c).
Proof. intros Hc. eapply bok_peq; [apply rep_rep_nat|]. now apply bok_rep_nat. Qed.
Lemma bok_emit_invisible A h (p : prog A) : is_depth (EHook h) = false -> bok p -> bok (emit h ;;; p).
Proof.
  intros Hh Hp known bs v r evs E d. cbn [emit bindp runt] in E. unfold cons_ev in E.
  destruct (runt p known bs) as [o e1] eqn:Ep. cbn [fst snd] in E. injection E as -> <-.
  destruct h; try discriminate; cbn [end_depth]; eapply Hp; eauto.
Qed.
(* descend; body; ascend *)
Lemma bok_wrap A B (p : prog A) (g : A -> B) : bok p -> bok (emit HDescend ;;; v <- p ;; emit HAscend ;;; Ret (g v)).
Proof.
  intros Hp known bs v r evs E d. cbn [emit bindp runt] in E. unfold cons_ev in E. rewrite runt_bind in E.
  destruct (runt p known bs) as [[a r1|r1| |] e1] eqn:Ep; cbn [fst snd] in E; try discriminate.
  cbn [runt] in E. unfold app_ev, cons_ev in E. cbn [fst snd] in E. injection E as _ _ <-.
  cbn [end_depth]. rewrite end_depth_app, (Hp known bs a r1 e1 Ep (d + 1)). cbn [end_depth]. lia.
Qed.
Lemma bok_chunked sz n (c : prog val) : bok c -> bok (chunked_items sz n c).
Proof.
  intros Hc. unfold chunked_items, one_chunk. cbv zeta.
  assert (H1: forall k, bok (emit (HAlloc (sat_mul k sz)) ;;; emit (HReal (sat_mul k sz)) ;;; rep k c)).
  { intros k. apply bok_emit_invisible; [reflexivity|]. apply bok_emit_invisible; [reflexivity|]. now apply bok_rep. }
  apply bok_bind.
  - destruct (n / chunk_len sz =? 0); [apply bok_ret|]. apply bok_rep, H1.
  - intros full. destruct (n mod chunk_len sz =? 0); [apply bok_ret|]. apply bok_bind; [apply H1|]. intros; apply bok_ret.
Qed.

Lemma bok_fail A : bok (@Fail A).
Proof. intros known bs v r evs E. discriminate. Qed.
Lemma bok_node sz c : bok c -> bok (node sz c).
Proof.
  intros Hc. unfold node. apply bok_bind; [exact Hc|]. intros v. apply bok_emit_invisible; [reflexivity|apply bok_ret].
Qed.

(* every decoder of the universe is well nested on success, on every input *)
Theorem dec_bok_mut :
  (forall t, bok (dec t)) /\ (forall vs b k, bok (dec_vars vs b k)).
Proof.
  apply ty_variants_ind; cbn [dec dec_vars].
  - apply bok_ret.
  - apply bok_nodepth. nd.
  - intros B. apply bok_nodepth. apply nodepth_bind; [apply nodepth_dec_prim|nd].
  - intros B. apply bok_nodepth. apply nodepth_bind; [apply nodepth_dec_compact|nd].
  - intros B. apply bok_nodepth. apply nodepth_bind; [apply nodepth_dec_prim|nd].
  - intros t IH. apply bok_bind; [apply bok_nodepth; nd|]. intros b.
    destruct (Byte.to_N b) as [|[p|p|]]; try apply bok_fail; [apply bok_ret|].
    apply bok_bind; [exact IH|intros; apply bok_ret].
  - intros t IHt e IHe. apply bok_bind; [apply bok_nodepth; nd|]. intros b.
    destruct (Byte.to_N b) as [|[p|p|]]; try apply bok_fail; (apply bok_bind; [assumption|intros; apply bok_ret]).
  - apply bok_nodepth. nd.
  - intros k sz t IH. apply bok_bind; [apply bok_nodepth, nodepth_dec_compact|]. intros n.
    assert (Hv: bok (match t with
                     | TPrim B => bs <- bulk_bytes B n ;; Ret (map VN (words B bs))
                     | _ => emit HDescend ;;; l <- chunked_items sz n (dec t) ;; emit HAscend ;;; Ret l
                     end)).
    { assert (Hg: bok (emit HDescend ;;; l <- chunked_items sz n (dec t) ;; emit HAscend ;;; Ret l))
        by (apply (bok_wrap _ _ (chunked_items sz n (dec t)) (fun l => l)), bok_chunked, IH).
      destruct t; try exact Hg. apply bok_nodepth. apply nodepth_bind; [apply nodepth_bulk|nd]. }
    destruct k.
    + apply bok_bind; [exact Hv|intros; apply bok_ret].
    + apply bok_bind; [exact Hv|intros; apply bok_ret].
    + apply (bok_wrap _ _ (emit (HAlloc (sat_mul n sz)) ;;; rep n (node sz (dec t))) (fun items => VSeq items)).
      apply bok_emit_invisible; [reflexivity|]. apply bok_rep, bok_node, IH.
    + apply (bok_wrap _ _ (emit (HAlloc (btree_mem sz n)) ;;; rep n (node sz (dec t))) (fun items => VSeq (canon_set (is_keyed CSet) items))).
      apply bok_emit_invisible; [reflexivity|]. apply bok_rep, bok_node, IH.
    + apply (bok_wrap _ _ (emit (HAlloc (btree_mem sz n)) ;;; rep n (node sz (dec t))) (fun items => VSeq (canon_set (is_keyed CMap) items))).
      apply bok_emit_invisible; [reflexivity|]. apply bok_rep, bok_node, IH.
  - apply bok_nodepth. apply nodepth_bind; [apply nodepth_dec_compact|]. intros n. apply nodepth_bind; [apply nodepth_bulk|nd].
  - intros n t IH. destruct t; try (apply bok_bind; [apply bok_rep, IH|intros; apply bok_ret]).
    apply bok_nodepth. nd.
  - intros a IHa b IHb. apply bok_bind; [exact IHa|]. intros x. apply bok_bind; [exact IHb|intros; apply bok_ret].
  - intros sz t IH. apply (bok_wrap _ _ (emit (HAlloc sz) ;;; emit (HReal sz) ;;; dec t) (fun v => v)).
    apply bok_emit_invisible; [reflexivity|]. apply bok_emit_invisible; [reflexivity|]. exact IH.
  - apply bok_nodepth. nd.
  - intros B msb. apply bok_nodepth. apply nodepth_bind; [apply nodepth_dec_compact|]. intros bits.
    destruct (_ <? _); [exact I|]. apply nodepth_bind; [apply nodepth_bulk|]. intros bb. cbv zeta. destruct (_ <? _); exact I.
  - intros vs IH. apply bok_bind; [apply bok_nodepth; nd|]. intros b. apply IH.
  - intros b k. apply bok_fail.
  - intros idx t IHt vs IHvs b k. destruct (_ =? _); [|apply IHvs]. apply bok_bind; [exact IHt|intros; apply bok_ret].
Qed.
Definition dec_bok := proj1 dec_bok_mut.

(* ---------- running out of budget means deep nesting ---------- *)
Definition nonf {A} (p : prog A) : Prop := forall known bs, fst (runt p known bs) <> ONoFuel.
Definition deep {A} (F : N) (p : prog A) : Prop :=
  forall known bs evs, runt p known bs = (ONoFuel, evs) -> forall d, d + F <= max_depth d evs.

Lemma nonf_okP A (Q : A -> Prop) (p : prog A) : okP Q p -> nonf p.
Proof. intros H known bs. rewrite runt_fst. specialize (H known bs). destruct (runo p known bs); try discriminate; contradiction. Qed.
Lemma deep_nonf A F (p : prog A) : nonf p -> deep F p.
Proof. intros H known bs evs E. exfalso. apply (H known bs). now rewrite E. Qed.
Lemma deep_weaken A F F' (p : prog A) : F' <= F -> deep F p -> deep F' p.
Proof. intros HF H known bs evs E d. specialize (H known bs evs E d). lia. Qed.
Lemma deep_bind A B F (p : prog A) (f : A -> prog B) :
  bok p -> deep F p -> (forall a, deep F (f a)) -> deep F (bindp p f).
Proof.
  intros Hb Hp Hf known bs evs E d. rewrite runt_bind in E.
  destruct (runt p known bs) as [[a r1|r1| |] e1] eqn:Ep; try discriminate.
  - unfold app_ev in E. destruct (runt (f a) known r1) as [o2 e2] eqn:Ef. cbn [fst snd] in E. injection E as -> <-.
    rewrite max_depth_app, (Hb known bs a r1 e1 Ep d). specialize (Hf a known r1 e2 Ef d). lia.
  - injection E as <-. apply (Hp known bs e1 Ep d).
Qed.
Lemma deep_ret A F (a : A) : deep F (Ret a).
Proof. intros known bs evs E. discriminate. Qed.
Lemma deep_fail A F : deep F (@Fail A).
Proof. intros known bs evs E. discriminate. Qed.
Lemma deep_rep_nat A F (c : prog A) n : bok c -> deep F c -> deep F (rep_nat n c).
Proof.
  intros Hb Hc. induction n as [|n IH]; cbn [rep_nat]; [apply deep_ret|].
  apply deep_bind; [exact Hb|exact Hc|]. intros a. apply deep_bind; [now apply bok_rep_nat|exact IH|]. intros; apply deep_ret.
Qed.
Lemma deep_peq A F (p q : prog A) : peq p q -> deep F q -> deep F p.
Proof. intros H Hq known bs evs E d. rewrite (H known bs) in E. eapply Hq; eauto. Qed.
Lemma deep_rep A F (c : prog A) n : bok c -> deep F c -> deep F (rep n c).
Proof. intros Hb Hc. eapply deep_peq; [apply rep_rep_nat|]. now apply deep_rep_nat. Qed.
Lemma deep_emit_invisible A F h (p : prog A) : is_depth (EHook h) = false -> deep F p -> deep F (emit h ;;; p).
Proof.
  intros Hh Hp known bs evs E d. cbn [emit bindp runt] in E. unfold cons_ev in E.
  destruct (runt p known bs) as [o e1] eqn:Ep. cbn [fst snd] in E. injection E as -> <-.
  destruct h; try discriminate; cbn [max_depth]; eapply Hp; eauto.
Qed.
Lemma deep_wrap A B F (p : prog A) (g : A -> B) : deep F p -> deep (F + 1) (emit HDescend ;;; v <- p ;; emit HAscend ;;; Ret (g v)).
Proof.
  intros Hp known bs evs E d. cbn [emit bindp runt] in E. unfold cons_ev in E. rewrite runt_bind in E.
  destruct (runt p known bs) as [[a r1|r1| |] e1] eqn:Ep; cbn [fst snd] in E; try discriminate.
  injection E as <-. cbn [max_depth]. specialize (Hp known bs e1 Ep (d + 1)). lia.
Qed.
Lemma deep_chunked F sz n (c : prog val) : bok c -> deep F c -> deep F (chunked_items sz n c).
Proof.
  intros Hb Hc. unfold chunked_items, one_chunk. cbv zeta.
  assert (B1: forall k, bok (emit (HAlloc (sat_mul k sz)) ;;; emit (HReal (sat_mul k sz)) ;;; rep k c)).
  { intros k. apply bok_emit_invisible; [reflexivity|]. apply bok_emit_invisible; [reflexivity|]. now apply bok_rep. }
  assert (H1: forall k, deep F (emit (HAlloc (sat_mul k sz)) ;;; emit (HReal (sat_mul k sz)) ;;; rep k c)).
  { intros k. apply deep_emit_invisible; [reflexivity|]. apply deep_emit_invisible; [reflexivity|]. now apply deep_rep. }
  apply deep_bind.
  - destruct (n / chunk_len sz =? 0); [apply bok_ret|]. apply bok_rep, B1.
  - destruct (n / chunk_len sz =? 0); [apply deep_ret|]. apply deep_rep; [apply B1|apply H1].
  - intros full. destruct (n mod chunk_len sz =? 0); [apply deep_ret|]. apply deep_bind; [apply B1|apply H1|]. intros; apply deep_ret.
Qed.

Lemma nonf_dec t : wf_ty t = true -> nonf (dec t).
Proof. intros H. apply (nonf_okP _ T). now apply (proj1 dec_total_mut). Qed.
Lemma nonf_read_byte : nonf read_byte.
Proof. intros known bs. cbn [read_byte runt]. destruct bs; cbn; discriminate. Qed.
Lemma nonf_dec_compact4 : nonf (dec_compact 4).
Proof. apply (nonf_okP _ T), okP_dec_compact. unfold okwidth; auto. Qed.

(* ---------- the recursive decoder ---------- *)
Section Self.
  Variable self : prog val.
  Variable F : N.
  Hypothesis self_bok : bok self.
  Hypothesis self_deep : deep F self.

  Lemma boxed_bok sz : bok (boxed sz self).
  Proof.
    apply (bok_wrap _ _ (emit (HAlloc sz) ;;; emit (HReal sz) ;;; self) (fun v => v)).
    apply bok_emit_invisible; [reflexivity|]. apply bok_emit_invisible; [reflexivity|]. exact self_bok.
  Qed.
  Lemma boxed_deep sz : deep (F + 1) (boxed sz self).
  Proof.
    apply (deep_wrap _ _ F (emit (HAlloc sz) ;;; emit (HReal sz) ;;; self) (fun v => v)).
    apply deep_emit_invisible; [reflexivity|]. apply deep_emit_invisible; [reflexivity|]. exact self_deep.
  Qed.

  Lemma rfield_bok f : bok (rfield_dec self f).
  Proof.
    destruct f as [t|sz|sz|sz]; cbn [rfield_dec].
    - apply dec_bok.
    - apply boxed_bok.
    - apply bok_bind; [apply bok_nodepth; nd|]. intros b.
      destruct (Byte.to_N b) as [|[p|p|]]; try apply bok_fail; [apply bok_ret|].
      apply bok_bind; [apply boxed_bok|intros; apply bok_ret].
    - apply bok_bind; [apply bok_nodepth, nodepth_dec_compact|]. intros n.
      apply (bok_wrap _ _ (chunked_items sz n self) (fun l => VSeq l)). now apply bok_chunked.
  Qed.
  Lemma rfield_deep f : wf_rfield f = true -> deep (F + 1) (rfield_dec self f).
  Proof.
    destruct f as [t|sz|sz|sz]; cbn [rfield_dec wf_rfield]; intros Hw.
    - apply deep_nonf. now apply nonf_dec.
    - apply boxed_deep.
    - apply deep_bind; [apply bok_nodepth; nd|apply deep_nonf, nonf_read_byte|]. intros b.
      destruct (Byte.to_N b) as [|[p|p|]]; try apply deep_fail; [apply deep_ret|].
      apply deep_bind; [apply boxed_bok|apply boxed_deep|intros; apply deep_ret].
    - apply deep_bind; [apply bok_nodepth, nodepth_dec_compact|apply deep_nonf, nonf_dec_compact4|]. intros n.
      apply (deep_wrap _ _ F (chunked_items sz n self) (fun l => VSeq l)). now apply deep_chunked.
  Qed.

  Lemma rfields_bok fs : bok (rfields self fs).
  Proof.
    induction fs as [|f r IH]; cbn [rfields]; [apply bok_ret|].
    apply bok_bind; [apply rfield_bok|]. intros x. apply bok_bind; [exact IH|intros; apply bok_ret].
  Qed.
  Lemma rfields_deep fs : forallb wf_rfield fs = true -> deep (F + 1) (rfields self fs).
  Proof.
    induction fs as [|f r IH]; cbn [rfields forallb]; intros Hw; [apply deep_ret|]. apply andb_prop in Hw as [Hf Hr].
    apply deep_bind; [apply rfield_bok|now apply rfield_deep|]. intros x.
    apply deep_bind; [apply rfields_bok|now apply IH|intros; apply deep_ret].
  Qed.

  Lemma rvariants_bok vs : forall b k, bok (rvariants self vs b k).
  Proof.
    induction vs as [|[idx fs] r IH]; intros b k; cbn [rvariants]; [apply bok_fail|].
    destruct (_ =? _); [|apply IH]. apply bok_bind; [apply rfields_bok|intros; apply bok_ret].
  Qed.
  Lemma rvariants_deep vs : wf_rdef vs = true -> forall b k, deep (F + 1) (rvariants self vs b k).
  Proof.
    induction vs as [|[idx fs] r IH]; intros Hw b k; cbn [rvariants]; [apply deep_fail|].
    cbn [wf_rdef forallb snd] in Hw. apply andb_prop in Hw as [Hf Hr].
    destruct (_ =? _); [|now apply IH]. apply deep_bind; [apply rfields_bok|now apply rfields_deep|intros; apply deep_ret].
  Qed.
End Self.

Theorem rdec_nested d : wf_rdef d = true -> forall F, bok (rdec F d) /\ deep (N.of_nat F) (rdec F d).
Proof.
  intros Hw. induction F as [|f [IHb IHd]]; cbn [rdec].
  - split.
    + intros known bs v r evs E. discriminate.
    + intros known bs evs E dd. cbn in E. injection E as <-. cbn [max_depth]. lia.
  - split.
    + apply bok_bind; [apply bok_nodepth; nd|]. intros b. now apply rvariants_bok.
    + rewrite Nat2N.inj_succ, <- N.add_1_r.
      apply deep_bind; [apply bok_nodepth; nd|apply deep_nonf, nonf_read_byte|]. intros b.
      now apply rvariants_deep.
Qed.

(* ---------- more budget extends the trace ---------- *)
Definition fext {A} (p q : prog A) : Prop :=
  forall known bs,
    match runt p known bs with
    | (ONoFuel, evs) => exists s, snd (runt q known bs) = evs ++ s
    | r => runt q known bs = r
    end.

Lemma fext_refl A (p : prog A) : fext p p.
Proof. intros known bs. destruct (runt p known bs) as [[a r|r| |] evs]; auto. exists []. cbn [snd]. now rewrite app_nil_r. Qed.
Lemma fext_bind A B (p q : prog A) (f g : A -> prog B) :
  fext p q -> (forall a, fext (f a) (g a)) -> fext (bindp p f) (bindp q g).
Proof.
  intros Hp Hf known bs. rewrite !runt_bind. specialize (Hp known bs).
  destruct (runt p known bs) as [[a r1|r1| |] e1].
  - rewrite Hp. specialize (Hf a known r1). unfold app_ev.
    destruct (runt (f a) known r1) as [[b r2|r2| |] e2]; cbn [fst snd].
    + now rewrite Hf.
    + now rewrite Hf.
    + now rewrite Hf.
    + destruct Hf as [s Hs]. exists s. cbn [snd]. now rewrite Hs, app_assoc.
  - now rewrite Hp.
  - now rewrite Hp.
  - destruct Hp as [s Hs]. destruct (runt q known bs) as [[a r1|r1| |] e1']; cbn [snd] in Hs; subst e1'.
    + unfold app_ev. cbn [snd]. exists (s ++ snd (runt (g a) known r1)). now rewrite app_assoc.
    + exists s. reflexivity.
    + exists s. reflexivity.
    + exists s. reflexivity.
Qed.
Lemma fext_rep_nat A (c c' : prog A) n : fext c c' -> fext (rep_nat n c) (rep_nat n c').
Proof.
  intros H. induction n as [|n IH]; cbn [rep_nat]; [apply fext_refl|].
  apply fext_bind; [exact H|]. intros a. apply fext_bind; [exact IH|]. intros; apply fext_refl.
Qed.
Lemma fext_peq A (p p' q q' : prog A) : peq p p' -> peq q q' -> fext p' q' -> fext p q.
Proof. intros H1 H2 H known bs. rewrite (H1 known bs), (H2 known bs). apply H. Qed.
Lemma fext_rep A (c c' : prog A) n : fext c c' -> fext (rep n c) (rep n c').
Proof. intros H. eapply fext_peq; [apply rep_rep_nat|apply rep_rep_nat|]. now apply fext_rep_nat. Qed.
Lemma fext_emit A h (p q : prog A) : fext p q -> fext (emit h ;;; p) (emit h ;;; q).
Proof. intros H. apply fext_bind; [apply fext_refl|]. intros _. exact H. Qed.
Lemma fext_chunked sz n (c c' : prog val) : fext c c' -> fext (chunked_items sz n c) (chunked_items sz n c').
Proof.
  intros H. unfold chunked_items, one_chunk. cbv zeta.
  assert (H1: forall k, fext (emit (HAlloc (sat_mul k sz)) ;;; emit (HReal (sat_mul k sz)) ;;; rep k c)
                             (emit (HAlloc (sat_mul k sz)) ;;; emit (HReal (sat_mul k sz)) ;;; rep k c')).
  { intros k. apply fext_emit, fext_emit. now apply fext_rep. }
  apply fext_bind.
  - destruct (n / chunk_len sz =? 0); [apply fext_refl|]. apply fext_rep, H1.
  - intros full. destruct (n mod chunk_len sz =? 0); [apply fext_refl|]. apply fext_bind; [apply H1|]. intros; apply fext_refl.
Qed.

Lemma fext_boxed sz (s s' : prog val) : fext s s' -> fext (boxed sz s) (boxed sz s').
Proof. intros H. unfold boxed. apply fext_emit, fext_emit, fext_emit. apply fext_bind; [exact H|]. intros; apply fext_refl. Qed.
Lemma fext_rfield (s s' : prog val) f : fext s s' -> fext (rfield_dec s f) (rfield_dec s' f).
Proof.
  intros H. destruct f as [t|sz|sz|sz]; cbn [rfield_dec].
  - apply fext_refl.
  - now apply fext_boxed.
  - apply fext_bind; [apply fext_refl|]. intros b. destruct (Byte.to_N b) as [|[p|p|]]; try apply fext_refl.
    apply fext_bind; [now apply fext_boxed|intros; apply fext_refl].
  - apply fext_bind; [apply fext_refl|]. intros n. apply fext_emit. apply fext_bind; [now apply fext_chunked|intros; apply fext_refl].
Qed.
Lemma fext_rfields (s s' : prog val) fs : fext s s' -> fext (rfields s fs) (rfields s' fs).
Proof.
  intros H. induction fs as [|f r IH]; cbn [rfields]; [apply fext_refl|].
  apply fext_bind; [now apply fext_rfield|]. intros x. apply fext_bind; [exact IH|intros; apply fext_refl].
Qed.
Lemma fext_rvariants (s s' : prog val) vs : fext s s' -> forall b k, fext (rvariants s vs b k) (rvariants s' vs b k).
Proof.
  intros H. induction vs as [|[idx fs] r IH]; intros b k; cbn [rvariants]; [apply fext_refl|].
  destruct (_ =? _); [|apply IH]. apply fext_bind; [now apply fext_rfields|intros; apply fext_refl].
Qed.
Theorem rdec_budget_extends d : forall F F', (F <= F')%nat -> fext (rdec F d) (rdec F' d).
Proof.
  induction F as [|f IH]; intros F' HF.
  - intros known bs. cbn [rdec runt]. eexists. reflexivity.
  - destruct F' as [|f']; [lia|]. cbn [rdec]. apply fext_bind; [apply fext_refl|]. intros b.
    apply fext_rvariants. apply IH. lia.
Qed.

Lemma feed_reject_app (m : monitor) evs x : forall s s', feed m s evs = (s', false) -> feed m s (evs ++ x) = (s', false).
Proof.
  induction evs as [|e r IH]; intros s s' H; cbn [feed app] in *; [discriminate|].
  destruct (mstep m e s) as [s1 [|]]; [now apply IH|exact H].
Qed.

(* ---------- stack safety ---------- *)
(* a recursion budget above the depth limit is never exhausted, whatever the input *)
Theorem rec_depth_limit_never_overflows d F L known bs :
  wf_rdef d = true -> L < N.of_nat F -> run (depthmon L) (rdec F d) known bs 0 <> RNoFuel.
Proof.
  intros Hw HL. pose proof (depth_limit_exact _ (rdec F d) known bs L) as H.
  destruct (rdec_nested d Hw F) as [_ Hd]. specialize (Hd known bs).
  destruct (runt (rdec F d) known bs) as [o evs].
  destruct (N.leb_spec (max_depth 0 evs) L) as [Hm|Hm]; destruct H as [s ->]; [|discriminate].
  destruct o; cbn [lift_out]; try discriminate.
  specialize (Hd evs eq_refl 0). lia.
Qed.

(* and the answer does not depend on the budget *)
Theorem rec_depth_limit_budget_irrelevant d F F' L known bs :
  wf_rdef d = true -> L < N.of_nat F -> (F <= F')%nat ->
  run (depthmon L) (rdec F' d) known bs 0 = run (depthmon L) (rdec F d) known bs 0.
Proof.
  intros Hw HL HF. rewrite !run_runt.
  pose proof (rdec_budget_extends d F F' HF known bs) as Hx.
  destruct (rdec_nested d Hw F) as [_ Hd]. specialize (Hd known bs).
  destruct (runt (rdec F d) known bs) as [[a r|r| |] evs]; try (now rewrite Hx).
  destruct Hx as [s Hs]. destruct (runt (rdec F' d) known bs) as [o' evs']. cbn [snd] in Hs. subst evs'.
  specialize (Hd evs eq_refl 0).
  pose proof (depth_feed_iff L evs 0 ltac:(lia)) as Hf.
  destruct (feed (depthmon L) 0 evs) as [s1 ok] eqn:E. cbn [snd] in Hf.
  destruct (N.leb_spec (max_depth 0 evs) L); [lia|]. subst ok.
  now rewrite (feed_reject_app (depthmon L) evs s 0 s1 E).
Qed.

(* without a limit, more budget never changes an answer already obtained *)
Theorem rec_budget_monotone d F F' known bs :
  (F <= F')%nat -> runo (rdec F d) known bs <> ONoFuel -> runt (rdec F' d) known bs = runt (rdec F d) known bs.
Proof.
  intros HF Hn. pose proof (rdec_budget_extends d F F' HF known bs) as Hx. rewrite <- runt_fst in Hn.
  destruct (runt (rdec F d) known bs) as [[a r|r| |] evs]; auto. now elim Hn.
Qed.

(* ---------- the recursive decoder never panics (C03 for recursive types) ---------- *)
Definition np {A} (p : prog A) : Prop := forall known bs, runo p known bs <> OPanic.

Lemma np_okP A (Q : A -> Prop) (p : prog A) : okP Q p -> np p.
Proof. intros H known bs. specialize (H known bs). destruct (runo p known bs); try discriminate; contradiction. Qed.
Lemma np_bind A B (p : prog A) (f : A -> prog B) : np p -> (forall a, np (f a)) -> np (bindp p f).
Proof.
  intros Hp Hf known bs. rewrite runo_bind. specialize (Hp known bs).
  destruct (runo p known bs) as [a r|r| |]; try discriminate; [apply Hf|contradiction].
Qed.
Lemma np_ret A (a : A) : np (Ret a). Proof. intros known bs. discriminate. Qed.
Lemma np_fail A : np (@Fail A). Proof. intros known bs. discriminate. Qed.
Lemma np_nofuel A : np (@NoFuel A). Proof. intros known bs. discriminate. Qed.
Lemma np_emit A h (p : prog A) : np p -> np (emit h ;;; p).
Proof. intros H known bs. rewrite runo_emit. apply H. Qed.
Lemma np_rep_nat A (c : prog A) n : np c -> np (rep_nat n c).
Proof.
  intros Hc. induction n as [|n IH]; cbn [rep_nat]; [apply np_ret|].
  apply np_bind; [exact Hc|]. intros a. apply np_bind; [exact IH|]. intros; apply np_ret.
Qed.
Lemma np_rep A (c : prog A) n : np c -> np (rep n c).
Proof. intros Hc known bs. rewrite runo_rep. now apply np_rep_nat. Qed.
Lemma np_chunked sz n (c : prog val) : np c -> np (chunked_items sz n c).
Proof.
  intros Hc. unfold chunked_items, one_chunk. cbv zeta.
  assert (H1: forall k, np (emit (HAlloc (sat_mul k sz)) ;;; emit (HReal (sat_mul k sz)) ;;; rep k c))
    by (intros k; apply np_emit, np_emit, np_rep, Hc).
  apply np_bind.
  - destruct (n / chunk_len sz =? 0); [apply np_ret|]. apply np_rep, H1.
  - intros full. destruct (n mod chunk_len sz =? 0); [apply np_ret|]. apply np_bind; [apply H1|]. intros; apply np_ret.
Qed.
Lemma np_read_byte : np read_byte.
Proof. intros known bs. cbn [read_byte runo]. destruct bs; discriminate. Qed.

Lemma np_boxed sz (s : prog val) : np s -> np (boxed sz s).
Proof. intros H. unfold boxed. apply np_emit, np_emit, np_emit. apply np_bind; [exact H|]. intros; apply np_emit, np_ret. Qed.
Lemma np_rfield (s : prog val) f : np s -> wf_rfield f = true -> np (rfield_dec s f).
Proof.
  intros Hs Hw. destruct f as [t|sz|sz|sz]; cbn [rfield_dec wf_rfield] in *.
  - apply (np_okP _ T). now apply (proj1 dec_total_mut).
  - now apply np_boxed.
  - apply np_bind; [apply np_read_byte|]. intros b. destruct (Byte.to_N b) as [|[p|p|]]; try apply np_fail; [apply np_ret|].
    apply np_bind; [now apply np_boxed|intros; apply np_ret].
  - apply np_bind; [apply (np_okP _ T), okP_dec_compact; unfold okwidth; auto|]. intros n.
    apply np_emit. apply np_bind; [now apply np_chunked|]. intros; apply np_emit, np_ret.
Qed.
Lemma np_rfields (s : prog val) fs : np s -> forallb wf_rfield fs = true -> np (rfields s fs).
Proof.
  intros Hs. induction fs as [|f r IH]; cbn [rfields forallb]; intros Hw; [apply np_ret|]. apply andb_prop in Hw as [Hf Hr].
  apply np_bind; [now apply np_rfield|]. intros x. apply np_bind; [now apply IH|intros; apply np_ret].
Qed.
Lemma np_rvariants (s : prog val) vs : np s -> wf_rdef vs = true -> forall b k, np (rvariants s vs b k).
Proof.
  intros Hs. induction vs as [|[idx fs] r IH]; intros Hw b k; cbn [rvariants]; [apply np_fail|].
  cbn [wf_rdef forallb snd] in Hw. apply andb_prop in Hw as [Hf Hr].
  destruct (_ =? _); [|now apply IH]. apply np_bind; [now apply np_rfields|intros; apply np_ret].
Qed.
Theorem rec_never_panics d : wf_rdef d = true -> forall F known bs, runo (rdec F d) known bs <> OPanic.
Proof.
  intros Hw F. change (np (rdec F d)). induction F as [|f IH]; cbn [rdec]; [apply np_nofuel|].
  apply np_bind; [apply np_read_byte|]. intros b. now apply np_rvariants.
Qed.
