(* C10: a resource-ledger model of partial decodes.
   Shapes: an element with a destructor; in-place arrays ([T;N]::decode_into with its State
   drop guard); growing vectors (decode_vec_chunked pushing into a Vec that is dropped on the
   error path); boxes (Box::decode_wrapped: allocate, decode in place, free on failure);
   pairs (tuples, derived structs: fields already built are dropped when a later one fails).
   The script makes the [fail]-th element decoder fail (error or panic - both unwind).
   The ledger records construction/drop of elements and allocation/free of heap blocks. *)
Require Import Scale.Bytes.
From Coq Require Import Arith.
Local Open Scope nat_scope.

Inductive lev := LNew (i : nat) | LDrop (i : nat) | LAlloc (b : nat) | LFree (b : nat).

Inductive shape :=
| SUnit | SEl
| SArr (n : nat) (s : shape) | SVec (n : nat) (s : shape)
| SBox (s : shape) | SPair (a b : shape).

Record st := mkSt { nid : nat; nblk : nat; pos : nat; evs : list lev }.
Definition own : Type := (list nat * list nat)%type.       (* element ids, heap blocks *)
Definition release (o : own) : list lev := map LDrop (fst o) ++ map LFree (snd o).
Definition emitl (l : list lev) (s : st) : st := mkSt (nid s) (nblk s) (pos s) (evs s ++ l).
Definition oapp (a b : own) : own := (fst a ++ fst b, snd a ++ snd b).

Fixpoint dec (fail : nat) (s : shape) (σ : st) {struct s} : option own * st :=
  match s with
  | SUnit => (Some ([], []), σ)
  | SEl =>
      if pos σ =? fail then (None, mkSt (nid σ) (nblk σ) (S (pos σ)) (evs σ))
      else (Some ([nid σ], []), mkSt (S (nid σ)) (nblk σ) (S (pos σ)) (evs σ ++ [LNew (nid σ)]))
  | SBox s' =>
      let b := nblk σ in
      match dec fail s' (mkSt (nid σ) (S b) (pos σ) (evs σ ++ [LAlloc b])) with
      | (Some o, σ2) => (Some (fst o, snd o ++ [b]), σ2)
      | (None, σ2) => (None, emitl [LFree b] σ2)          (* Box<MaybeUninit<T>> dropped: memory freed *)
      end
  | SPair a b =>
      match dec fail a σ with
      | (None, σ1) => (None, σ1)
      | (Some oa, σ1) =>
          match dec fail b σ1 with
          | (Some ob, σ2) => (Some (oapp oa ob), σ2)
          | (None, σ2) => (None, emitl (release oa) σ2)   (* the field already built is dropped *)
          end
      end
  | SArr n s' =>
      (* while state.count < N { T::decode_into(..)?; count += 1 }  with the State guard *)
      (fix loop (k : nat) (σ : st) (acc : own) {struct k} : option own * st :=
         match k with
         | O => (Some acc, σ)                              (* mem::forget(state) *)
         | S k' => match dec fail s' σ with
                   | (Some o, σ1) => loop k' σ1 (oapp acc o)
                   | (None, σ1) => (None, emitl (release acc) σ1)   (* State::drop *)
                   end
         end) n σ ([], [])
  | SVec n s' =>
      (* the vector's buffer, then pushes; on the error path the Vec is dropped *)
      let b := nblk σ in
      match (fix loop (k : nat) (σ : st) (acc : own) {struct k} : option own * st :=
               match k with
               | O => (Some acc, σ)
               | S k' => match dec fail s' σ with
                         | (Some o, σ1) => loop k' σ1 (oapp acc o)
                         | (None, σ1) => (None, emitl (release acc) σ1)
                         end
               end) n (mkSt (nid σ) (S b) (pos σ) (evs σ ++ [LAlloc b])) ([], []) with
      | (Some o, σ2) => (Some (fst o, snd o ++ [b]), σ2)
      | (None, σ2) => (None, emitl [LFree b] σ2)
      end
  end.

(* the whole experiment: decode; a successful value is dropped afterwards *)
Definition experiment (fail : nat) (s : shape) : list lev :=
  match dec fail s (mkSt 0 0 0 []) with
  | (Some o, σ) => evs σ ++ release o
  | (None, σ) => evs σ
  end.

(* ---------- counting ---------- *)
Definition is_new (i : nat) (e : lev) := match e with LNew j => i =? j | _ => false end.
Definition is_drop (i : nat) (e : lev) := match e with LDrop j => i =? j | _ => false end.
Definition is_alloc (i : nat) (e : lev) := match e with LAlloc j => i =? j | _ => false end.
Definition is_free (i : nat) (e : lev) := match e with LFree j => i =? j | _ => false end.
Fixpoint cnt (f : lev -> bool) (l : list lev) : nat :=
  match l with [] => 0 | e :: r => (if f e then 1 else 0) + cnt f r end.
Lemma cnt_app f a b : cnt f (a ++ b) = (cnt f a + cnt f b)%nat.
Proof. induction a as [|e a IH]; cbn [app cnt]; [reflexivity|]. rewrite IH. lia. Qed.

Fixpoint occ (i : nat) (l : list nat) : nat :=
  match l with [] => 0 | j :: r => (if i =? j then 1 else 0) + occ i r end.
Lemma occ_app i a b : occ i (a ++ b) = (occ i a + occ i b)%nat.
Proof. induction a as [|e a IH]; cbn [app occ]; [reflexivity|]. rewrite IH. lia. Qed.

Lemma cnt_release_drop i o : cnt (is_drop i) (release o) = occ i (fst o).
Proof.
  unfold release. rewrite cnt_app.
  assert (H1: forall l, cnt (is_drop i) (map LDrop l) = occ i l).
  { induction l as [|j l IH]; cbn; [reflexivity|]. now rewrite IH. }
  assert (H2: forall l, cnt (is_drop i) (map LFree l) = 0%nat).
  { induction l as [|j l IH]; cbn; auto. }
  rewrite H1, H2. lia.
Qed.
Lemma cnt_release_free i o : cnt (is_free i) (release o) = occ i (snd o).
Proof.
  unfold release. rewrite cnt_app.
  assert (H1: forall l, cnt (is_free i) (map LFree l) = occ i l).
  { induction l as [|j l IH]; cbn; [reflexivity|]. now rewrite IH. }
  assert (H2: forall l, cnt (is_free i) (map LDrop l) = 0%nat).
  { induction l as [|j l IH]; cbn; auto. }
  rewrite H1, H2. lia.
Qed.
Lemma cnt_release_new i o : cnt (is_new i) (release o) = 0%nat.
Proof.
  unfold release. rewrite cnt_app.
  assert (H1: forall l, cnt (is_new i) (map LDrop l) = 0%nat) by (induction l; cbn; auto).
  assert (H2: forall l, cnt (is_new i) (map LFree l) = 0%nat) by (induction l; cbn; auto).
  now rewrite H1, H2.
Qed.
Lemma cnt_release_alloc i o : cnt (is_alloc i) (release o) = 0%nat.
Proof.
  unfold release. rewrite cnt_app.
  assert (H1: forall l, cnt (is_alloc i) (map LDrop l) = 0%nat) by (induction l; cbn; auto).
  assert (H2: forall l, cnt (is_alloc i) (map LFree l) = 0%nat) by (induction l; cbn; auto).
  now rewrite H1, H2.
Qed.

(* ---------- the invariant of one decode ---------- *)
Definition ownof (r : option own) : own := match r with Some o => o | None => ([], []) end.

Definition inv (σ : st) (r : option own) (σ' : st) : Prop :=
  exists ev, evs σ' = evs σ ++ ev /\
    (nid σ <= nid σ')%nat /\ (nblk σ <= nblk σ')%nat /\
    (forall i, cnt (is_new i) ev = (cnt (is_drop i) ev + occ i (fst (ownof r)))%nat) /\
    (forall b, cnt (is_alloc b) ev = (cnt (is_free b) ev + occ b (snd (ownof r)))%nat) /\
    (forall i, (cnt (is_new i) ev <= 1)%nat /\ (cnt (is_new i) ev = 1%nat -> (nid σ <= i < nid σ')%nat)) /\
    (forall b, (cnt (is_alloc b) ev <= 1)%nat /\ (cnt (is_alloc b) ev = 1%nat -> (nblk σ <= b < nblk σ')%nat)).

Lemma inv_refl σ : inv σ (Some ([], [])) σ.
Proof.
  exists []. split; [now rewrite app_nil_r|]. repeat split; intros; cbn in *; lia.
Qed.

Ltac inv_destruct H :=
  let ev := fresh "ev" in let E := fresh "E" in let N1 := fresh "Hn" in let N2 := fresh "Hb" in
  let I1 := fresh "I1" in let I2 := fresh "I2" in let I3 := fresh "I3" in let I4 := fresh "I4" in
  destruct H as (ev & E & N1 & N2 & I1 & I2 & I3 & I4).

Lemma inv_seq_ok σ σ1 σ2 oa ob : inv σ (Some oa) σ1 -> inv σ1 (Some ob) σ2 -> inv σ (Some (oapp oa ob)) σ2.
Proof.
  intros H1 H2. inv_destruct H1. inv_destruct H2.
  exists (ev ++ ev0). split; [rewrite E0, E; now rewrite app_assoc|]. cbn [ownof oapp fst snd] in *.
  repeat split; try lia.
  - intros i. rewrite !cnt_app, occ_app, I1, I0. lia.
  - intros b. rewrite !cnt_app, occ_app, I2, I5. lia.
  - rewrite cnt_app. destruct (I3 i) as [A1 A2]. destruct (I6 i) as [B1 B2]. lia.
  - rewrite cnt_app in H. destruct (I3 i) as [A1 A2]. destruct (I6 i) as [B1 B2]. lia.
  - rewrite cnt_app in H. destruct (I3 i) as [A1 A2]. destruct (I6 i) as [B1 B2]. lia.
  - rewrite cnt_app. destruct (I4 b) as [A1 A2]. destruct (I7 b) as [B1 B2]. lia.
  - rewrite cnt_app in H. destruct (I4 b) as [A1 A2]. destruct (I7 b) as [B1 B2]. lia.
  - rewrite cnt_app in H. destruct (I4 b) as [A1 A2]. destruct (I7 b) as [B1 B2]. lia.
Qed.

Lemma inv_seq_fail σ σ1 σ2 oa : inv σ (Some oa) σ1 -> inv σ1 None σ2 -> inv σ None (emitl (release oa) σ2).
Proof.
  intros H1 H2. inv_destruct H1. inv_destruct H2.
  exists (ev ++ ev0 ++ release oa). split; [cbn [emitl evs]; rewrite E0, E; now rewrite !app_assoc|].
  cbn [ownof fst snd emitl nid nblk occ] in *.
  repeat split; try lia.
  - intros i. rewrite !cnt_app, cnt_release_new, cnt_release_drop, I1, I0. cbn [occ]. lia.
  - intros b. rewrite !cnt_app, cnt_release_alloc, cnt_release_free, I2, I5. cbn [occ]. lia.
  - rewrite !cnt_app, cnt_release_new. destruct (I3 i) as [A1 A2]. destruct (I6 i) as [B1 B2]. lia.
  - rewrite !cnt_app, cnt_release_new in H. destruct (I3 i) as [A1 A2]. destruct (I6 i) as [B1 B2]. lia.
  - rewrite !cnt_app, cnt_release_new in H. destruct (I3 i) as [A1 A2]. destruct (I6 i) as [B1 B2]. lia.
  - rewrite !cnt_app, cnt_release_alloc. destruct (I4 b) as [A1 A2]. destruct (I7 b) as [B1 B2]. lia.
  - rewrite !cnt_app, cnt_release_alloc in H. destruct (I4 b) as [A1 A2]. destruct (I7 b) as [B1 B2]. lia.
  - rewrite !cnt_app, cnt_release_alloc in H. destruct (I4 b) as [A1 A2]. destruct (I7 b) as [B1 B2]. lia.
Qed.

(* a heap block around an inner decode: allocated before, freed on failure, owned on success *)
Lemma inv_block σ r σ2 :
  inv (mkSt (nid σ) (S (nblk σ)) (pos σ) (evs σ ++ [LAlloc (nblk σ)])) r σ2 ->
  inv σ (match r with Some o => Some (fst o, snd o ++ [nblk σ]) | None => None end)
        (match r with Some _ => σ2 | None => emitl [LFree (nblk σ)] σ2 end).
Proof.
  intros H. inv_destruct H. cbn [evs nid nblk] in *.
  assert (Hself: forall b, cnt (is_alloc b) [LAlloc (nblk σ)] = (if b =? nblk σ then 1 else 0)) by (intros; cbn; lia).
  assert (H0n: forall i, cnt (is_new i) [LAlloc (nblk σ)] = 0) by reflexivity.
  assert (H0d: forall i, cnt (is_drop i) [LAlloc (nblk σ)] = 0) by reflexivity.
  assert (H0f: forall b, cnt (is_free b) [LAlloc (nblk σ)] = 0) by reflexivity.
  destruct r as [o|].
  - exists ([LAlloc (nblk σ)] ++ ev). split; [rewrite E; now rewrite <- app_assoc|]. cbn [ownof fst snd] in *.
    repeat split; try lia.
    + intros i. rewrite !cnt_app, H0n, H0d, I1. lia.
    + intros b. rewrite !cnt_app, occ_app, Hself, H0f, I2. cbn [occ]. destruct (b =? nblk σ); lia.
    + rewrite cnt_app, H0n. apply I3.
    + rewrite cnt_app, H0n in H. apply I3 in H. lia.
    + rewrite cnt_app, H0n in H. apply I3 in H. lia.
    + rewrite cnt_app, Hself. destruct (I4 b) as [A1 A2]. destruct (Nat.eqb_spec b (nblk σ)); lia.
    + rewrite cnt_app, Hself in H. destruct (I4 b) as [A1 A2]. destruct (Nat.eqb_spec b (nblk σ)); lia.
    + rewrite cnt_app, Hself in H. destruct (I4 b) as [A1 A2]. destruct (Nat.eqb_spec b (nblk σ)); lia.
  - exists ([LAlloc (nblk σ)] ++ ev ++ [LFree (nblk σ)]). split; [cbn [emitl evs]; rewrite E; now rewrite <- !app_assoc|].
    cbn [ownof fst snd emitl nid nblk occ] in *.
    assert (Hf: forall b, cnt (is_free b) [LFree (nblk σ)] = (if b =? nblk σ then 1 else 0)) by (intros; cbn; lia).
    assert (Hz: forall f, (forall j, f (LFree j) = false) -> cnt f [LFree (nblk σ)] = 0) by (intros f Hf0; cbn; now rewrite Hf0).
    repeat split; try lia.
    + intros i. rewrite !cnt_app, H0n, H0d, I1. cbn. lia.
    + intros b. rewrite !cnt_app, Hself, H0f, Hf, I2. cbn [occ cnt is_alloc]. lia.
    + rewrite !cnt_app, H0n. cbn. destruct (I3 i). lia.
    + rewrite !cnt_app, H0n in H. cbn in H. destruct (I3 i). lia.
    + rewrite !cnt_app, H0n in H. cbn in H. destruct (I3 i). lia.
    + rewrite !cnt_app, Hself. cbn [cnt is_alloc]. destruct (I4 b) as [A1 A2]. destruct (Nat.eqb_spec b (nblk σ)); lia.
    + rewrite !cnt_app, Hself in H. cbn [cnt is_alloc] in H. destruct (I4 b) as [A1 A2]. destruct (Nat.eqb_spec b (nblk σ)); lia.
    + rewrite !cnt_app, Hself in H. cbn [cnt is_alloc] in H. destruct (I4 b) as [A1 A2]. destruct (Nat.eqb_spec b (nblk σ)); lia.
Qed.

Definition seqloop (fail : nat) (s' : shape) :=
  fix loop (k : nat) (σ : st) (acc : own) {struct k} : option own * st :=
    match k with
    | O => (Some acc, σ)
    | S k' => match dec fail s' σ with
              | (Some o, σ1) => loop k' σ1 (oapp acc o)
              | (None, σ1) => (None, emitl (release acc) σ1)
              end
    end.

Lemma seqloop_inv fail s' : (forall σ, inv σ (fst (dec fail s' σ)) (snd (dec fail s' σ))) ->
  forall k σ0 σ acc, inv σ0 (Some acc) σ ->
  inv σ0 (fst (seqloop fail s' k σ acc)) (snd (seqloop fail s' k σ acc)).
Proof.
  intros IH. induction k as [|k IHk]; intros σ0 σ acc Hacc; cbn [seqloop fst snd]; [exact Hacc|].
  specialize (IH σ). destruct (dec fail s' σ) as [[o|] σ1]; cbn [fst snd] in IH.
  - apply IHk. eapply inv_seq_ok; eauto.
  - cbn [fst snd]. eapply inv_seq_fail; eauto.
Qed.

Theorem dec_inv fail : forall s σ, inv σ (fst (dec fail s σ)) (snd (dec fail s σ)).
Proof.
  induction s as [| |n s IH|n s IH|s IH|a IHa b IHb]; intros σ.
  - apply inv_refl.
  - cbn [dec]. destruct (pos σ =? fail); cbn [fst snd].
    + exists []. cbn [evs nid nblk]. split; [now rewrite app_nil_r|]. repeat split; intros; cbn in *; lia.
    + exists [LNew (nid σ)]. cbn [evs nid nblk ownof fst snd]. split; [reflexivity|].
      repeat split; intros; cbn [cnt is_new is_drop is_alloc is_free occ ownof fst snd] in *;
        try (destruct (Nat.eqb_spec i (nid σ))); lia.
  - (* array *) change (dec fail (SArr n s) σ) with (seqloop fail s n σ ([], [])).
    apply seqloop_inv; [exact IH|apply inv_refl].
  - (* vector *)
    change (dec fail (SVec n s) σ) with
      (match seqloop fail s n (mkSt (nid σ) (S (nblk σ)) (pos σ) (evs σ ++ [LAlloc (nblk σ)])) ([], []) with
       | (Some o, σ2) => (Some (fst o, snd o ++ [nblk σ]), σ2)
       | (None, σ2) => (None, emitl [LFree (nblk σ)] σ2)
       end).
    pose proof (seqloop_inv fail s IH n _ _ _ (inv_refl (mkSt (nid σ) (S (nblk σ)) (pos σ) (evs σ ++ [LAlloc (nblk σ)])))) as H.
    apply inv_block in H.
    destruct (seqloop fail s n (mkSt (nid σ) (S (nblk σ)) (pos σ) (evs σ ++ [LAlloc (nblk σ)])) ([], [])) as [[o|] σ2]; exact H.
  - (* box *) cbn [dec]. specialize (IH (mkSt (nid σ) (S (nblk σ)) (pos σ) (evs σ ++ [LAlloc (nblk σ)]))).
    apply inv_block in IH.
    destruct (dec fail s (mkSt (nid σ) (S (nblk σ)) (pos σ) (evs σ ++ [LAlloc (nblk σ)]))) as [[o|] σ2]; exact IH.
  - (* pair *) cbn [dec]. specialize (IHa σ). destruct (dec fail a σ) as [[oa|] σ1]; cbn [fst snd] in *; [|exact IHa].
    specialize (IHb σ1). destruct (dec fail b σ1) as [[ob|] σ2]; cbn [fst snd] in *.
    + eapply inv_seq_ok; eauto.
    + eapply inv_seq_fail; eauto.
Qed.

(* the statement: for every shape (hence every N, every nesting) and every failure position,
   after the experiment every element was constructed at most once and dropped exactly as often
   as it was constructed; every block allocated at most once and freed exactly as often *)
Theorem ledger_balanced fail s : forall i,
  cnt (is_new i) (experiment fail s) = cnt (is_drop i) (experiment fail s) /\
  (cnt (is_new i) (experiment fail s) <= 1) /\
  cnt (is_alloc i) (experiment fail s) = cnt (is_free i) (experiment fail s) /\
  (cnt (is_alloc i) (experiment fail s) <= 1).
Proof.
  intros i. unfold experiment. pose proof (dec_inv fail s (mkSt 0 0 0 [])) as H.
  destruct (dec fail s (mkSt 0 0 0 [])) as [[o|] σ]; cbn [fst snd] in H; inv_destruct H; cbn [evs ownof fst snd] in *; rewrite E; cbn [app].
  - rewrite !cnt_app, cnt_release_new, cnt_release_drop, cnt_release_alloc, cnt_release_free.
    rewrite I1, I2. destruct (I3 i). destruct (I4 i). rewrite I1 in *. rewrite I2 in *. repeat split; lia.
  - rewrite I1, I2. destruct (I3 i). destruct (I4 i). cbn [occ]. rewrite I1 in *. rewrite I2 in *. cbn [occ] in *. repeat split; lia.
Qed.

(* a drop never precedes the construction it releases: in every prefix, drops <= news *)
(* (left as the counting statement above; order-sensitive properties - use after free inside
   unsafe blocks - are outside this model) *)

(* number of elements constructed before the failure: what the harness observes *)
Definition n_new (l : list lev) : nat := cnt (fun e => match e with LNew _ => true | _ => false end) l.
Definition n_drop (l : list lev) : nat := cnt (fun e => match e with LDrop _ => true | _ => false end) l.

Inductive fkind := FNone | FErr | FPanic.
Inductive ledger_case := KLedger (slots at_ : N) (k : fkind) (constructed dropped : N).

(* the correspondence: in the flat experiment of [slots] elements failing at [at_], the
   implementation constructed and dropped what the model's array of elements does *)
Definition ledger_check (c : ledger_case) : bool :=
  match c with
  | KLedger slots at_ k constructed dropped =>
      let fail := match k with FNone => N.to_nat slots | _ => N.to_nat at_ end in
      let ev := experiment fail (SArr (N.to_nat slots) SEl) in
      (N.of_nat (n_new ev) =? constructed)%N && (N.of_nat (n_drop ev) =? dropped)%N
  end.
