(* Correspondence cases for C04: what the implementation did, to be compared with
   what the model computes. *)
Require Import Scale.Bytes Scale.Hex Scale.Eres Scale.Prog Scale.CompactImpl.

Inductive ires := IOk (v : N) (consumed : N) | IErr | IPanic.

Inductive c04case :=
| KEnc (B v : N) (out : string) (clen : N)         (* Compact(v).encode(), compact_len(&v) *)
| KDec (B : N) (known : bool) (inp : string) (r : ires).

Definition ires_eqb (a b : ires) : bool :=
  match a, b with
  | IOk v c, IOk v' c' => (v =? v') && (c =? c')
  | IErr, IErr => true
  | IPanic, IPanic => true
  | _, _ => false
  end.

Definition model_dec (B : N) (known : bool) (bs : list byte) : ires :=
  match runo (dec_compact B) known bs with
  | OOk v rest => IOk v (N.of_nat (List.length bs) - N.of_nat (List.length rest))
  | OErr _ => IErr
  | OPanic => IPanic
  | ONoFuel => IPanic
  end.

Definition c04_check (c : c04case) : bool :=
  match c with
  | KEnc B v out clen =>
      match enc_compact B v with
      | EOk bs => bytes_eqb bs (hex out) && (len_compact B v =? clen)
      | _ => false
      end
  | KDec B known inp r => ires_eqb (model_dec B known (hex inp)) r
  end.

(* what the model says, for the replay file *)
Definition c04_model (c : c04case) : eres (list byte) * N * ires :=
  match c with
  | KEnc B v _ _ => (enc_compact B v, len_compact B v, IErr)
  | KDec B known inp _ => (EIll, 0, model_dec B known (hex inp))
  end.
