(* Correspondence cases for C13: the length constants the implementation reports about
   its types, against the model's functions of the descriptor. *)
Require Import Scale.Bytes Scale.Hex Scale.Codec Scale.CodecMore Scale.Mel.

Inductive c13case :=
| KMel (t : ty) (m : N)                 (* <T as MaxEncodedLen>::max_encoded_len() *)
| KFixed (t : ty) (s : option N)        (* <T as Decode>::encoded_fixed_size() *)
| KCel (t : ty)                         (* T: ConstEncodedLen *)
| KCelIs (t : ty) (b : bool).           (* whether T carries the ConstEncodedLen marker *)

Definition optN_eqb (a b : option N) : bool :=
  match a, b with Some x, Some y => x =? y | None, None => true | _, _ => false end.

Definition c13_check (c : c13case) : bool :=
  match c with
  | KMel t m => optN_eqb (mel t) (Some m)
  | KFixed t s => optN_eqb (fixed_size t) s
  | KCel t => cel t
  | KCelIs t b => Bool.eqb (cel t) b
  end.
Definition c13_model (c : c13case) : option N * option N * bool :=
  match c with
  | KMel t _ => (mel t, None, false)
  | KFixed t _ => (None, fixed_size t, false)
  | KCel t => (None, None, cel t)
  | KCelIs t _ => (None, None, cel t)
  end.
