(* C17 / C05: what the derive macros accept, as a function of the type definition
   (derive/src/utils.rs: try_get_variants, variant_index, const_eval_check_variant_indexes with
   its two const fn loops as written; encode.rs / decode.rs: attribute exclusivity; lib.rs:
   the CompactAs shape; unions). *)
Require Import Scale.Bytes Scale.Codec.

Inductive isrc := IAttr (n : N) | IDisc (z : Z) | IPos.
Record field := mkF { fskip : bool; fcompact : bool; fencas : bool }.
Record variant := mkV { vskip : bool; vsrc : isrc; vfields : list field }.
Inductive def := DStruct (fs : list field) | DEnum (vs : list variant) | DUnion.

(* `(#index) as usize`: index attribute, else the discriminant expression, else the position
   among the non-skipped variants *)
Definition as_usize (z : Z) : N := Z.to_N (z mod 2 ^ 64).
Fixpoint eff_indices (pos : N) (vs : list variant) : list N :=
  match vs with
  | [] => []
  | v :: r =>
      if vskip v then eff_indices pos r
      else (match vsrc v with IAttr n => n | IDisc z => as_usize z | IPos => pos end) :: eff_indices (pos + 1) r
  end.

(* search_for_invalid_index: the first entry above 255 *)
Fixpoint first_invalid (l : list N) (i : nat) : option nat :=
  match l with
  | [] => None
  | x :: r => if 255 <? x then Some i else first_invalid r (S i)
  end.

(* duplicate_info: the first (i, j), i < j, with equal entries *)
Fixpoint find_eq (x : N) (l : list N) (j : nat) : option nat :=
  match l with
  | [] => None
  | y :: r => if x =? y then Some j else find_eq x r (S j)
  end.
Fixpoint dup_info (l : list N) (i : nat) : option (nat * nat) :=
  match l with
  | [] => None
  | x :: r => match find_eq x r (S i) with
              | Some j => Some (i, j)
              | None => dup_info r (S i)
              end
  end.

Definition b2n (b : bool) : nat := if b then 1%nat else 0%nat.
Definition field_ok (f : field) : bool := (b2n (fskip f) + b2n (fcompact f) + b2n (fencas f) <=? 1)%nat.
Definition live (vs : list variant) : list variant := filter (fun v => negb (vskip v)) vs.

Definition derive_accepts (d : def) : bool :=
  match d with
  | DUnion => false
  | DStruct fs => forallb field_ok fs
  | DEnum vs =>
      let idx := eff_indices 0 vs in
      (length (live vs) <=? 256)%nat &&
      (match first_invalid idx 0 with None => true | Some _ => false end) &&
      (match dup_info idx 0 with None => true | Some _ => false end) &&
      forallb (fun v => forallb field_ok (vfields v)) (live vs)
  end.

Definition compact_as_accepts (d : def) : bool :=
  match d with
  | DStruct fs => (length (filter (fun f => negb (fskip f)) fs) =? 1)%nat
  | _ => false
  end.

(* ---------- characterisation ---------- *)
Lemma first_invalid_none l : forall i, first_invalid l i = None <-> Forall (fun x => x <= 255) l.
Proof.
  induction l as [|x r IH]; intros i; cbn [first_invalid]; split; intros H; auto.
  - destruct (N.ltb_spec 255 x); [discriminate|]. constructor; [lia|]. now apply (IH (S i)).
  - inversion H; subst. destruct (N.ltb_spec 255 x); [lia|]. now apply IH.
Qed.

Lemma first_invalid_some l : forall i k, first_invalid l i = Some k ->
  (i <= k)%nat /\ 255 < nth (k - i) l 0 /\ Forall (fun x => x <= 255) (firstn (k - i) l).
Proof.
  induction l as [|x r IH]; intros i k; cbn [first_invalid]; [discriminate|].
  destruct (N.ltb_spec 255 x).
  - intros [= <-]. rewrite Nat.sub_diag. cbn. repeat split; auto.
  - intros H1. apply IH in H1 as (Hk & Hn & Hf). replace (k - i)%nat with (S (k - S i)) by lia.
    cbn [nth firstn]. repeat split; [lia|exact Hn|constructor; [lia|exact Hf]].
Qed.

Lemma find_eq_none x l : forall j, find_eq x l j = None <-> ~ In x l.
Proof.
  induction l as [|y r IH]; intros j; cbn [find_eq In]; split; intros H; auto.
  - destruct (N.eqb_spec x y); [discriminate|]. intros [E|E]; [congruence|]. now apply (IH (S j)) in H.
  - destruct (N.eqb_spec x y) as [->|]; [exfalso; apply H; now left|]. apply IH. intros E. apply H. now right.
Qed.

Lemma dup_info_none l : forall i, dup_info l i = None <-> NoDup l.
Proof.
  induction l as [|x r IH]; intros i; cbn [dup_info]; split; intros H; auto; try constructor.
  - destruct (find_eq x r (S i)) eqn:E; [discriminate|]. now apply find_eq_none in E.
  - destruct (find_eq x r (S i)) eqn:E; [discriminate|]. now apply (IH (S i)).
  - inversion H; subst. destruct (find_eq x r (S i)) eqn:E.
    + exfalso. assert (find_eq x r (S i) <> None) by congruence. apply H0. now apply find_eq_none.
    + now apply IH.
Qed.

Theorem derive_accepts_iff d :
  derive_accepts d = true <->
  match d with
  | DUnion => False
  | DStruct fs => Forall (fun f => field_ok f = true) fs
  | DEnum vs =>
      (length (live vs) <= 256)%nat /\
      Forall (fun x => x <= 255) (eff_indices 0 vs) /\ NoDup (eff_indices 0 vs) /\
      Forall (fun v => Forall (fun f => field_ok f = true) (vfields v)) (live vs)
  end.
Proof.
  destruct d as [fs|vs|]; cbn [derive_accepts].
  - rewrite forallb_forall, Forall_forall. reflexivity.
  - rewrite !andb_true_iff. rewrite Nat.leb_le.
    rewrite <- (first_invalid_none (eff_indices 0 vs) 0), <- (dup_info_none (eff_indices 0 vs) 0).
    rewrite forallb_forall, Forall_forall.
    split.
    + intros [[[H1 H2] H3] H4]. repeat split; auto.
      * destruct (first_invalid (eff_indices 0 vs) 0); [discriminate|reflexivity].
      * destruct (dup_info (eff_indices 0 vs) 0); [discriminate|reflexivity].
      * intros v Hv. specialize (H4 v Hv). rewrite forallb_forall in H4. now apply Forall_forall.
    + intros (H1 & H2 & H3 & H4). repeat split; auto.
      * now rewrite H2.
      * now rewrite H3.
      * intros v Hv. specialize (H4 v Hv). rewrite Forall_forall in H4. now apply forallb_forall.
  - split; [discriminate|contradiction].
Qed.

(* the faults of the statement, read off the characterisation *)
Corollary rejected_when_index_too_big vs : Exists (fun x => 255 < x) (eff_indices 0 vs) -> derive_accepts (DEnum vs) = false.
Proof.
  intros H. destruct (derive_accepts (DEnum vs)) eqn:E; [|reflexivity]. apply derive_accepts_iff in E as (_ & Hf & _).
  apply Exists_exists in H as (x & Hx & Hlt). rewrite Forall_forall in Hf. specialize (Hf x Hx). lia.
Qed.
Corollary rejected_when_indices_collide vs : ~ NoDup (eff_indices 0 vs) -> derive_accepts (DEnum vs) = false.
Proof.
  intros H. destruct (derive_accepts (DEnum vs)) eqn:E; [|reflexivity]. apply derive_accepts_iff in E as (_ & _ & Hn & _). contradiction.
Qed.
Corollary rejected_when_too_many_variants vs : (256 < length (live vs))%nat -> derive_accepts (DEnum vs) = false.
Proof.
  intros H. destruct (derive_accepts (DEnum vs)) eqn:E; [|reflexivity]. apply derive_accepts_iff in E as (Hl & _). lia.
Qed.
Corollary rejected_union : derive_accepts DUnion = false.
Proof. reflexivity. Qed.

(* accepted enums have pairwise distinct indices below 256: what the round trip of derived enums
   (Codec.idx_ok) needs *)
Fixpoint mk_variants (idx : list N) (payloads : list ty) : variants :=
  match idx, payloads with
  | i :: ir, t :: tr => VsCons i t (mk_variants ir tr)
  | _, _ => VsNil
  end.

Lemma idx_in_mk i idx : forall payloads, length payloads = length idx ->
  idx_in i (mk_variants idx payloads) = true -> In i idx.
Proof.
  induction idx as [|j ir IH]; intros [|t tr] Hl; cbn [mk_variants idx_in]; try discriminate.
  intros H. apply orb_prop in H as [H|H]; [left; symmetry; now apply N.eqb_eq|right; eapply IH; eauto].
Qed.

Theorem accepted_indices_ok vs payloads : derive_accepts (DEnum vs) = true ->
  length payloads = length (eff_indices 0 vs) -> idx_ok (mk_variants (eff_indices 0 vs) payloads) = true.
Proof.
  intros H. apply derive_accepts_iff in H as (_ & Hf & Hn & _). revert payloads.
  induction (eff_indices 0 vs) as [|i ir IH]; intros [|t tr] Hl; cbn [mk_variants idx_ok]; try reflexivity; try discriminate.
  inversion Hf; subst. inversion Hn; subst. rewrite IH by (auto || (cbn in Hl; lia)).
  destruct (N.ltb_spec i 256); [|lia]. cbn [andb]. rewrite andb_true_r.
  destruct (idx_in i (mk_variants ir tr)) eqn:E; [|reflexivity].
  exfalso. apply H3. eapply idx_in_mk; [|exact E]. cbn in Hl. lia.
Qed.

Theorem compact_as_accepts_iff d :
  compact_as_accepts d = true <-> exists fs, d = DStruct fs /\ length (filter (fun f => negb (fskip f)) fs) = 1%nat.
Proof.
  destruct d as [fs|vs|]; cbn [compact_as_accepts]; split; try discriminate.
  - intros H. exists fs. split; [reflexivity|now apply Nat.eqb_eq].
  - intros (fs' & [= <-] & H). now apply Nat.eqb_eq.
  - intros (fs & E & _). discriminate.
  - intros (fs & E & _). discriminate.
Qed.
