(* C13: MaxEncodedLen / ConstEncodedLen / encoded_fixed_size as functions of the type
   descriptor (src/max_encoded_len.rs, src/const_encoded_len.rs, derive/src/max_encoded_len.rs
   with fields in their selected representation), and their soundness. *)
Require Import Scale.Bytes Scale.Eres Scale.Prog Scale.ProgFacts Scale.ProgMore Scale.Chunks Scale.CompactImpl
  Scale.CompactSpec Scale.CompactProofs Scale.CompactTheorems Scale.Utf8 Scale.Codec Scale.CodecEnc Scale.CodecDec
  Scale.CodecRt Scale.CodecMore.

Definition sat_add' (a b : N) : N := N.min usize_max (a + b).

Definition mel_compact (B : N) : N :=
  if B =? 1 then 2 else if B =? 2 then 4 else if B =? 4 then 5 else if B =? 8 then 9 else 17.

Fixpoint mel (t : ty) : option N :=
  match t with
  | TUnit => Some 0
  | TBool => Some 1
  | TPrim B => Some B
  | TCompact B => Some (mel_compact B)
  | TNonZero B => Some B
  | TOption t' => match mel t' with Some m => Some (sat_add' m 1) | None => None end
  | TResult a b => match mel a, mel b with Some x, Some y => Some (sat_add' (N.max x y) 1) | _, _ => None end
  | TArray n t' => match mel t' with Some m => Some (sat_mul m n) | None => None end
  | TPair a b => match mel a, mel b with Some x, Some y => Some (sat_add' x y) | _, _ => None end
  | TBox _ t' => mel t'
  | TDuration => Some 12
  | TEnum vs => match mel_vars vs with Some m => Some (sat_add' m 1) | None => None end
  | TOptionBool | TColl _ _ _ | TStr | TBits _ _ => None
  end
with mel_vars (vs : variants) : option N :=
  match vs with
  | VsNil => Some 0
  | VsCons _ t r => match mel t, mel_vars r with Some x, Some y => Some (N.max x y) | _, _ => None end
  end.

(* ConstEncodedLen markers *)
Fixpoint cel (t : ty) : bool :=
  match t with
  | TUnit | TBool | TPrim _ | TNonZero _ | TDuration => true
  | TArray _ t' | TBox _ t' => cel t'
  | TPair a b => cel a && cel b
  | _ => false
  end.

Lemma len_le_enc n v : length (le_enc n v) = n. Proof. apply le_enc_len. Qed.

Lemma spec_compact_len_le B n : okB B = true -> n < 2 ^ (8 * B) -> N.of_nat (length (spec_compact n)) <= mel_compact B.
Proof.
  intros HB Hn. pose proof (okB_okwidth B HB) as Hw.
  rewrite <- (len_compact_spec B n Hw Hn). unfold len_compact, mel_compact, leading_zeros.
  pose proof (size_le_bits n (8 * B) Hn) as Hs.
  destruct Hw as [->|[->|[->|[->| ->]]]]; cbn [N.eqb];
    repeat match goal with |- context [?a =? ?b] => let E := fresh in destruct (N.eqb_spec a b) as [E|E]; try lia end;
    repeat match goal with |- context [?a <=? ?b] => destruct (N.leb_spec a b) end; try lia.
Qed.

Lemma econcat_len (f : val -> eres (list byte)) (m : N) l : forall bs,
  (forall v b, In v l -> f v = EOk b -> N.of_nat (length b) <= m) ->
  econcat (map f l) = EOk bs -> N.of_nat (length bs) <= m * N.of_nat (length l).
Proof.
  induction l as [|v l IH]; intros bs H He; cbn [map econcat] in He.
  - injection He as <-. cbn. lia.
  - unfold ebind at 1 in He. destruct (f v) as [x| | |] eqn:Ev; try discriminate.
    unfold ebind in He. destruct (econcat (map f l)) as [y| | |] eqn:El; try discriminate.
    injection He as <-. rewrite app_length. cbn [length].
    pose proof (H v x (or_introl eq_refl) Ev). pose proof (IH y (fun v' b Hin => H v' b (or_intror Hin)) eq_refl). lia.
Qed.

Lemma econcat_len_eq (f : val -> eres (list byte)) (m : N) l : forall bs,
  (forall v b, In v l -> f v = EOk b -> N.of_nat (length b) = m) ->
  econcat (map f l) = EOk bs -> N.of_nat (length bs) = m * N.of_nat (length l).
Proof.
  induction l as [|v l IH]; intros bs H He; cbn [map econcat] in He.
  - injection He as <-. cbn. lia.
  - unfold ebind at 1 in He. destruct (f v) as [x| | |] eqn:Ev; try discriminate.
    unfold ebind in He. destruct (econcat (map f l)) as [y| | |] eqn:El; try discriminate.
    injection He as <-. rewrite app_length. cbn [length].
    pose proof (H v x (or_introl eq_refl) Ev). pose proof (IH y (fun v' b Hin => H v' b (or_intror Hin)) eq_refl). lia.
Qed.

(* no value encodes to more bytes than the declared maximum (when it did not saturate) *)
Theorem mel_sound_mut :
  (forall t m, mel t = Some m -> m < usize_max -> forall v bs, wf t v = true -> enc spec_c t v = EOk bs ->
     N.of_nat (length bs) <= m) /\
  (forall vs m, mel_vars vs = Some m -> m < usize_max -> forall k v bs, idx_ok vs = true -> wf_vars vs k v = true ->
     enc_vars spec_c vs k v = EOk bs -> N.of_nat (length bs) <= m + 1).
Proof.
  apply ty_variants_ind; cbn [mel mel_vars]; try discriminate.
  - intros m [= <-] _ [ | | | | | | | | | | ] bs; cbn [wf enc]; try discriminate. intros _ [= <-]. cbn. lia.
  - intros m [= <-] _ [ |b| | | | | | | | | ] bs; cbn [wf enc]; try discriminate. intros _ [= <-]. cbn. lia.
  - intros B m [= <-] _ [ | |n| | | | | | | | ] bs; cbn [wf enc]; try discriminate.
    intros H. apply andb_prop in H as [HB Hn]. rewrite Hn. intros [= <-]. rewrite le_enc_len. lia.
  - intros B m [= <-] _ [ | |n| | | | | | | | ] bs; cbn [wf enc]; try discriminate.
    intros H. apply andb_prop in H as [HB Hn]. rewrite Hn. unfold spec_c. intros [= <-].
    apply spec_compact_len_le; [exact HB|now apply N.ltb_lt].
  - intros B m [= <-] _ [ | |n| | | | | | | | ] bs; cbn [wf enc]; try discriminate.
    intros H. apply andb_prop in H as [H Hn]. apply andb_prop in H as [_ H0]. rewrite H0, Hn. cbn [andb].
    intros [= <-]. rewrite le_enc_len. lia.
  - (* TOption *) intros t IH m Hm Hlt. destruct (mel t) as [mt|] eqn:Et; [|discriminate]. injection Hm as <-.
    unfold sat_add' in *.
    intros [ | | | |v'| | | | | | ] bs; cbn [wf enc]; try discriminate.
    + intros _ [= <-]. cbn. lia.
    + intros Hv He. apply eapp_ok in He as (x & y & [= <-] & Hy & ->). cbn [app length].
      pose proof (IH mt eq_refl ltac:(lia) v' y Hv Hy). lia.
  - (* TResult *) intros t IHt e IHe m Hm Hlt. destruct (mel t) as [mt|] eqn:Et; [|discriminate].
    destruct (mel e) as [me|] eqn:Ee; [|discriminate]. injection Hm as <-. unfold sat_add' in *.
    intros [ | | | | |v'|v'| | | | ] bs; cbn [wf enc]; try discriminate; intros Hv He;
      apply eapp_ok in He as (x & y & [= <-] & Hy & ->); cbn [app length].
    + pose proof (IHt mt eq_refl ltac:(lia) v' y Hv Hy). lia.
    + pose proof (IHe me eq_refl ltac:(lia) v' y Hv Hy). lia.
  - (* TArray *) intros n t IH m Hm Hlt. destruct (mel t) as [mt|] eqn:Et; [|discriminate]. injection Hm as <-.
    unfold sat_mul in *.
    intros [ | | | | | | |l| | | ] bs; cbn [wf enc]; try discriminate.
    intros Hw He. apply andb_prop in Hw as [Hl Hn]. rewrite Hn in He. apply N.eqb_eq in Hn.
    subst n. destruct l as [|v0 l'] eqn:El.
    { cbn in He. injection He as <-. cbn. lia. }
    rewrite <- El in *. assert (Hpos: 1 <= N.of_nat (length l)) by (rewrite El; cbn [length]; lia).
    assert (Hmt: mt < usize_max) by nia.
    pose proof (econcat_len (enc spec_c t) mt l bs) as Hc.
    rewrite forallb_forall in Hl.
    specialize (Hc (fun v b Hin Hb => IH mt eq_refl Hmt v b (Hl v Hin) Hb) He). lia.
  - (* TPair *) intros a IHa b IHb m Hm Hlt. destruct (mel a) as [ma|] eqn:Ea; [|discriminate].
    destruct (mel b) as [mb|] eqn:Eb; [|discriminate]. injection Hm as <-. unfold sat_add' in *.
    intros [ | | | | | | | |x y| | ] bs; cbn [wf enc]; try discriminate.
    intros Hw He. apply andb_prop in Hw as [Hx Hy]. apply eapp_ok in He as (bx & by' & Ex & Ey & ->).
    rewrite app_length. pose proof (IHa ma eq_refl ltac:(lia) x bx Hx Ex). pose proof (IHb mb eq_refl ltac:(lia) y by' Hy Ey). lia.
  - (* TBox *) intros sz t IH m Hm Hlt v bs Hw He. cbn [wf enc] in *. now apply (IH m Hm Hlt v bs).
  - (* TDuration *) intros m [= <-] _ [ | | | | | | | |[ | |s| | | | | | | | ] [ | | | | | | | |[ | |n| | | | | | | | ] [ | | | | | | | | | | ]| | ]| | ] bs;
      cbn [wf enc]; try discriminate.
    intros _ He. destruct ((s <? 2 ^ 64) && (n <? 2 ^ 32)); [|discriminate].
    assert (Hbs: bs = le_enc 8 s ++ le_enc 4 n) by (now injection He). subst bs. rewrite app_length, !le_enc_len. lia.
  - (* TEnum *) intros vs IH m Hm Hlt. destruct (mel_vars vs) as [mv|] eqn:Ev; [|discriminate]. injection Hm as <-.
    unfold sat_add' in *. intros [ | | | | | | | | | |k v'] bs; cbn [wf enc]; try discriminate.
    intros Hw He. apply andb_prop in Hw as [Hidx Hw].
    pose proof (IH mv eq_refl ltac:(lia) k v' bs Hidx Hw He). lia.
  - (* VsCons *) intros idx t IHt vs IHvs m Hm Hlt. destruct (mel t) as [mt|] eqn:Et; [|discriminate].
    destruct (mel_vars vs) as [mv|] eqn:Ev; [|discriminate]. injection Hm as <-.
    intros [|k] v bs Hidx Hw He; cbn [idx_ok wf_vars enc_vars] in *.
    + apply andb_prop in Hidx as [Hidx _]. apply andb_prop in Hidx as [Hl _]. rewrite Hl in He.
      apply eapp_ok in He as (x & y & [= <-] & Hy & ->). cbn [app length].
      pose proof (IHt mt eq_refl ltac:(lia) v y Hw Hy). lia.
    + apply andb_prop in Hidx as [_ Hrest].
      pose proof (IHvs mv eq_refl ltac:(lia) k v bs Hrest Hw He). lia.
Qed.

Theorem mel_sound t m v bs : mel t = Some m -> m < usize_max -> wf t v = true -> enc_spec t v = EOk bs ->
  N.of_nat (length bs) <= m.
Proof. intros Hm Hlt Hw He. exact (proj1 mel_sound_mut t m Hm Hlt v bs Hw He). Qed.

(* constant encoded length: every value encodes to exactly the declared length *)
Theorem cel_exact : forall t m, cel t = true -> mel t = Some m -> m < usize_max ->
  forall v bs, wf t v = true -> enc spec_c t v = EOk bs -> N.of_nat (length bs) = m.
Proof.
  induction t; cbn [cel mel]; try discriminate.
  - intros m _ [= <-] _ [ | | | | | | | | | | ] bs; cbn [wf enc]; try discriminate. intros _ [= <-]. reflexivity.
  - intros m _ [= <-] _ [ |b| | | | | | | | | ] bs; cbn [wf enc]; try discriminate. intros _ [= <-]. reflexivity.
  - intros m _ [= <-] _ [ | |n| | | | | | | | ] bs; cbn [wf enc]; try discriminate.
    intros H. apply andb_prop in H as [HB Hn]. rewrite Hn. intros [= <-]. rewrite le_enc_len. lia.
  - intros m _ [= <-] _ [ | |n| | | | | | | | ] bs; cbn [wf enc]; try discriminate.
    intros H. apply andb_prop in H as [H Hn]. apply andb_prop in H as [_ H0]. rewrite H0, Hn. cbn [andb].
    intros [= <-]. rewrite le_enc_len. lia.
  - (* TArray *) intros m Hc Hm Hlt. destruct (mel t) as [mt|] eqn:Et; [|discriminate]. injection Hm as <-.
    unfold sat_mul in *. intros [ | | | | | | |l| | | ] bs; cbn [wf enc]; try discriminate.
    intros Hw He. apply andb_prop in Hw as [Hl Hn]. rewrite Hn in He. apply N.eqb_eq in Hn.
    subst n. destruct l as [|v0 l'] eqn:El.
    { cbn in He. injection He as <-. cbn. lia. }
    rewrite <- El in *. assert (Hpos: 1 <= N.of_nat (length l)) by (rewrite El; cbn [length]; lia).
    assert (Hmt: mt < usize_max) by nia.
    pose proof (econcat_len_eq (enc spec_c t) mt l bs) as Hq. rewrite forallb_forall in Hl.
    specialize (Hq (fun v b Hin Hb => IHt mt Hc eq_refl Hmt v b (Hl v Hin) Hb) He). lia.
  - (* TPair *) intros m Hc Hm Hlt. apply andb_prop in Hc as [Hca Hcb].
    destruct (mel t1) as [ma|] eqn:Ea; [|discriminate]. destruct (mel t2) as [mb|] eqn:Eb; [|discriminate].
    injection Hm as <-. unfold sat_add' in *.
    intros [ | | | | | | | |x y| | ] bs; cbn [wf enc]; try discriminate.
    intros Hw He. apply andb_prop in Hw as [Hx Hy]. apply eapp_ok in He as (bx & by' & Ex & Ey & ->).
    rewrite app_length.
    pose proof (IHt1 ma Hca eq_refl ltac:(lia) x bx Hx Ex). pose proof (IHt2 mb Hcb eq_refl ltac:(lia) y by' Hy Ey). lia.
  - (* TBox *) intros m Hc Hm Hlt v bs Hw He. cbn [wf enc] in *. now apply (IHt m Hc Hm Hlt v bs).
  - (* TDuration *) intros m _ [= <-] _ [ | | | | | | | |[ | |s| | | | | | | | ] [ | | | | | | | |[ | |n| | | | | | | | ] [ | | | | | | | | | | ]| | ]| | ] bs;
      cbn [wf enc]; try discriminate.
    intros _ He. destruct ((s <? 2 ^ 64) && (n <? 2 ^ 32)); [|discriminate].
    assert (Hbs: bs = le_enc 8 s ++ le_enc 4 n) by (now injection He). subst bs. rewrite app_length, !le_enc_len. lia.
Qed.

(* encoded_fixed_size() = Some s: every value has that size *)
Theorem fixed_size_exact : forall t s, fixed_size t = Some s ->
  forall v bs, wf t v = true -> enc spec_c t v = EOk bs -> N.of_nat (length bs) = s.
Proof.
  induction t; cbn [fixed_size]; try discriminate.
  - intros s [= <-] [ |b| | | | | | | | | ] bs; cbn [wf enc]; try discriminate. intros _ [= <-]. reflexivity.
  - intros s Hs. destruct (B =? 1); [discriminate|]. injection Hs as <-.
    intros [ | |n| | | | | | | | ] bs; cbn [wf enc]; try discriminate.
    intros H. apply andb_prop in H as [HB Hn]. rewrite Hn. intros [= <-]. rewrite le_enc_len. lia.
  - intros s Hs. destruct (fixed_size t) as [st|] eqn:Et; [|discriminate]. injection Hs as <-.
    intros [ | | | | | | |l| | | ] bs; cbn [wf enc]; try discriminate.
    intros Hw He. apply andb_prop in Hw as [Hl Hn]. rewrite Hn in He. apply N.eqb_eq in Hn.
    pose proof (econcat_len_eq (enc spec_c t) st l bs) as Hq. rewrite forallb_forall in Hl.
    specialize (Hq (fun v b Hin Hb => IHt st eq_refl v b (Hl v Hin) Hb) He). lia.
Qed.
