(* The entry points of the Encode trait and their default methods (src/codec.rs, trait Encode):
     encode_to     default: self.using_encoded(|buf| dest.write(buf))
     encode        default: Vec::with_capacity(size_hint()); self.encode_to(&mut r); r
     using_encoded default: f(&self.encode())
     encoded_size  default: self.encode_to(&mut SizeTracker) -> bytes written
   An impl overrides a subset.  [resolve] follows the calls; the three byte-producing defaults call
   each other in a cycle, so the model carries fuel and answers None when it runs out (an impl
   that overrides none of them recurses forever: finding F1). *)
Require Import Scale.Bytes Scale.Hex.

Record impl := {
  o_encode_to : option (list (list byte));   (* the writes the override performs on its destination *)
  o_encode : option (list byte);
  o_using : option (list byte);              (* the slice the override hands to the closure *)
  o_size : option N                          (* an override of encoded_size *)
}.

Inductive entry := EEncode | EEncodeTo | EUsing.

(* the bytes an entry point produces: returned vector / everything written / the slice passed *)
Fixpoint resolve (fuel : nat) (i : impl) (e : entry) : option (list byte) :=
  match fuel with
  | O => None
  | S f =>
      match e with
      | EEncode => match o_encode i with Some b => Some b | None => resolve f i EEncodeTo end
      | EEncodeTo => match o_encode_to i with Some ws => Some (List.concat ws) | None => resolve f i EUsing end
      | EUsing => match o_using i with Some b => Some b | None => resolve f i EEncode end
      end
  end.
Definition resolve_size (fuel : nat) (i : impl) : option N :=
  match o_size i with
  | Some n => Some n
  | None => option_map (fun b => N.of_nat (List.length b)) (resolve fuel i EEncodeTo)
  end.

Definition overrides_some (i : impl) : bool :=
  match o_encode_to i, o_encode i, o_using i with None, None, None => false | _, _, _ => true end.

(* with at least one of the three overridden every entry point answers within three calls *)
Theorem entry_points_terminate i e fuel : overrides_some i = true -> (3 <= fuel)%nat -> resolve fuel i e <> None.
Proof.
  intros H Hf. destruct fuel as [|[|[|f]]]; try lia. unfold overrides_some in H.
  destruct i as [[ws|] [b|] [u|] sz]; cbn in *; destruct e; cbn; try discriminate.
Qed.

(* with none overridden no entry point ever answers *)
Theorem all_default_diverges i e : overrides_some i = false -> forall fuel, resolve fuel i e = None.
Proof.
  intros H fuel. revert e. unfold overrides_some in H.
  destruct i as [[ws|] [b|] [u|] sz]; try discriminate.
  induction fuel as [|f IH]; intros e; [reflexivity|]. destruct e; cbn; apply IH.
Qed.

(* overrides that all denote one byte string *)
Definition consistent (i : impl) (B : list byte) : Prop :=
  (forall ws, o_encode_to i = Some ws -> List.concat ws = B) /\
  (forall b, o_encode i = Some b -> b = B) /\
  (forall u, o_using i = Some u -> u = B) /\
  (forall n, o_size i = Some n -> n = N.of_nat (List.length B)).

(* then every entry point that answers describes that byte string, the size-only one as its length *)
Theorem consistent_entry_points_agree i B : consistent i B ->
  forall fuel e b, resolve fuel i e = Some b -> b = B.
Proof.
  intros (H1 & H2 & H3 & _). induction fuel as [|f IH]; intros e b H; [discriminate|].
  destruct e; cbn in H.
  - destruct (o_encode i) as [x|] eqn:E; [injection H as <-; now apply H2|eauto].
  - destruct (o_encode_to i) as [ws|] eqn:E; [injection H as <-; now apply H1|eauto].
  - destruct (o_using i) as [x|] eqn:E; [injection H as <-; now apply H3|eauto].
Qed.
Theorem consistent_size_agrees i B : consistent i B ->
  forall fuel n, resolve_size fuel i = Some n -> n = N.of_nat (List.length B).
Proof.
  intros Hc fuel n H. unfold resolve_size in H. destruct (o_size i) as [m|] eqn:E.
  - injection H as <-. now apply (proj2 (proj2 (proj2 Hc))).
  - destruct (resolve fuel i EEncodeTo) as [b|] eqn:R; [|discriminate]. injection H as <-.
    now rewrite (consistent_entry_points_agree i B Hc fuel EEncodeTo b R).
Qed.

(* correspondence case: what the four entry points of a hand-written impl returned *)
Inductive ecase := KEntry (i : impl) (enc to usg : list byte) (size : N).
Definition e_check (c : ecase) : bool :=
  match c with
  | KEntry i enc to usg size =>
      match resolve 4 i EEncode, resolve 4 i EEncodeTo, resolve 4 i EUsing, resolve_size 4 i with
      | Some a, Some b, Some u, Some n => bytes_eqb a enc && bytes_eqb b to && bytes_eqb u usg && (n =? size)
      | _, _, _, _ => false
      end
  end.
