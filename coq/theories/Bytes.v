(* Layer 0: bytes, little-endian fixed width, shift/mask characterisations.
   Everything here is stdlib only and closed under the global context. *)
From Coq Require Export List NArith Lia ZArith ZifyN ZifyBool ZifyNat Bool.
From Coq.Strings Require Export Byte.
Export ListNotations.
Open Scope N_scope.
Ltac Zify.zify_post_hook ::= Z.div_mod_to_equations.
Global Arguments N.add : simpl never.
Global Arguments N.mul : simpl never.
Global Arguments N.sub : simpl never.
Global Arguments N.div : simpl never.
Global Arguments N.modulo : simpl never.
Global Arguments N.pow : simpl never.
Global Arguments N.shiftl : simpl never.
Global Arguments N.shiftr : simpl never.
Global Arguments N.lor : simpl never.
Global Arguments N.land : simpl never.
Global Arguments N.eqb : simpl never.
Global Arguments N.ltb : simpl never.
Global Arguments N.leb : simpl never.
Global Arguments N.of_nat : simpl never.
Global Arguments N.to_nat : simpl never.
Global Arguments N.size : simpl never.

Definition byte_of (v : N) : byte :=
  match Byte.of_N (v mod 256) with Some b => b | None => x00 end.

Lemma to_byte_of v : Byte.to_N (byte_of v) = v mod 256.
Proof.
  unfold byte_of. assert (H: v mod 256 < 256) by (apply N.mod_lt; lia).
  destruct (Byte.of_N (v mod 256)) eqn:E.
  - now apply Byte.to_of_N in E.
  - apply Byte.of_N_None_iff in E. lia.
Qed.

Lemma byte_of_to b : byte_of (Byte.to_N b) = b.
Proof.
  unfold byte_of. pose proof (Byte.to_N_bounded b).
  rewrite N.mod_small by lia. now rewrite Byte.of_to_N.
Qed.

Lemma byte_of_mod v : byte_of (v mod 256) = byte_of v.
Proof. unfold byte_of. now rewrite N.mod_mod by lia. Qed.

Lemma to_N_inj a b : Byte.to_N a = Byte.to_N b -> a = b.
Proof. intros H. rewrite <- (byte_of_to a), <- (byte_of_to b). now rewrite H. Qed.

(* n bytes, least significant first *)
Fixpoint le_enc (n : nat) (v : N) : list byte :=
  match n with O => [] | S n' => byte_of v :: le_enc n' (v / 256) end.

Fixpoint le_dec (l : list byte) : N :=
  match l with [] => 0 | b :: r => Byte.to_N b + 256 * le_dec r end.

Lemma le_enc_len n v : length (le_enc n v) = n.
Proof. revert v; induction n; simpl; auto. Qed.

Lemma le_dec_enc n : forall v, v < 256 ^ N.of_nat n -> le_dec (le_enc n v) = v.
Proof.
  induction n as [|n IH]; intros v Hv.
  - change (256 ^ N.of_nat 0) with 1 in Hv. simpl. lia.
  - cbn [le_enc le_dec]. rewrite to_byte_of, IH.
    + pose proof (N.div_mod v 256). lia.
    + rewrite Nat2N.inj_succ, N.pow_succ_r' in Hv. apply N.div_lt_upper_bound; lia.
Qed.

Lemma le_dec_bound l : le_dec l < 256 ^ N.of_nat (length l).
Proof.
  induction l as [|b r IH]; cbn [le_dec length].
  - change (256 ^ N.of_nat 0) with 1. lia.
  - rewrite Nat2N.inj_succ, N.pow_succ_r'. pose proof (Byte.to_N_bounded b). lia.
Qed.

Lemma le_enc_dec l : le_enc (length l) (le_dec l) = l.
Proof.
  induction l as [|b r IH]; cbn [le_dec length le_enc]; auto.
  pose proof (Byte.to_N_bounded b).
  replace (Byte.to_N b + 256 * le_dec r) with (Byte.to_N b + le_dec r * 256) by lia.
  f_equal.
  - unfold byte_of. rewrite N.mod_add by lia. rewrite N.mod_small by lia. now rewrite Byte.of_to_N.
  - rewrite N.div_add by lia. rewrite N.div_small by lia. simpl. exact IH.
Qed.

Lemma le_dec_enc_mod : forall n v, le_dec (le_enc n v) = v mod 256 ^ N.of_nat n.
Proof.
  induction n as [|n IH]; intros v.
  - change (256 ^ N.of_nat 0) with 1. simpl. now rewrite N.mod_1_r.
  - cbn [le_enc le_dec]. rewrite to_byte_of, IH, Nat2N.inj_succ, N.pow_succ_r'.
    assert (0 < 256 ^ N.of_nat n) by (apply N.neq_0_lt_0, N.pow_nonzero; lia).
    rewrite N.mod_mul_r by lia. lia.
Qed.

Lemma le_enc_mod : forall n v, le_enc n (v mod 256 ^ N.of_nat n) = le_enc n v.
Proof.
  intros n v. pose proof (le_enc_dec (le_enc n v)) as H.
  rewrite le_enc_len, le_dec_enc_mod in H. exact H.
Qed.

Lemma le_enc_inj n a b : a < 256 ^ N.of_nat n -> b < 256 ^ N.of_nat n ->
  le_enc n a = le_enc n b -> a = b.
Proof. intros Ha Hb H. rewrite <- (le_dec_enc n a Ha), <- (le_dec_enc n b Hb). now rewrite H. Qed.

Lemma le_enc_S_app n v : le_enc (S n) v = le_enc n v ++ [byte_of (v / 256 ^ N.of_nat n)].
Proof.
  revert v; induction n as [|n IH]; intros v.
  - change (256 ^ N.of_nat 0) with 1. cbn [le_enc app]. now rewrite N.div_1_r.
  - change (le_enc (S (S n)) v) with (byte_of v :: le_enc (S n) (v / 256)).
    rewrite IH. cbn [le_enc app]. do 3 f_equal.
    rewrite Nat2N.inj_succ, N.pow_succ_r' by lia.
    rewrite N.div_div; [reflexivity|lia|apply N.pow_nonzero; lia].
Qed.

(* fixed-width wrap-around (`as uN`, wrapping shift results) *)
Definition wrap (bits : N) (v : N) : N := v mod 2 ^ bits.

(* shifts *)
Lemma shl2 v : N.shiftl v 2 = 4 * v.
Proof. rewrite N.shiftl_mul_pow2. change (2^2) with 4. lia. Qed.
Lemma shr2 v : N.shiftr v 2 = v / 4.
Proof. rewrite N.shiftr_div_pow2. reflexivity. Qed.
Lemma shr8 v : N.shiftr v 8 = v / 256.
Proof. rewrite N.shiftr_div_pow2. reflexivity. Qed.

Lemma lor_low v k : k < 4 -> N.lor (4 * v) k = 4 * v + k.
Proof.
  intros Hk.
  assert (Hd: N.land (4*v) k = 0).
  { apply N.bits_inj. intro i. rewrite N.land_spec, N.bits_0.
    destruct (N.ltb_spec i 2).
    - replace (4*v) with (v * 2^2) by (change (2^2) with 4; lia).
      rewrite N.mul_pow2_bits_low by lia. reflexivity.
    - assert (N.testbit k i = false).
      { apply N.bits_above_log2. destruct k as [|p]; [simpl; lia|].
        assert (N.log2 (N.pos p) < 2). { apply N.log2_lt_pow2; [lia|]. change (2^2) with 4. lia. } lia. }
      rewrite H0. apply Bool.andb_false_r. }
  rewrite <- N.lxor_lor by exact Hd. symmetry. apply N.add_nocarry_lxor. exact Hd.
Qed.

(* disjoint or of a low part and a shifted high part *)
Lemma lor_shift_add a b k : a < 2 ^ k -> N.lor a (N.shiftl b k) = a + b * 2 ^ k.
Proof.
  intros Ha.
  assert (Hd: N.land a (N.shiftl b k) = 0).
  { apply N.bits_inj. intro i. rewrite N.land_spec, N.bits_0.
    destruct (N.ltb_spec i k).
    - rewrite N.shiftl_spec_low by lia. apply Bool.andb_false_r.
    - assert (N.testbit a i = false).
      { destruct a as [|p]; [apply N.bits_0|]. apply N.bits_above_log2.
        assert (N.log2 (N.pos p) < k) by (apply N.log2_lt_pow2; lia). lia. }
      rewrite H0. reflexivity. }
  rewrite <- N.lxor_lor by exact Hd. rewrite <- N.add_nocarry_lxor by exact Hd.
  now rewrite N.shiftl_mul_pow2.
Qed.

(* take *)
Definition take (n : nat) (bs : list byte) : option (list byte * list byte) :=
  if (n <=? length bs)%nat then Some (firstn n bs, skipn n bs) else None.

Lemma take_app n l r : length l = n -> take n (l ++ r) = Some (l, r).
Proof.
  intros <-. unfold take. rewrite app_length.
  destruct (Nat.leb_spec (length l) (length l + length r)); [|lia].
  now rewrite firstn_app, Nat.sub_diag, firstn_all, firstn_O, app_nil_r, skipn_app, skipn_all, Nat.sub_diag.
Qed.

Lemma take_inv n bs l r : take n bs = Some (l, r) -> bs = l ++ r /\ length l = n.
Proof.
  unfold take. destruct (Nat.leb_spec n (length bs)); [|discriminate].
  intros [= <- <-]. split; [now rewrite firstn_skipn|]. rewrite firstn_length. lia.
Qed.

Lemma take_None n bs : take n bs = None -> (length bs < n)%nat.
Proof. unfold take. destruct (Nat.leb_spec n (length bs)); [discriminate|auto]. Qed.
