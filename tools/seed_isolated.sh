#!/bin/bash
# Runs seeded changes against the committed checks in an isolated copy:
#   /tmp/vs = worktree of /verif HEAD, /tmp/rs = worktree of /repo HEAD (the harness there depends on /tmp/rs).
# usage: seed_isolated.sh setup | run <seed id> <property ids...>
set -u
case "$1" in
setup)
  git -C /verif worktree remove --force /tmp/vs 2>/dev/null; git -C /repo worktree remove --force /tmp/rs 2>/dev/null
  git -C /verif worktree add -q --detach /tmp/vs HEAD && git -C /repo worktree add -q --detach /tmp/rs HEAD || exit 2
  sed -i 's#path = "/repo"#path = "/tmp/rs"#' /tmp/vs/harness/Cargo.toml /tmp/vs/harness20/Cargo.toml; cp /verif/harness20/Cargo.lock /tmp/vs/harness20/Cargo.lock
  sed -i 's#^REPO = "/repo"#REPO = "/tmp/rs"#' /tmp/vs/tools/runner.py /tmp/vs/tools/c16_inventory.py
  cp /verif/harness/Cargo.lock /tmp/vs/harness/Cargo.lock
  (cd /tmp/vs && ./check setup > /tmp/vs.setup.log 2>&1); tail -2 /tmp/vs.setup.log
  ;;
run)
  ID=$2; shift 2
  git -C /tmp/rs checkout -q -- . ; git -C /tmp/rs apply /verif/seeded/$ID/patch.diff || { echo "SEED $ID: cannot apply"; exit 2; }
  for P in "$@"; do
    OUT=$(cd /tmp/vs && ./check $P --tier quick 2>&1 | grep -E "^(VIOLATION|OK|KNOWN|TOOL)" | head -3 | tr '\n' ' ')
    echo "SEED $ID check $P: $OUT"
    R=$(echo "$OUT" | grep -o "replay=[^ ]*" | head -1 | cut -d= -f2)
    if [ -n "$R" ] && [ -f "$R" ]; then python3 -c "
import json,sys
r=json.load(open('$R'))
print('   kind:', r.get('kind','')[:160])
for f in r.get('oracle_failures',[])[:2]: print('   oracle:', f['cls'], f['case'][:120])
for f in r.get('differing_cases',[])[:2]: print('   differs:', f['case'][:120])
for f in r.get('broken',[])[:1]: print('   broken:', f['text'][:300])
"; fi
  done
  git -C /tmp/rs checkout -q -- .
  ;;
esac
