#!/bin/bash
# Runs seeded changes against the committed checks in an isolated copy:
#   /tmp/vs$INST = worktree of /verif HEAD, /tmp/rs$INST = worktree of /repo HEAD (the harness there depends on it).
# usage: seed_isolated.sh setup | run <seed id> <property ids...>
set -u
# INST selects an independent pair of worktrees (several pipelines can run side by side)
VS=/tmp/vs${INST:-}; RS=/tmp/rs${INST:-}
case "$1" in
setup)
  git -C /verif worktree remove --force $VS 2>/dev/null; git -C /repo worktree remove --force $RS 2>/dev/null
  git -C /verif worktree add -q --detach $VS HEAD && git -C /repo worktree add -q --detach $RS HEAD || exit 2
  sed -i "s#path = \"/repo\"#path = \"$RS\"#" $VS/harness/Cargo.toml $VS/harness20/Cargo.toml; cp /verif/harness20/Cargo.lock $VS/harness20/Cargo.lock
  sed -i "s#^REPO = \"/repo\"#REPO = \"$RS\"#" $VS/tools/runner.py $VS/tools/c16_inventory.py
  cp /verif/harness/Cargo.lock $VS/harness/Cargo.lock
  (cd $VS && ./check setup > $VS.setup.log 2>&1); tail -2 $VS.setup.log
  ;;
run)
  ID=$2; shift 2
  git -C $RS checkout -q -- . ; git -C $RS apply /verif/seeded/$ID/patch.diff || { echo "SEED $ID: cannot apply"; exit 2; }
  for P in "$@"; do
    OUT=$(cd $VS && ./check $P --tier quick 2>&1 | grep -E "^(VIOLATION|OK|KNOWN|TOOL)" | head -3 | tr '\n' ' ')
    echo "SEED $ID check $P: $OUT"
    R=$(echo "$OUT" | grep -o "replay=[^ ]*" | head -1 | cut -d= -f2)
    if [ -n "$R" ] && [ -f "$R" ]; then python3 -c "
import json,sys
r=json.load(open('$R'))
print('   kind:', r.get('kind','')[:160])
for f in r.get('oracle_failures',[])[:2]: print('   oracle:', f['cls'], f['case'][:120])
for f in r.get('differing_cases',[])[:2]: print('   differs:', f['case'][:120])
for f in r.get('broken',[])[:1]: print('   broken:', f['text'][:300])
"; fi
  done
  git -C $RS checkout -q -- .
  ;;
esac
