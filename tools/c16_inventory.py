"""C16: the declared-impl inventory.  Every `impl .. EncodeLike<..> for ..` header in
/repo/src (outside test modules, macro bodies included) must be one the model has a theorem
family for (model/encode_like_inventory.json)."""
import glob, json, os, re

REPO = "/repo"
INV = os.path.join(os.path.dirname(os.path.dirname(os.path.abspath(__file__))), "model", "encode_like_inventory.json")

def scan():
    heads = []
    for f in sorted(glob.glob(os.path.join(REPO, "src", "*.rs"))):
        src = open(f).read()
        cut = src.find("#[cfg(test)]\nmod test")
        if cut >= 0:
            src = src[:cut]
        src = re.sub(r"//[^\n]*", "", src)
        flat = re.sub(r"\s+", " ", src)
        for m in re.finditer(r"\bimpl\s*(<[^{}]*?>)?\s*(?:crate::)?EncodeLike\b\s*(<[^{}]*?>)?\s*for\s+([^{}]+?)\s*(?:\bwhere\b([^{}]*?))?\s*\{", flat):
            # the bounds (generic parameter list and where clause) are part of what is declared:
            # relaxing one declares more pairs alike
            bounds = re.sub(r"\s+", "", (m.group(1) or "") + ("where" + m.group(4) if m.group(4) else "")).rstrip(",")
            h = "EncodeLike%s for %s" % (re.sub(r"\s+", "", m.group(2) or ""), re.sub(r"\s+", "", m.group(3)))
            if bounds:
                h += " | " + bounds
            heads.append((os.path.basename(f), h))
    return heads

def family(h):
    rules = [("BitVec|BitBox", "same descriptor (TBits)"), ("Compact", "same descriptor (TCompact)"), ("GenericArray", "C16_array"), ("Box<|Rc<|Arc<|&T|&&T|&mutT|Cow<|Ref<", "C16_holders"), ("String|&str", "C16_string_bytes"), ("Bytes", "C16_string_bytes/C16_sequences"),
             ("Result<", "C16_result"), ("Option<", "C16_option"), (r"\[U;N\]|\[T;N\]", "C16_array"), (r"\$type|Vec<|VecDeque<|&\[", "C16_sequences"),
             (r"\(\$", "C16_tuple"), ("Compact", "same descriptor (TCompact)"), ("BitVec|BitBox", "same descriptor (TBits)"), ("GenericArray", "C16_array")]
    for pat, fam in rules:
        if re.search(pat, h):
            return fam
    return "reflexive (EncodeLike<Self>)"

def hook(g, pid, tier, seed, work, problems, oracle_fails):
    heads = scan()
    inv = json.load(open(INV)) if os.path.exists(INV) else {"headers": {}}
    known = inv["headers"]
    new = [(f, h) for f, h in heads if h not in known]
    for f, h in new:
        problems.append(("proof", "declared EncodeLike impl with no theorem family in the model inventory: `%s` (%s) - the property is not shown for this pair" % (h, f)))
    gone = [h for h in known if h not in {h for _, h in heads}]
    return {"inventory_headers_in_repo": len(heads), "inventory_new": len(new), "inventory_removed": len(gone),
            "samples": ["impl %s  =>  %s" % (h, known.get(h, "?")) for _, h in heads[:4]]}

if __name__ == "__main__":
    heads = scan()
    json.dump({"headers": {h: family(h) for _, h in heads}}, open(INV, "w"), indent=1)
    print(len(heads), "headers written to", INV)
