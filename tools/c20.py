"""C20: build the corpus harness in every feature configuration, run it, compare the
per-case digests across configurations; the cases of the no_std build go through the model."""
import json, os, subprocess

CONFIGS = ["opt,cfg-std", "opt", "opt,cfg-chain", "no-opt", "no-opt,cfg-std"]
NAMES = {"opt,cfg-std": "std + chain-error (default features) + bit-vec/bytes/generic-array",
         "opt": "no default features (no_std + alloc) + bit-vec/bytes/generic-array",
         "opt,cfg-chain": "no_std + chain-error + bit-vec/bytes/generic-array",
         "no-opt": "no_std, optional integrations off",
         "no-opt,cfg-std": "std, optional integrations off"}

def run(g, cfg, pid, tier, seed, work, problems):
    sh, ROOT, CACHE = g["sh"], g["ROOT"], g["CACHE"]
    crate = os.path.join(ROOT, "harness20")
    digests, counts = {}, {}
    for c in CONFIGS:
        env = dict(g["ENV"], CARGO_TARGET_DIR=os.path.join(CACHE, "target20-" + c))
        with g["Lock"]("cargo20"):
            rc, out = sh(["cargo", "build", "--release", "--offline", "--no-default-features", "--features", c], timeout=3000, cwd=crate, env=env)
        if rc != 0:
            problems.append(("build", "harness20 does not build in configuration [%s]: %s" % (c, out[-1500:])))
            continue
        d = os.path.join(work, "cfg-" + c.replace(",", "+"))
        os.makedirs(d, exist_ok=True)
        cmd = [os.path.join(env["CARGO_TARGET_DIR"], "release", "harness20"), "--seed", str(seed), "--tier", tier, "--out", d]
        if c == "opt":
            cmd.append("--coq")
        rc, out = sh(cmd, timeout=1500)
        if rc != 0:
            problems.append(("build", "harness20 crashed in configuration [%s]: %s" % (c, out[-800:])))
            continue
        lines = open(os.path.join(d, "digest.tsv")).read().split("\n")
        digests[c] = lines
        counts[c] = len(lines)
        if c == "opt":
            for f in os.listdir(d):
                if f.startswith("c20_"):
                    os.replace(os.path.join(d, f), os.path.join(work, f))
    oracle = []
    def by_key(lines):
        m = {}
        for l in lines:
            p = l.split("\t")
            if len(p) >= 3:
                m.setdefault((p[0], p[1], p[2] if p[1] in ("dec", "decio", "decfb") else ""), []).append(l)
        return m
    ref = digests.get("opt,cfg-std")
    compared = 0
    if ref is not None:
        refm = by_key(ref)
        for c, lines in digests.items():
            if c == "opt,cfg-std":
                continue
            m = by_key(lines)
            for k, v in m.items():
                compared += len(v)
                if refm.get(k) != v:
                    oracle.append(("configuration-dependent-result", "config [%s] vs [opt,cfg-std]: %s  |  %s" % (c, (v[0] if v else "")[:300], (refm.get(k, ["<missing>"])[0])[:300])))
                    if len(oracle) > 30:
                        break
            if c.startswith("opt"):
                missing = [k for k in refm if k not in m]
                if missing:
                    oracle.append(("configuration-dependent-result", "config [%s] lacks %d cases of the reference, e.g. %s" % (c, len(missing), missing[0])))
    # no entry point of any configuration may panic on a value or byte string of the corpus
    for c, lines in digests.items():
        bad = [l for l in lines if "PANIC" in l.split("\t")[2:]]
        for l in bad[:5]:
            oracle.append(("panic-in-configuration", "config [%s]: %s" % (c, l[:300])))
    # an optional integration type and the core type it stands for give the same result (bytes,
    # verdict, consumption, also under the limiters); storage bits beyond a bit vector's length
    # do not reach the wire
    for c, lines in digests.items():
        nbad = 0
        for l in lines:
            p = l.split("\t")
            if len(p) >= 6 and p[1] == "integ":
                compared += 1
                if p[4] != p[5] and nbad < 5:
                    nbad += 1
                    oracle.append(("optional-integration-disagrees-with-core-type", "config [%s]: %s" % (c, l[:400])))
    with open(os.path.join(work, "oracle.tsv"), "w") as f:
        for c, d in oracle:
            f.write("%s\t%s\n" % (c, d.replace("\n", " ")))
    n = counts.get("opt", 0)
    stats = dict(evaluations=n, distinct_nontrivial=max(0, n - 1), duplicates_dropped=0, oracle_checks=compared,
                 rule="deterministic corpus (per-type PRNG seeded by type name): for every registry type a few seeded values (encode bytes) and for each its encoding plus three mutations (decode outcome, consumed bytes, re-encoding, decode_all verdict); one digest line per case, plus one per case for the std-only paths (encode through an io::Write sink that short-writes and reports Interrupted, decode through IoReader over a reader that short-reads and reports Interrupted; without std the same lines come from the core paths); the digests of five feature configurations are compared line by line with the default configuration; the cases of the no_std build are also checked against the model; in the configurations with the optional integrations, GenericArray<T,N> against [T;N] (7 element types: same bytes, and the same verdict/consumption/value on each encoding and three mutations, plain and under depth limits 0..3 and memory limits 0,1,4,16,64,max) and bit vectors of 8 store/order combinations cut down from an all-ones store (13 lengths; same bytes as the clean vector, as BitVec and BitBox). non-trivial = every case (all are distinct (type, input) pairs)",
                 distribution={("cases[%s]" % NAMES[c]): counts.get(c, 0) for c in CONFIGS},
                 samples=[l[:200] for l in (ref or [])[:6]])
    json.dump(stats, open(os.path.join(work, "stats.json"), "w"))
    return stats
