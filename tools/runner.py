"""Generic check driver: build from /repo's working tree, discharge the Coq obligations,
run the correspondence cases through the model (coqc + vm_compute), run the
implementation-side property oracle, decide, write evidence and replays."""
import fcntl, glob, json, os, re, resource, shutil, subprocess, sys, time
from concurrent.futures import ThreadPoolExecutor

ROOT = os.path.dirname(os.path.dirname(os.path.abspath(__file__)))
COQ = os.path.join(ROOT, "coq")
CACHE = os.path.join(ROOT, ".cache")
TARGET = os.path.join(CACHE, "target")
HARNESS = os.path.join(TARGET, "release", "harness")
REPLAYS = os.path.join(ROOT, "replays")
EVIDENCE = os.path.join(ROOT, "evidence")
REPO = "/repo"
ENV = dict(os.environ, CARGO_NET_OFFLINE="true", CARGO_TARGET_DIR=TARGET)

import props as P  # per-property configuration


def _big_stack():
    try:
        resource.setrlimit(resource.RLIMIT_STACK, (resource.RLIM_INFINITY, resource.RLIM_INFINITY))
    except Exception:
        pass

def sh(cmd, timeout=1800, cwd=ROOT, env=None):
    try:
        r = subprocess.run(cmd, cwd=cwd, env=env or ENV, stdout=subprocess.PIPE, stderr=subprocess.STDOUT,
                           timeout=timeout, shell=isinstance(cmd, str), preexec_fn=_big_stack)
        return r.returncode, r.stdout.decode("utf-8", "replace")
    except subprocess.TimeoutExpired as e:
        return 124, (e.stdout or b"").decode("utf-8", "replace") + "\n[timeout]"


class Lock:
    def __init__(self, name):
        os.makedirs(CACHE, exist_ok=True)
        self.path = os.path.join(CACHE, name + ".lock")
    def __enter__(self):
        self.f = open(self.path, "w")
        fcntl.flock(self.f, fcntl.LOCK_EX)
    def __exit__(self, *a):
        fcntl.flock(self.f, fcntl.LOCK_UN)
        self.f.close()


# ---------------------------------------------------------------- Coq side
def strip_comments(src):
    out, depth, i = [], 0, 0
    while i < len(src):
        if src.startswith("(*", i):
            depth += 1; i += 2
        elif src.startswith("*)", i) and depth:
            depth -= 1; i += 2
        else:
            if not depth:
                out.append(src[i])
            i += 1
    return "".join(out)

FORBIDDEN = re.compile(r"\b(Admitted|admit|Axiom|Axioms|Parameter|Parameters|Conjecture|Conjectures)\b|Admit Obligations|Unset Guard|bypass_check|type-in-type|impredicative-set|Unset Universe|Unset Positivity")
SECTION_ONLY = re.compile(r"\b(Hypothesis|Hypotheses|Variable|Variables|Context)\b")

def audit_coq():
    """no Admitted/admit/Axiom/Parameter/Conjecture/checker switches anywhere in the development
    (comments stripped); Variable/Hypothesis/Context only inside a Section (where they are
    discharged as ordinary quantifiers, not axioms)"""
    bad = []
    for f in glob.glob(os.path.join(COQ, "theories", "**", "*.v"), recursive=True):
        src = strip_comments(open(f).read())
        for m in FORBIDDEN.finditer(src):
            bad.append("%s: %s" % (os.path.relpath(f, ROOT), m.group(0)))
        depth = 0
        for sent in re.split(r"\.\s", src):
            s = sent.strip()
            if re.match(r"^(Section|Module)\s+\w+$", s):
                depth += 1 if s.startswith("Section") else 0
            elif re.match(r"^End\s+\w+$", s) and depth > 0:
                depth -= 1
            elif depth == 0 and SECTION_ONLY.search(s):
                bad.append("%s: %s outside a section" % (os.path.relpath(f, ROOT), SECTION_ONLY.search(s).group(0)))
    proj = open(os.path.join(COQ, "_CoqProject")).read()
    if re.search(r"type-in-type|impredicative-set|bypass", proj):
        bad.append("_CoqProject: forbidden flag")
    return bad

def build_coq():
    with Lock("coq"):
        mk = os.path.join(COQ, "Makefile")
        cp = os.path.join(COQ, "_CoqProject")
        if not os.path.exists(mk) or os.path.getmtime(mk) < os.path.getmtime(cp):
            rc, out = sh("coq_makefile -f _CoqProject -o Makefile", cwd=COQ)
            if rc:
                return False, out
        rc, out = sh("make -j16", timeout=3000, cwd=COQ)
        return rc == 0, out

ALLOWED_AXIOMS = set()  # every property theorem is closed under the global context

def compile_props(pid):
    """compile props/<pid>.v (always, so Print Assumptions output is fresh);
    returns (ok, theorems, per-theorem assumption text, log)"""
    src_path = os.path.join(COQ, "theories", "props", pid + ".v")
    src = strip_comments(open(src_path).read())
    theorems = re.findall(r"^\s*Theorem\s+(\w+)", src, re.M)
    printed = re.findall(r"Print Assumptions\s+(\w+)\s*\.", src)
    with Lock("coq"):
        rc, out = sh(["coqc", "-Q", "theories", "Scale",
                      "-w", "-notation-overridden,-deprecated-hint-without-locality,-deprecated-syntactic-definition",
                      os.path.join("theories", "props", pid + ".v")], timeout=1800, cwd=COQ)
    res = {}
    if rc == 0:
        # split the output into one block per Print Assumptions, in order
        blocks = re.split(r"(?=^Closed under the global context|^Axioms:)", out, flags=re.M)
        blocks = [b for b in blocks if b.startswith("Closed under") or b.startswith("Axioms:")]
        for name, b in zip(printed, blocks):
            if b.startswith("Closed under"):
                res[name] = []
            else:
                res[name] = re.findall(r"^(\S+)\s*:", b[len("Axioms:"):], re.M)
    return rc == 0, theorems, res, out


def run_coqchk(pid):
    """thorough tier: re-check props/<pid>.vo and everything it depends on with the independent
    checker; returns (ok, summary dict, text)"""
    rc, out = sh(["coqchk", "-silent", "-o", "-Q", "theories", "Scale", "Scale.props." + pid], timeout=3000, cwd=COQ)
    summ = {}
    for key, label in (("axioms", "Axioms"), ("type_in_type", "Constants/Inductives relying on type-in-type"),
                       ("unsafe_fixpoints", "Constants/Inductives relying on unsafe (co)fixpoints"),
                       ("assumed_positivity", "Inductives whose positivity is assumed")):
        m = re.search(r"\* " + re.escape(label) + r":\s*(.*?)(?=\n\s*\n|\Z)", out, re.S)
        summ[key] = m.group(1).strip() if m else "?"
    ok = rc == 0 and all(v == "<none>" for v in summ.values())
    return ok, summ, out[-1500:]


# ---------------------------------------------------------------- implementation side
def build_harness(features=None, profile_dir="release"):
    with Lock("cargo"):
        cmd = ["cargo", "build", "--release", "--offline"]
        if features is not None:
            cmd += ["--no-default-features", "--features", features]
        rc, out = sh(cmd, timeout=3000, cwd=os.path.join(ROOT, "harness"))
        return rc == 0, out


def run_shard(path):
    rc, out = sh(["coqc", "-noglob", "-Q", os.path.join(COQ, "theories"), "Scale", path], timeout=3000,
                 cwd=os.path.dirname(path))
    for ext in (".vo", ".vok", ".vos", ".glob"):
        try: os.remove(path[:-2] + ext)
        except OSError: pass
    aux = os.path.join(os.path.dirname(path), "." + os.path.basename(path)[:-2] + ".aux")
    try: os.remove(aux)
    except OSError: pass
    if rc != 0:
        return None, out
    m = re.search(r"=\s*(\[[^\]]*\])\s*:\s*list N", out, re.S)
    if not m:
        return None, out
    body = m.group(1).strip()[1:-1].strip()
    idx = [int(x.strip().rstrip("%N")) for x in body.split(";") if x.strip()] if body else []
    return idx, out


def run_cases(outdir):
    """evaluate every shard; returns (failing [(shard, idx, replay_line)], tool_errors)"""
    shards = sorted(glob.glob(os.path.join(outdir, "*_[0-9][0-9].v")))
    index = {}
    for f in glob.glob(os.path.join(outdir, "*_index.tsv")):
        for line in open(f):
            sh_, i, rest = line.rstrip("\n").split("\t", 2)
            index[(sh_, int(i))] = rest
    fails, errors = [], []
    with ThreadPoolExecutor(max_workers=16) as ex:
        for path, (idx, out) in zip(shards, ex.map(run_shard, shards)):
            name = os.path.basename(path)[:-2]
            if idx is None:
                errors.append((name, out[-2000:]))
            else:
                for i in idx:
                    fails.append((name, i, index.get((name, i), "?")))
    return fails, errors, len(shards)


def explain(cfg, pid, replay_lines, workdir):
    """re-run single cases through the harness and ask the model what it computes"""
    res = []
    for k, line in enumerate(replay_lines[:5]):
        d = os.path.join(workdir, "explain%d" % k)
        shutil.rmtree(d, ignore_errors=True)
        os.makedirs(d)
        open(os.path.join(d, "only.txt"), "w").write(line)
        try:
            rc, out = sh([HARNESS, cfg["harness"], "--only-file", os.path.join(d, "only.txt"), "--out", d, "--shards", "1"], timeout=600)
        except Exception as e:
            rc, out = 1, str(e)
        entry = {"case": line, "impl_case_term": None, "model_says": None}
        fs = sorted(glob.glob(os.path.join(d, "*_00.v")))
        if rc == 0 and fs:
            src = open(fs[0]).read()
            m = re.search(r":= \[\n(.*?)\n\]\.", src, re.S)
            entry["impl_case_term"] = m.group(1).strip()[:4000] if m else None
            if cfg.get("model_fn"):
                src = re.sub(r"Eval vm_compute in \(failures .*\)\.", "Eval vm_compute in (map %s cases)." % cfg["model_fn"], src)
                open(fs[0], "w").write(src)
                rc2, out2 = sh(["coqc", "-noglob", "-Q", os.path.join(COQ, "theories"), "Scale", fs[0]], timeout=600, cwd=d)
                entry["model_says"] = re.sub(r"\s+", " ", out2)[-3000:]
        res.append(entry)
    return res


def load_known(pid):
    p = os.path.join(ROOT, "known_findings.json")
    if not os.path.exists(p):
        return []
    return [k for k in json.load(open(p)) if k.get("property") == pid and k.get("status") == "known"]


def write_json(path, obj):
    os.makedirs(os.path.dirname(path), exist_ok=True)
    tmp = path + ".tmp"
    json.dump(obj, open(tmp, "w"), indent=1)
    os.replace(tmp, path)


# ---------------------------------------------------------------- one check
def check(pid, tier, seed, only=None):
    t0 = time.time()
    cfg = P.PROPS[pid]
    work = os.path.join(CACHE, "run", "%s-%s" % (pid, tier))
    shutil.rmtree(work, ignore_errors=True)
    os.makedirs(work)
    os.makedirs(REPLAYS, exist_ok=True)
    problems = []      # (kind, text)   kinds: proof, audit, build, corr, oracle, tool
    log = []

    # 1. Coq: development, audit, pinned theorems of this property
    ok, out = build_coq()
    log.append(("make", out[-3000:]))
    if not ok:
        problems.append(("proof", "the Coq development does not build:\n" + out[-1500:]))
    bad = audit_coq()
    if bad:
        problems.append(("audit", "forbidden construct in the development: " + "; ".join(bad[:10])))
    theorems, discharged, assumptions = [], 0, {}
    chk_future, coqchk = None, None
    if ok:
        ok2, theorems, assumptions, out = compile_props(pid)
        log.append(("props", out[-3000:]))
        if not ok2:
            problems.append(("proof", "props/%s.v does not check:\n%s" % (pid, out[-1500:])))
        for th in theorems:
            ax = assumptions.get(th)
            if ax is None:
                if ok2:
                    problems.append(("proof", "theorem %s has no Print Assumptions output" % th))
            elif [a for a in ax if a not in ALLOWED_AXIOMS]:
                problems.append(("proof", "theorem %s depends on axioms %s" % (th, ax)))
            else:
                discharged += 1
        if ok2 and tier == "thorough":
            # overlaps with the harness build and run below; joined before the verdict
            chk_future = ThreadPoolExecutor(max_workers=1).submit(run_coqchk, pid)
    else:
        src = strip_comments(open(os.path.join(COQ, "theories", "props", pid + ".v")).read())
        theorems = re.findall(r"^\s*Theorem\s+(\w+)", src, re.M)

    # 2. implementation: build the harness against /repo's working tree, run it
    stats, fails, oracle_fails, shards = {}, [], [], 0
    extra = {}
    hook = cfg.get("pre")  # property-specific preparation (generated programs, extra builds...)
    if cfg.get("custom"):
        okb = True
        try:
            stats = cfg["custom"](globals(), cfg, pid, tier, seed, work, problems) or {}
            for line in open(os.path.join(work, "oracle.tsv")) if os.path.exists(os.path.join(work, "oracle.tsv")) else []:
                c, _, d = line.rstrip("\n").partition("\t")
                oracle_fails.append((c, d))
            if ok:
                fails, errors, shards = run_cases(work)
                for name, e in errors:
                    problems.append(("tool", "coqc failed on generated case file %s: %s" % (name, e[-800:])))
        except Exception:
            import traceback
            problems.append(("tool", "property-specific runner crashed: " + traceback.format_exc()[-1500:]))
    else:
        okb, out = build_harness()
        log.append(("cargo", out[-3000:]))
    if cfg.get("custom"):
        pass
    elif not okb:
        problems.append(("build", "the harness does not build against /repo's working tree (correspondence cannot be set up):\n" + out[-2500:]))
    else:
        cmd = [HARNESS, cfg["harness"], "--seed", str(seed), "--tier", tier, "--out", work]
        if only:
            open(os.path.join(work, "only.txt"), "w").write(only)
            cmd += ["--only-file", os.path.join(work, "only.txt")]
        rc, out = sh(cmd, timeout=cfg.get("harness_timeout", 1500))
        log.append(("harness", out[-3000:]))
        if rc != 0:
            problems.append(("build", "the harness run failed (exit %d): %s" % (rc, out[-2000:])))
        else:
            try:
                stats = json.load(open(os.path.join(work, "stats.json")))
            except Exception as e:
                stats = {}
            for line in open(os.path.join(work, "oracle.tsv")) if os.path.exists(os.path.join(work, "oracle.tsv")) else []:
                c, _, d = line.rstrip("\n").partition("\t")
                oracle_fails.append((c, d))
            if ok:
                fails, errors, shards = run_cases(work)
                for name, e in errors:
                    problems.append(("tool", "coqc failed on generated case file %s: %s" % (name, e[-800:])))
    if hook and okb and ok:
        try:
            extra = hook(globals(), pid, tier, seed, work, problems, oracle_fails) or {}
        except Exception as e:
            import traceback
            problems.append(("tool", "property-specific step crashed: " + traceback.format_exc()[-1500:]))

    if chk_future is not None:
        try:
            okc, summ, outc = chk_future.result()
            coqchk = summ
            if not okc:
                problems.append(("proof", "coqchk does not accept props/%s.vo and its dependencies with an empty context: %s\n%s" % (pid, summ, outc)))
        except Exception as e:
            problems.append(("tool", "coqchk could not be run: %r" % (e,)))

    # 3. verdict
    known = load_known(pid)
    known_hits, new_oracle = [], []
    for c, d in oracle_fails:
        hit = None
        for k in known:
            if k["class"] == c and re.search(k.get("pattern", ""), d):
                hit = k
        (known_hits if hit else new_oracle).append((c, d, hit))
    printed = set()
    for c, d, k in known_hits:
        key = (k["id"])
        if key not in printed:
            printed.add(key)
            print("KNOWN-FINDING: property=%s %s [%s; e.g. %s]" % (pid, k["what"], k["id"], d[:160]))

    violation = None
    tool_only = False
    real = [p for p in problems if p[0] in ("proof", "audit", "build")]
    if new_oracle or fails or real:
        concrete = bool(new_oracle) or (bool(fails) and cfg.get("corr_is_property", False))
        kinds = []
        violation = dict(failing_input_found=concrete)
        if new_oracle:
            kinds.append("property-oracle failure on the implementation")
            violation["oracle_failures"] = [dict(cls=c, case=d) for c, d, _ in new_oracle[:20]]
            violation["replay_case"] = new_oracle[0][1]
        if fails:
            kinds.append("model/implementation correspondence broken" + (" (the model is proved equal to the specification for these case kinds, so each differing case is an input on which the implementation departs from the property)" if cfg.get("corr_is_property", False) else ""))
            violation["correspondence"] = cfg.get("corr_name", pid + " correspondence")
            violation["differing_cases"] = [dict(shard=s_, index=i, case=r) for s_, i, r in fails[:20]]
            violation["n_differing"] = len(fails)
            violation["explain"] = explain(cfg, pid, [f[2] for f in fails], work) if okb else []
            violation.setdefault("replay_case", fails[0][2])
        if real:
            kinds.append("obligation no longer checks")
            violation["broken"] = [dict(kind=k, text=t) for k, t in real]
        violation["kind"] = "; ".join(kinds)
    elif problems:
        tool_only = True

    n_eval = int(stats.get("evaluations", 0)) + int(extra.get("evaluations", 0))
    evidence = dict(
        property_id=pid, tier=tier, seed=seed, level="proof",
        coverage=dict(
            obligations=len(theorems), discharged=discharged,
            checker_cmd="coqc -Q theories Scale theories/props/%s.v (after make -j16 of coq/_CoqProject); Print Assumptions per theorem; audit grep for Admitted/admit/Axiom/Parameter/..." % pid
                        + ("; coqchk -silent -o -Q theories Scale Scale.props.%s (independent re-check of the compiled files: axioms / type-in-type / unsafe fixpoints / assumed positivity must all be <none>)" % pid if coqchk is not None else ""),
            coqchk=coqchk if coqchk is not None else "not run in the quick tier",
            trusted_base=cfg.get("trusted_base", []) + P.COMMON_TRUSTED,
            theorems=theorems, assumptions={k: v for k, v in assumptions.items()},
            evaluations=n_eval, distinct_nontrivial=int(stats.get("distinct_nontrivial", 0)) + int(extra.get("distinct_nontrivial", 0)),
            rule=stats.get("rule", ""), samples=(stats.get("samples", []) + extra.get("samples", []))[:16] or ["(none: harness did not run)"],
            distribution=stats.get("distribution", {}), duplicates_dropped=stats.get("duplicates_dropped", 0),
            oracle_checks=int(stats.get("oracle_checks", 0)) + int(extra.get("oracle_checks", 0)), case_shards=shards,
            correspondence_failures=len(fails), oracle_failures_new=len(new_oracle), oracle_failures_known=len(known_hits),
            exhaustive=False, extra={k: v for k, v in extra.items() if k not in ("samples",)},
        ),
        assumptions=cfg.get("assumptions", []),
        wall_s=round(time.time() - t0, 2),
        violations=0 if violation is None else 1,
    )
    write_json(os.path.join(EVIDENCE, pid + ".json"), evidence)

    if violation:
        n = 0
        while os.path.exists(os.path.join(REPLAYS, "%s-%d-%d.json" % (pid, seed, n))):
            n += 1
        path = os.path.join(REPLAYS, "%s-%d-%d.json" % (pid, seed, n))
        violation.update(property=pid, seed=seed, tier=tier,
                         replay_cmd="./check %s --replay %s" % (pid, path),
                         problems=[dict(kind=k, text=t) for k, t in problems])
        write_json(path, violation)
        print("VIOLATION property=%s replay=%s%s" % (pid, path, "" if violation["failing_input_found"] else " no-failing-input-found"))
        return 1
    if tool_only:
        for k, t in problems:
            print("TOOL-ERROR: %s" % t[:600], file=sys.stderr)
        return 2
    print("OK property=%s tier=%s seed=%d obligations=%d/%d cases=%d oracle_checks=%d wall=%.1fs" % (
        pid, tier, seed, discharged, len(theorems), n_eval, evidence["coverage"]["oracle_checks"], time.time() - t0))
    return 0


def setup():
    ok, out = build_coq()
    print(out[-1500:])
    if not ok:
        return 1
    okb, out = build_harness()
    print(out[-1500:])
    return 0 if okb else 1


def main(argv):
    if not argv:
        print(__doc__); return 2
    if argv[0] == "setup":
        return setup()
    pid = argv[0]
    if pid not in P.PROPS:
        print("unknown property " + pid); return 2
    tier = os.environ.get("VERIF_TIER", "quick")
    seed = int(os.environ.get("VERIF_SEED", "1") or 1)
    only = None
    i = 1
    while i < len(argv):
        if argv[i] == "--tier": tier = argv[i + 1]; i += 1
        elif argv[i] == "--seed": seed = int(argv[i + 1]); i += 1
        elif argv[i] == "--replay":
            r = json.load(open(argv[i + 1])); only = r.get("replay_case"); seed = r.get("seed", seed); i += 1
        i += 1
    if tier not in ("quick", "thorough"):
        tier = "quick"
    def guarded():
        try:
            return check(pid, tier, seed, only)
        except Exception:
            import traceback
            print("TOOL-ERROR: the check driver crashed: " + traceback.format_exc()[-1200:], file=sys.stderr)
            return 2
    rc = guarded()
    # retry once on a pure tool error
    if rc == 2:
        rc = guarded()
    return rc
