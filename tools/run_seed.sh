#!/bin/bash
# usage: run_seed.sh <seed id> <property ids...> : apply the seeded patch to /repo, run the checks, undo
ID=$1; shift
cd /verif
git -C /repo apply /verif/seeded/$ID/patch.diff || { echo "cannot apply"; exit 2; }
for P in "$@"; do
  OUT=$(./check $P --tier quick 2>&1 | grep -E "^(VIOLATION|OK|KNOWN|TOOL)" | head -3 | tr '\n' ' ')
  echo "SEED $ID check $P: $OUT"
done
git -C /repo checkout -- .
