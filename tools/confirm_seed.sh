#!/bin/bash
# usage: confirm_seed.sh <ID e.g. C02a> <property> <dir with ID.diff, ID_demo.rs, ID.md>
# DEMO_FLAGS: extra cargo flags the demonstration needs (e.g. --features max-encoded-len)
# Confirms a seeded change in a scratch worktree: compiles, suite unchanged, demo fails with / passes without.
set -u
ID=$1; PROP=$2; SRC=$3
W=/tmp/conf/$ID
OUT=/verif/seeded/$ID
mkdir -p /tmp/conf $OUT
git -C /repo worktree remove --force $W 2>/dev/null
git -C /repo worktree add -q --detach $W HEAD || exit 2
export CARGO_TARGET_DIR=${CONF_TARGET:-/tmp/conf/target}   # shared between confirmations (same sources apart from the patch)
summ() { grep -E "^test .* \.\.\. (ok|FAILED|ignored)" | sed 's/ \.\.\. /=/' | sort | uniq -c | md5sum | cut -c1-12; }
cd $W
HEADREV=$(git -C /repo rev-parse --short HEAD)
if [ ! -f /tmp/conf/baseline.sum ] || [ "$(cat /tmp/conf/baseline.rev 2>/dev/null)" != "$HEADREV" ]; then
  echo $HEADREV > /tmp/conf/baseline.rev
  cargo test --workspace --no-fail-fast --offline 2>&1 | tee /tmp/conf/baseline.log | summ > /tmp/conf/baseline.sum
fi
git apply $SRC/$ID.diff || { echo "$ID: patch does not apply"; exit 2; }
cargo test --workspace --no-fail-fast --offline > /tmp/conf/$ID.suite.log 2>&1
S=$(cat /tmp/conf/$ID.suite.log | summ)
B=$(cat /tmp/conf/baseline.sum)
SUITE_SAME=false; [ "$S" = "$B" ] && SUITE_SAME=true
cp $SRC/${ID}_demo.rs tests/${ID}_demo.rs
cargo test --offline ${DEMO_FLAGS:-} --test ${ID}_demo > /tmp/conf/$ID.demo_with.log 2>&1; RC_WITH=$?
git apply -R $SRC/$ID.diff
cargo test --offline ${DEMO_FLAGS:-} --test ${ID}_demo > /tmp/conf/$ID.demo_without.log 2>&1; RC_WITHOUT=$?
cp $SRC/$ID.diff $OUT/patch.diff; cp $SRC/${ID}_demo.rs $OUT/demo.rs; cp $SRC/$ID.md $OUT/description.md 2>/dev/null
python3 - <<E
import json
json.dump({"id":"$ID","property":"$PROP","suite_unchanged":"$SUITE_SAME"=="true","demo_fails_with_patch":$RC_WITH!=0,"demo_passes_without_patch":$RC_WITHOUT==0,
 "confirmed": "$SUITE_SAME"=="true" and $RC_WITH!=0 and $RC_WITHOUT==0,
 "what_i_ran":"scratch worktree of /repo HEAD; git apply patch.diff; cargo test --workspace --no-fail-fast --offline (per-test results compared with the unpatched baseline); cargo test --offline --test <demo> with the patch (must fail) and after git apply -R (must pass)",
 "needs": open("$SRC/$ID.md").read() if __import__('os').path.exists("$SRC/$ID.md") else ""}, open("$OUT/meta.json","w"), indent=1)
E
cd /; git -C /repo worktree remove --force $W
echo "$ID suite_same=$SUITE_SAME demo_with_rc=$RC_WITH demo_without_rc=$RC_WITHOUT"
