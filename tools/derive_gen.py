"""Generator of type definitions over the derive attribute grammar (C05, C17, C13).

A definition is a python dict; from it we render (a) Rust source, (b) the Coq `def` term of
Derive.v (what the macro has to accept or reject), (c) for accepted definitions the Coq `ty`
descriptor and the Rust `Uni` impl used by the generic engine.
All randomness comes from one random.Random(seed)."""
import random

FIELD_TYPES = [  # (rust type, Coq ty, compact-able width or None)
    ("u8", "(TPrim 1)", 1), ("u16", "(TPrim 2)", 2), ("u32", "(TPrim 4)", 4), ("u64", "(TPrim 8)", 8), ("u128", "(TPrim 16)", 16),
    ("bool", "TBool", None), ("Vec<u8>", "(TColl CVec 1 (TPrim 1))", None), ("Option<u16>", "(TOption (TPrim 2))", None),
    ("String", "TStr", None), ("(u8, u16)", "(TPair (TPrim 1) (TPair (TPrim 2) TUnit))", None), ("[u8; 3]", "(TArray 3 (TPrim 1))", None),
    ("Vec<u32>", "(TColl CVec 4 (TPrim 4))", None), ("Box<u16>", "(TBox 2 (TPrim 2))", None), ("()", "TUnit", None),
]
INT_FIELDS = [f for f in FIELD_TYPES if f[2]]


def gen_field(r, allow_conflict=False, plain_wrapper=False):
    ft = r.choice(FIELD_TYPES)
    attr = "plain"
    if ft[2] and r.random() < 0.35:
        attr = r.choice(["compact", "encoded_as"])
    if plain_wrapper and ft[2] and attr == "plain" and r.random() < 0.15:
        # encoded_as a type that is NOT the compact form: Plain<T> encodes like T itself
        attr = "as_plain"
    if r.random() < 0.15:
        attr = "skip"
    f = {"ty": ft, "attr": attr, "conflict": None}
    if allow_conflict:
        ft = r.choice(INT_FIELDS)
        f = {"ty": ft, "attr": "plain", "conflict": r.choice([("skip", "compact"), ("compact", "encoded_as"), ("skip", "encoded_as"), ("skip", "compact", "encoded_as"), ("compact", "skip")]), "onelist": r.random() < 0.4}
    return f


def field_attrs(f):
    if f["conflict"]:
        names = f["conflict"]
    else:
        names = () if f["attr"] == "plain" else (f["attr"],)
    if f["attr"] == "as_plain":
        return '#[codec(encoded_as = "crate::types::Plain<%s>")]' % f["ty"][0], ("encoded_as",)
    if f.get("conflict") and f.get("onelist"):
        # the conflicting attributes in ONE #[codec(..)] list
        items = ["skip" if n == "skip" else "compact" if n == "compact" else 'encoded_as = "<%s as parity_scale_codec::HasCompact>::Type"' % f["ty"][0] for n in names]
        return "#[codec(%s)]" % ", ".join(items), names
    out = []
    for n in names:
        if n == "skip":
            out.append("#[codec(skip)]")
        elif n == "compact":
            out.append("#[codec(compact)]")
        else:
            out.append('#[codec(encoded_as = "<%s as parity_scale_codec::HasCompact>::Type")]' % f["ty"][0])
    return " ".join(out), names


def coq_field(f):
    _, names = field_attrs(f)
    b = lambda x: "true" if x in names else "false"
    return "(mkF %s %s %s)" % (b("skip"), b("compact"), b("encoded_as"))


def field_ty_coq(f):
    """descriptor of the field as encoded (None if skipped)"""
    if f["attr"] == "skip":
        return None
    if f["attr"] in ("compact", "encoded_as"):
        return "(TCompact %d)" % f["ty"][2]
    return f["ty"][1]


def nest(ctor, nil, parts):
    s = nil
    for p in reversed(parts):
        s = "(%s %s %s)" % (ctor, p, s)
    return s


# ---------------------------------------------------------------- enums
def rust_discriminants(variants):
    """Rust's own discriminant of every variant (explicit, else previous + 1)"""
    out, cur = [], -1
    for v in variants:
        cur = v["disc"] if v["disc"] is not None else cur + 1
        out.append(cur)
    return out


def eff_indices(variants):
    idx, pos = [], 0
    for v in variants:
        if v["skip"]:
            continue
        if v["index"] is not None:
            idx.append(v["index"])
        elif v["disc"] is not None:
            idx.append(v["disc"] % (1 << 64))
        else:
            idx.append(pos)
        pos += 1
    return idx


def enum_accepts(variants):
    live = [v for v in variants if not v["skip"]]
    idx = eff_indices(variants)
    if len(live) > 256:
        return False, "macro"
    if any(i > 255 for i in idx) or len(set(idx)) != len(idx):
        return False, "const"
    for v in live:
        for f in v["fields"]:
            if f["conflict"]:
                return False, "macro"
    return True, None


def gen_enum(r, n, pool, with_fields):
    vs = []
    for k in range(n):
        src = r.choice(["pos", "pos", "attr", "disc"])
        v = {"name": "V%d" % k, "skip": r.random() < 0.15, "index": None, "disc": None, "fields": [], "shape": "unit"}
        if src == "attr":
            v["index"] = r.choice(pool)
        elif src == "disc" and not with_fields:
            v["disc"] = r.choice(pool)
        if with_fields and r.random() < 0.6:
            v["shape"] = r.choice(["tuple", "named"])
            v["fields"] = [gen_field(r) for _ in range(r.randint(1, 3))]
        vs.append(v)
    return vs


def valid_rust_enum(variants):
    d = rust_discriminants(variants)
    return len(set(d)) == len(d) and all(0 <= x < (1 << 31) for x in d)


def render_enum(name, variants, derives, generics=""):
    lines = ["#[derive(%s)]" % derives]
    has_disc = any(v["disc"] is not None for v in variants)
    if has_disc and any(v["fields"] for v in variants):
        lines.append("#[repr(u32)]")
    lines.append("pub enum %s%s {" % (name, generics))
    for v in variants:
        attrs = []
        if v["skip"]:
            attrs.append("#[codec(skip)]")
        if v["index"] is not None:
            # the literal in any of the spellings Rust allows for an integer
            lit = {0: "%d", 1: "0x%x", 2: "%du8" if v["index"] < 256 else "%d", 3: "0b%s" % bin(v["index"])[2:] if v["index"] < 256 else "%d", 4: "0o%o"}.get(v.get("lit", 0), "%d")
            attrs.append("#[codec(index = %s)]" % (lit % v["index"] if "%" in lit else lit))
        if v.get("rev"):
            # the separate attributes in the other order (a merged `#[codec(index = N, skip)]` is
            # rejected by the derive)
            attrs = list(reversed(attrs))
        body = v["name"]
        if v["shape"] == "tuple":
            body += "(" + ", ".join("%s %s" % (field_attrs(f)[0], f["ty"][0]) for f in v["fields"]) + ")"
        elif v["shape"] == "named":
            body += " { " + ", ".join("%s f%d: %s" % (field_attrs(f)[0], i, f["ty"][0]) for i, f in enumerate(v["fields"])) + " }"
        if v["disc"] is not None:
            body += " = %d" % v["disc"]
        lines.append("\t%s %s," % (" ".join(attrs), body))
    lines.append("}")
    return lines


def coq_enum(variants):
    vs = []
    for v in variants:
        src = "IPos"
        if v["index"] is not None:
            src = "(IAttr %d)" % v["index"]
        elif v["disc"] is not None:
            src = "(IDisc %d)" % v["disc"]
        vs.append("(mkV %s %s [%s])" % ("true" if v["skip"] else "false", src, "; ".join(coq_field(f) for f in v["fields"])))
    return "(DEnum [%s])" % "; ".join(vs)


def enum_ty_coq(variants):
    idx = eff_indices(variants)
    live = [v for v in variants if not v["skip"]]
    s = "VsNil"
    for i, v in reversed(list(zip(idx, live))):
        payload = nest("TPair", "TUnit", [t for t in (field_ty_coq(f) for f in v["fields"]) if t])
        s = "(VsCons %d %s %s)" % (i, payload, s)
    return "(TEnum %s)" % s


# ---------------------------------------------------------------- structs
def render_struct(name, shape, fields, derives, transparent=False):
    lines = ["#[derive(%s)]" % derives]
    if transparent:
        lines.append("#[repr(transparent)]")
    if shape == "unit":
        lines.append("pub struct %s;" % name)
    elif shape == "tuple":
        lines.append("pub struct %s(%s);" % (name, ", ".join("%s pub %s" % (field_attrs(f)[0], f["ty"][0]) for f in fields)))
    else:
        lines.append("pub struct %s { %s }" % (name, ", ".join("%s pub f%d: %s" % (field_attrs(f)[0], i, f["ty"][0]) for i, f in enumerate(fields))))
    return lines


def coq_struct(fields):
    return "(DStruct [%s])" % "; ".join(coq_field(f) for f in fields)


def struct_ty_coq(fields):
    return nest("TPair", "TUnit", [t for t in (field_ty_coq(f) for f in fields) if t])


# ---------------------------------------------------------------- C17 program set
def c17_definitions(seed, thorough):
    """list of dicts: name, rust lines, coq def, kind ('derive' | 'compactas'), expected (bool), phase"""
    r = random.Random(seed * 7919 + 17)
    defs = []
    pool = [0, 1, 2, 3, 4, 5, 254, 255, 256, 257, 300]

    def add_enum(vs, tag):
        if not valid_rust_enum(vs):
            return
        ok, phase = enum_accepts(vs)
        name = "E%d" % len(defs)
        defs.append(dict(name=name, rust=render_enum(name, vs, "Encode, Decode"), coq=coq_enum(vs), kind="derive", expected=ok, phase=phase, tag=tag,
                         n_variants=len(vs), indices=eff_indices(vs)))

    def unit(name, index=None, disc=None, skip=False):
        return {"name": name, "skip": skip, "index": index, "disc": disc, "fields": [], "shape": "unit"}

    # hand-picked boundary programs, each invalid one next to a minimally different valid twin
    add_enum([unit("A", index=255), unit("B")], "index-255-ok")
    add_enum([unit("A", index=256), unit("B")], "index-256")
    add_enum([unit("A", index=300), unit("B")], "index-300")
    add_enum([unit("A", disc=255), unit("B", index=7)], "disc-255-ok")
    add_enum([unit("A", disc=256), unit("B", index=7)], "disc-256")
    add_enum([unit("A", disc=300)], "disc-300")
    add_enum([unit("A", index=1), unit("B")], "attr-collides-with-position")
    add_enum([unit("A", index=2), unit("B")], "attr-vs-position-ok")
    add_enum([unit("A", index=5), unit("B", index=5)], "attr-attr-collision")
    add_enum([unit("A", index=5), unit("B", index=6)], "attr-attr-ok")
    add_enum([unit("A", disc=3), unit("B", index=3)], "disc-attr-collision")
    add_enum([unit("A", disc=3), unit("B", index=4)], "disc-attr-ok")
    add_enum([unit("A", disc=1), unit("B", disc=0)], "disc-vs-disc-ok")
    add_enum([unit("A", disc=1), unit("B", index=9), unit("C")], "disc-then-position-2-ok")
    add_enum([unit("A", disc=2), unit("B", index=9), unit("C")], "disc-collides-with-later-position")
    add_enum([unit("A", skip=True), unit("B"), unit("C", index=0)], "skip-shifts-position-collision")
    add_enum([unit("A", skip=True), unit("B"), unit("C", index=1)], "skip-shifts-position-ok")
    add_enum([unit("A", skip=True, index=0), unit("B")], "skipped-variant-index-ignored-ok")
    add_enum([unit("A", index=7, disc=1), unit("B", disc=7)], "attr-beats-discriminant-collision")
    add_enum([unit("A", index=7, disc=1), unit("B", disc=8)], "attr-beats-discriminant-ok")
    add_enum([unit("A", skip=True), unit("B", skip=True)], "all-skipped-ok")
    add_enum([], "empty-enum-ok")
    # variant-count boundary
    add_enum([unit("V%d" % i) for i in range(256)], "256-variants-ok")
    add_enum([unit("V%d" % i) for i in range(257)], "257-variants")
    add_enum([unit("V%d" % i, skip=(i == 100)) for i in range(257)], "257-variants-one-skipped-ok")
    add_enum([unit("V%d" % i) for i in range(300)], "300-variants")
    add_enum([unit("V%d" % i, index=(i if i < 256 else None)) for i in range(256)], "256-attr-indices-ok")
    # seeded enums
    n_rand = 400 if thorough else 60
    for _ in range(n_rand):
        n = r.choice([1, 2, 2, 3, 3, 4, 5, 6])
        add_enum(gen_enum(r, n, pool, with_fields=r.random() < 0.3), "random")
    # structs: attribute exclusivity
    for i in range(40 if thorough else 12):
        shape = r.choice(["tuple", "named"])
        fields = [gen_field(r) for _ in range(r.randint(1, 3))]
        bad = r.random() < 0.5
        if bad:
            fields[r.randrange(len(fields))] = gen_field(r, allow_conflict=True)
        name = "S%d" % len(defs)
        defs.append(dict(name=name, rust=render_struct(name, shape, fields, "Encode, Decode"), coq=coq_struct(fields), kind="derive",
                         expected=not bad, phase=("macro" if bad else None), tag="struct-attrs"))
    # enum variant fields with conflicting attributes
    for bad in (True, False):
        vs = [unit("A"), {"name": "B", "skip": False, "index": None, "disc": None, "shape": "tuple", "fields": [gen_field(r, allow_conflict=bad)]}]
        if not bad:
            vs[1]["fields"] = [{"ty": INT_FIELDS[2], "attr": "compact", "conflict": None}]
        add_enum(vs, "variant-field-attrs")
    # a conflicting field inside a skipped variant is never looked at
    vs = [unit("A"), {"name": "B", "skip": True, "index": None, "disc": None, "shape": "tuple", "fields": [gen_field(r, allow_conflict=True)]}]
    add_enum(vs, "conflict-in-skipped-variant-ok")
    # union
    name = "U%d" % len(defs)
    defs.append(dict(name=name, rust=["#[derive(Encode, Decode)]", "pub union %s { pub a: u32 }" % name], coq="DUnion", kind="derive", expected=False, phase="macro", tag="union"))
    # CompactAs shapes
    ca = [("tuple", [("u32", False)], True), ("named", [("u64", False)], True), ("tuple", [("u32", False), ("u8", True)], True),
          ("named", [("u8", True), ("u16", False)], True), ("tuple", [("u32", False), ("u32", False)], False), ("unit", [], False),
          ("tuple", [("u32", True)], False), ("named", [("u8", False), ("u16", False), ("u32", True)], False)]
    for shape, fl, ok in ca:
        fields = [{"ty": next(f for f in FIELD_TYPES if f[0] == t), "attr": "skip" if sk else "plain", "conflict": None} for t, sk in fl]
        name = "C%d" % len(defs)
        defs.append(dict(name=name, rust=render_struct(name, shape, fields, "Encode, Decode, CompactAs"), coq=coq_struct(fields), kind="compactas",
                         expected=ok, phase=(None if ok else "macro"), tag="compactas"))
    name = "C%d" % len(defs)
    defs.append(dict(name=name, rust=["#[derive(Encode, Decode, CompactAs)]", "pub enum %s { A }" % name], coq="(DEnum [mkV false IPos []])", kind="compactas",
                     expected=False, phase="macro", tag="compactas-enum"))
    return defs
