"""C17: generated derive programs compiled against /repo; rustc's verdict per definition is
compared with Derive.derive_accepts inside Coq."""
import json, os, re, shutil
import derive_gen as G

CARGO_TOML = """[package]
name = "gen17"
version = "0.1.0"
edition = "2021"

[workspace]

[dependencies]
parity-scale-codec = { path = "%s", default-features = false, features = ["derive"] }
"""


def write_crate(d, repo, lock, defs):
    os.makedirs(os.path.join(d, "src"), exist_ok=True)
    open(os.path.join(d, "Cargo.toml"), "w").write(CARGO_TOML % repo)
    os.makedirs(os.path.join(d, ".cargo"), exist_ok=True)
    open(os.path.join(d, ".cargo", "config.toml"), "w").write("[net]\noffline = true\n")
    if os.path.exists(lock):
        shutil.copy(lock, os.path.join(d, "Cargo.lock"))
    lines = ["#![allow(dead_code, unused_imports, non_camel_case_types)]", "use parity_scale_codec::{CompactAs, Decode, Encode};", ""]
    ranges = {}
    for df in defs:
        start = len(lines) + 1
        lines += df["rust"]
        ranges[df["name"]] = (start, len(lines))
        lines.append("")
    open(os.path.join(d, "src", "lib.rs"), "w").write("\n".join(lines) + "\n")
    return ranges


def check_crate(g, d, target):
    env = dict(g["ENV"], CARGO_TARGET_DIR=target)
    with g["Lock"]("cargo17"):
        rc, out = g["sh"](["cargo", "check", "--offline", "--message-format=json"], timeout=3000, cwd=d, env=env)
    errs = []
    for line in out.split("\n"):
        if not line.startswith("{"):
            continue
        try:
            m = json.loads(line)
        except Exception:
            continue
        if m.get("reason") != "compiler-message":
            continue
        msg = m["message"]
        if msg.get("level") != "error":
            continue
        lines_ = set()
        def walk(sp):
            if sp.get("file_name", "").endswith("lib.rs"):
                lines_.add(sp["line_start"])
            e = sp.get("expansion")
            if e and e.get("span"):
                walk(e["span"])
        for sp in msg.get("spans", []):
            walk(sp)
        for ch in msg.get("children", []):
            for sp in ch.get("spans", []):
                walk(sp)
        errs.append((sorted(lines_), msg.get("message", "")[:300]))
    return rc, errs, out


def run(g, cfg, pid, tier, seed, work, problems):
    ROOT, CACHE, REPO = g["ROOT"], g["CACHE"], g["REPO"]
    defs = G.c17_definitions(seed, tier == "thorough")
    groups = {"ok": [d for d in defs if d["expected"]], "macro": [d for d in defs if d["phase"] == "macro"], "const": [d for d in defs if d["phase"] == "const"]}
    target = os.path.join(CACHE, "target-gen17")
    lock = os.path.join(ROOT, "harness", "Cargo.lock")
    verdict, messages = {}, {}
    unattributed = []
    for gname, gdefs in groups.items():
        d = os.path.join(CACHE, "gen17", gname)
        shutil.rmtree(d, ignore_errors=True)
        ranges = write_crate(d, REPO, lock, gdefs)
        rc, errs, out = check_crate(g, d, target)
        hit = {}
        for lines_, text in errs:
            owner = None
            for name, (a, b) in ranges.items():
                if any(a <= l <= b for l in lines_):
                    owner = name
                    break
            if owner:
                hit.setdefault(owner, []).append(text)
            elif "aborting due to" not in text and "could not compile" not in text:
                unattributed.append((gname, text))
        if rc != 0 and not errs:
            problems.append(("build", "cargo check of generated crate '%s' failed without diagnostics: %s" % (gname, out[-800:])))
        for df in gdefs:
            verdict[df["name"]] = df["name"] not in hit
            messages[df["name"]] = hit.get(df["name"], [])
        # a definition expected to be rejected that drew no error, in a crate where other errors of an
        # earlier phase may have stopped the compiler: confirm it alone
        for df in gdefs:
            if not df["expected"] and verdict[df["name"]]:
                d1 = os.path.join(CACHE, "gen17", "single")
                shutil.rmtree(d1, ignore_errors=True)
                write_crate(d1, REPO, lock, [df])
                rc1, errs1, _ = check_crate(g, d1, target)
                verdict[df["name"]] = (rc1 == 0)
                messages[df["name"]] = [t for _, t in errs1]
            if df["expected"] and not verdict[df["name"]]:
                d1 = os.path.join(CACHE, "gen17", "single")
                shutil.rmtree(d1, ignore_errors=True)
                write_crate(d1, REPO, lock, [df])
                rc1, errs1, _ = check_crate(g, d1, target)
                verdict[df["name"]] = (rc1 == 0)
    # oracle (implementation side, independent of the Coq model): python's reading of the statement
    with open(os.path.join(work, "oracle.tsv"), "w") as f:
        for df in defs:
            got = verdict[df["name"]]
            if got != df["expected"]:
                cls = "invalid-definition-accepted" if got else "valid-definition-rejected"
                f.write("%s\t%s [%s] %s | diagnostics: %s\n" % (cls, df["name"], df["tag"], " ".join(df["rust"])[:600], " / ".join(messages[df["name"]])[:300]))
            elif not got and df["phase"] == "const" and messages[df["name"]]:
                # the diagnostic names the fault
                txt = " ".join(messages[df["name"]])
                if not re.search(r"invalid index|duplicate index|evaluation", txt):
                    f.write("rejected-without-naming-the-fault\t%s %s\n" % (df["name"], txt[:300]))
    # cases for the model
    terms = []
    for df in defs:
        ctor = "KDef" if df["kind"] == "derive" else "KCompactAs"
        terms.append(("(%s %s %s)" % (ctor, df["coq"], "true" if verdict[df["name"]] else "false"), "%s\t%s\t%s" % (df["name"], df["tag"], " ".join(df["rust"])[:400].replace("\t", " "))))
    nsh = 4
    with open(os.path.join(work, "c17_index.tsv"), "w") as idx:
        for s in range(nsh):
            part = terms[s::nsh]
            with open(os.path.join(work, "c17_%02d.v" % s), "w") as f:
                f.write("Require Import Scale.Bytes Scale.Hex Scale.Codec Scale.Derive Scale.CorrC17.\nOpen Scope Z_scope.\nOpen Scope N_scope.\n")
                f.write("Definition cases : list c17case := [\n" + ";\n".join("  " + t for t, _ in part) + "\n].\n")
                f.write("Eval vm_compute in (failures c17_check cases).\n")
            for i, (_, rp) in enumerate(part):
                idx.write("c17_%02d\t%d\t%s\n" % (s, i, rp))
    n_acc = sum(1 for v in verdict.values() if v)
    stats = dict(evaluations=len(defs), distinct_nontrivial=len(defs), duplicates_dropped=0, oracle_checks=len(defs),
                 rule="generated programs deriving Encode and Decode together (and CompactAs for the shape cases), compiled against /repo in three crates by expected compiler phase (accepted / macro-expansion errors / const-evaluation errors), each unexpected verdict re-checked alone: hand-picked index boundary programs (255/256/300 through attribute and discriminant, attribute vs position, discriminant vs attribute, skip shifting positions, attribute beating discriminant, 256/257/300 variants) each next to a minimally different valid twin; seeded enums over {index attribute, discriminant, position, skip} with indices from {0..5, 254..257, 300}; structs and variant fields over the attribute combinations; union; CompactAs shapes. Every program is a distinct non-trivial case",
                 distribution={"programs": len(defs), "accepted_by_rustc": n_acc, "rejected_by_rustc": len(defs) - n_acc,
                               "expected_macro_phase": len(groups["macro"]), "expected_const_phase": len(groups["const"]), "unattributed_errors": len(unattributed)},
                 samples=["%s [%s]: %s => %s" % (d["name"], d["tag"], " ".join(d["rust"])[:160], "accepted" if verdict[d["name"]] else "rejected: " + (messages[d["name"]] or ["?"])[0][:120]) for d in defs[:8]])
    json.dump(stats, open(os.path.join(work, "stats.json"), "w"))
    return stats
