#!/usr/bin/env python3
"""Regenerates MANIFEST.json from the table below (one entry per claimed property)."""
import json, os
ROOT = os.path.dirname(os.path.dirname(os.path.abspath(__file__)))
ALL = ["C%02d" % i for i in range(1, 21)]

TECH = "machine-checked proof in Coq (kernel-checked theorems over a Gallina model of the code) + model/implementation correspondence evaluated inside Coq by vm_compute on cases produced by running the real crate"
NOTE = "Trusted: Coq 8.16.1 kernel, no axioms (Print Assumptions checked per theorem on every run); the hand-written model, validated against /repo's working tree on every run by the correspondence check (sampled); harness, rustc. "

CLAIMS = {
 "C04": ("§4 C04", "Theorems over a model that transcribes src/compact.rs arm by arm: the encoder equals the shortest-form specification for every value of every width, compact_len equals the produced length, the decoder accepts a byte string iff it starts with the canonical form of a value that fits (all byte strings, all widths, known or unknown input length), same bytes under every width, never panics. Tied to the working tree by ~18k implementation-produced cases per quick run (exhaustive for short strings).",
         "Integer primitives (leading_zeros, shifts, casts) are modelled as N arithmetic mod 2^w."),
 "C01": ("§4 C01", "Theorem enc_impl = enc_spec for every well-formed value of every type of the universe (the traversal with the per-width compact code of compact.rs computes the declarative SCALE format with shortest-form compact integers), the spec is decodable hence injective, a deque's two slices encode like the sequence. The structure of the format itself is tied to the code by the correspondence: every differing case is an input on which the implementation departs from the specification.",
         "The non-compact part of the specification (LE integers, tag bytes, count ++ concatenation, index byte, bit words) is one definition shared by the implementation model and the specification; that it is what the crate does is established by the correspondence (sampled), that it is the SCALE format by reading Codec.v. Encode panics for >= 2^32 elements are modelled (EPanic) but not exercised."),
 "C02": ("§4 C02", "Theorem roundtrip: for every type of the universe without bit sequences, every well-formed value, every suffix and both kinds of input, dec (enc v ++ rest) = (canon v, rest); through the real chunk structure (16 KiB chunks = one read, chunked element loop = repetition, proved for every count and chunk size), sets/maps canonical, heaps as sorted multisets. Implementation-side oracle: decode(encode(v) ++ suffix) on every registry value.",
         "partial: bit sequences are outside the theorem (correspondence + oracle only). RangeInclusive.exhausted is a known finding (F5)."),
 "C03": ("§4 C03", "Theorem dec_total: for every well-formed type descriptor and every byte string the decoder returns a value or an error, never panics (the bit-sequence assert and the unreachable!() arms are unreachable) and always terminates (structural recursion); one rejection theorem per malformed class of the statement (bool/Option/Result/OptionBool tags, unknown variant index, zero for NonZero, nanos >= 10^9, invalid UTF-8, non-canonical / over-wide compact, bit count >= 2^29, count exceeding the input); consumed bytes are a prefix. The accept/reject decision and value of the implementation are compared with the model on mutated, random and exhaustive short strings.",
         "partial: out-of-bounds access inside unsafe blocks and native stack exhaustion on recursive user types (known finding F7) are runtime behaviours the Gallina model cannot exhibit."),
 "C07": ("§4 C07", "Theorems: bulk decoding of primitive vectors (chunked) and arrays (one read) = element-wise decoding, for every width, count and input; chunked element loop = repetition; two slices = one sequence; the entry points are views of one byte string in the model. The six entry points of the implementation (encode, encode_to Vec / io::Write with 1- and 3-byte short writes / dyn Output, using_encoded, encoded_size) are compared on every registry value by the oracle.",
         "partial: the override table of the four Encode methods per impl is not modelled (entry points are checked on the implementation by the oracle, and the encode bytes against the model)."),
 "C08": ("§4 C08", "Theorems: the outcome does not depend on whether the input reports its remaining length (every type, every byte string); any stack of wrappers whose limits are not reached is invisible (for every decoder program); locality. Oracle: slice, IoReader over Cursor and over 1/3/4097-byte short-read readers, unknown-length Input, decode_from_bytes and ten wrapper stacks must agree pairwise on every input.",
         "partial: short-read readers and BytesCursor are identified with (content, known?) by assumption; the zero-copy Bytes path is covered by the oracle only."),
 "C09": ("§4 C09", "Theorem (induction over the type universe, compositional over decoder programs): for every well-formed type whose containers store elements occupying at least one input byte, every byte string - including counts claiming 2^32-1 elements - with known or unknown remaining length, the heap reservations the decode makes (reserve_exact of each vector chunk, Box layouts, list/tree nodes) total at most rate(t) * (input length) + allowance(t), both functions of the type only; each chunk reservation is within the 16 KiB window; with a known length the bulk path reserves nothing unless the bytes are there. The hypothesis is necessary: C09_zero_wire_refuted exhibits the known finding F4. Tie: on every case the measured peak of live heap bytes of the real decode (counting global allocator; slice, unknown-length and shared-buffer inputs; hostile family = maximal counts in front of 0 / about one chunk / more than one chunk of valid payload) must be within twice the model's reservations for that input, the announced sizes must equal the model's exactly, and an implementation-side bound rate*len+allowance is checked.",
         "partial: allocator behaviour is runtime - the theorem is about requested sizes in the model, tied to measured peaks by the correspondence (factor 2 + 4 KiB slack: both buffers live during realloc; std's B-tree nodes are charged one node per element in the model). Known finding F4 (zero-wire element types) is reported as KNOWN-FINDING and re-confirmed on every run with capped counts."),
 "C10": ("§4 C10", "Theorem over a resource-ledger model of the decoders' ownership protocol (in-place array decoding with its drop guard, growing vectors dropped on the error path, Box allocate / decode in place / free on failure, fields already built dropped when a later field fails), for EVERY shape - any N, any nesting depth - and EVERY failure position (error or panic), by induction with a per-decode invariant: every element is constructed at most once and dropped exactly as often as constructed, every heap block allocated at most once and freed exactly as often; successful values own exactly what was built and release it when dropped. Oracle on the implementation: scripted element types (4-byte and zero-sized, with destructors logging into a ledger) through ~45 container shapes x every failure position x {input exhausted, malformed element, limit error from on_before_alloc_mem, panic}: each constructed element dropped exactly once, live heap bytes back to baseline; counts compared with the model. The transparent multi-field in-place path is refuted in the model and reported as known finding F6.",
         "partial: use-after-free / reads of uninitialised memory inside the unsafe blocks that leave the ledger balanced are runtime behaviours the model cannot exhibit (Miri would be supporting evidence; not run by the check). The ledger model is tied to the code by the observed construct/drop counts, not by a translation of the unsafe code."),
 "C11": ("§4 C11", "Theorems for every decoder program (hence every type), input and limit: the depth-limited decode returns the unlimited result iff the descend/ascend nesting of its trace is at most L and an error otherwise (exact), transparent, error-preserving, monotone in L. The model's traces are tied to the crate by running decode_with_depth_limit for every L in 0..=depth+2 on the registry types.",
         "partial: that the trace nesting equals the container nesting depth of the decoded value is checked on the implementation (oracle against an independent depth function) rather than proved; native stack usage is a runtime behaviour the model cannot exhibit (the theorem bounds the recursion nesting by L)."),
 "C12": ("§4 C12", "Theorems for every decoder program, input and limit: with U the saturating sum of announced sizes, L > U is transparent and (if anything was announced, in particular if U > 0) L <= U fails; used_mem() with an unlimited budget is U; the B-tree estimate covers at least half of the entries. The announced sizes of the model are tied to the crate by running MemTrackingInput for every L in 0..=U+1 (U<=24; boundary limits otherwise).",
         "partial: U >= heap payload of the decoded value is checked on the implementation (oracle with real size_of) rather than proved."),
 "C14": ("§4 C14", "Theorems: locality of every decoder program; every strict prefix of an encoding fails; a concatenation of encodings decodes value by value in order; decode_all succeeds exactly when decode succeeds with nothing left. Oracle: every cut point (all for encodings <= 40 bytes), decode_all and decode_all_with_depth_limit on every input.",
         "Bit sequences are outside strict_prefix_fails (it rests on the round-trip theorem)."),
 "C06": ("§4 C06", "In the model a value is its logical content; the theorems cover the ways a container can present that content to the encoder: a deque's two slices for every split (every ring-buffer state), container kind and element size irrelevant, strictly sorted sets/maps are their own canonical form, holders transparent, the encoder is a function (determinism), bit words depend on the bits only. Oracle on the real containers: seeded histories (VecDeque push/pop/rotate/make_contiguous/reserve/shrink checked after every operation incl. wrapped-by-one states; Vec/String capacity; Box/Rc/Arc/Cow/&& transitions; BTreeMap/BTreeSet insert/remove orders rebuilt reversed and shuffled; LinkedList append/split_off; bit sequences at every offset 0..W+2 of a larger store for six store/order combinations) must encode like a freshly built equal value, repeatably, and like the model's encoding of the content.",
         "partial: that std's BTreeMap/BTreeSet iterate in key order whatever the insertion history, that VecDeque::as_slices concatenates to the iteration order and that bitvec sub-slicing yields the logical bits are properties of std/bitvec (trusted, exercised by the oracle); spare capacity is invisible in the model by construction."),
 "C20": ("§4 C20", "The codec model takes no configuration parameter; the cfg-gated code on the data path is modelled separately and proved configuration-independent: Output through io::Write::write_all over any short-write sink appends exactly the bytes (= Vec::extend_from_slice), and the verdict of a decode does not depend on whether errors carry descriptions. The deciding part is the differential: the same deterministic corpus (every registry type: values, their encodings, three mutations each; encode bytes, decode outcome, consumed length, re-encoding, decode_all verdict) is built and run under five feature configurations (std+chain-error, no_std, no_std+chain-error, each with the optional integrations, plus two with bit-vec/bytes/generic-array off), digests compared line by line, and the no_std run is checked against the model.",
         "partial: a theorem cannot see a cfg gate the model does not know about - only the cross-configuration differential can exhibit one. max-encoded-len and derive stay enabled in all configurations (the shared registry code needs them)."),
 "C13": ("§4 C13", "Theorems by induction on the type descriptor: if mel t = Some m (the formulas of max_encoded_len.rs and of the derive, with saturating arithmetic; compact / encoded_as fields contribute the bound of the type they are encoded as, skipped fields and variants nothing, enums 1 + max) and m did not saturate, no well-formed value encodes to more than m bytes; ConstEncodedLen types encode to exactly m bytes; encoded_fixed_size() = Some s means every value has s bytes; the Compact bound table is sufficient for every width. Tie: on every run the constants the implementation reports (max_encoded_len(), encoded_fixed_size(), CEL markers) for ~125 registry types are compared with the model's formulas inside Coq, and the oracle tries 300 values per type with integers forced to their maxima. The check found defect F2 on the original tree (repaired by a fix: commit).",
         "The tie is by observation of reported constants for the registry types (including derived types with compact / encoded_as / skip / generics), not for every possible user type."),
 "C16": ("§4 C16", "One theorem per impl family: holders, sequences of any container kind and element size, String/bytes, Option/Result/array/tuple lifting, one-tuples, and 'what A produces decodes as B to the corresponding value' (from the round-trip theorem). Tie: every `impl .. EncodeLike<..> for ..` header found in /repo/src is matched against the committed inventory (an unknown header = a declared pair the property is not shown for); ~75 families x 10 element types are used through the trait bound on the implementation (bytes equal, decodes as target), and the bytes are compared with the model's encoding of the target value.",
         "References, Cow and Ref are the type itself in the descriptor (transparent by construction); their equality with the value's encoding is checked on the implementation."),
 "C18": ("§4 C18", "Theorems: for every well-formed type and every byte string skip succeeds exactly when decode does and leaves the same remaining input (arrays with a fixed element size skip element by element while the array decoder reads in bulk - proved equivalent); reading only the count of an encoded collection (also through a tuple led by one) returns its true length. Oracle: skip vs decode on every mutated input; DecodeLength::len on collections of lengths in every compact class.",
         ""),
 "C15": ("§4 C15", "Theorems over a branch-by-branch model of append_or_new_impl with abstract items (n items whose encodings concatenate to p, so any item type, alias form, zero-sized items): appending to the encoding of c items yields the canonical count c+n, the old items, the new items, across every prefix-width change (in-place rewrite and reallocation branches proved equal); append to empty; overflow of the combined count is an error, never a wrong count; input without a valid count is rejected; never panics; every history of appends equals the encoding of the concatenation (induction over histories). Correspondence: seeded histories on u8/u32/String/Vec<u8>/()/derived items over Vec and VecDeque, counts within 3 of every prefix boundary and around 2^32 with zero-sized items, garbage prefixes. The check found the truncation defect F3 on the original tree (repaired by a fix: commit).",
         "ExactSizeIterator::len is taken as the item count."),
 "C19": ("§4 C19", "Theorem for every decoder program and input, success or failure: count = min(u64::MAX, bytes delivered by the wrapped input); equals the encoded length after decoding an encoding; the step function saturates. Oracle: count() vs the wrapped input's position after every decode.",
         ""),
}

NA = {
}

def main():
    checks = []
    for pid in ALL:
        if pid not in CLAIMS:
            continue
        ref, text, note = CLAIMS[pid]
        checks.append({
            "property_id": pid,
            "quick_cmd": "./check %s --tier quick" % pid,
            "thorough_cmd": "./check %s --tier thorough" % pid,
            "evidence_file": "evidence/%s.json" % pid,
            "replay_cmd_template": "./check %s --replay {path}" % pid,
            "engine": "coq-model",
            "technique": TECH,
            "level_claimed": {"category": "proof", "text": text, "design_ref": "DESIGN.md " + ref},
            "level_note": NOTE + note,
        })
    na = [{"property_id": p, "reason": NA.get(p, "not yet claimed: the model, theorems and correspondence for this property are still being built (see DESIGN.md); no check is registered")}
          for p in ALL if p not in CLAIMS]
    m = {
        "version": 1,
        "setup_cmd": "./check setup",
        "hooks": {
            "guard": "paritytech_parity_scale_codec_verif",
            "enable": "none needed: the harness uses only the public API of the crate (path dependency on /repo); no source hooks",
            "baseline_off_cmd": "cd /repo && cargo test --workspace --no-fail-fast --offline",
            "source_commits": [],
            "add_only": True,
        },
        "engines": [
            {"name": "coq-model", "path": "coq/", "serves_properties": sorted(CLAIMS), "kind_free_text": "Gallina model of the codec + theorems (Coq 8.16.1); coq/theories/props/Cxx.v hold the pinned statements"},
            {"name": "harness", "path": "harness/", "serves_properties": sorted(CLAIMS), "kind_free_text": "Rust crate running the real implementation from /repo's working tree; emits correspondence cases as Coq terms and runs the property oracles on the implementation"},
        ],
        "checks": checks,
        "not_applicable": na,
        "notes": "see DESIGN.md; ./check <ID> --tier quick|thorough; replays under replays/",
    }
    json.dump(m, open(os.path.join(ROOT, "MANIFEST.json"), "w"), indent=1)
    print("MANIFEST.json: %d checks, %d not claimed" % (len(checks), len(na)))

if __name__ == "__main__":
    main()
