"""Per-property configuration of the check driver."""

COMMON_TRUSTED = [
    "Coq 8.16.1 kernel (coqc; coqchk in the thorough tier); vm_compute is used to evaluate the model on the correspondence cases and in Example non-vacuity checks; no native_compute",
    "axioms: none (every pinned theorem prints 'Closed under the global context'; audit grep for Admitted/admit/Axiom/Parameter/Conjecture/Variable/Hypothesis/guard-checking switches on every run)",
    "hand-written Gallina model of the code (coq/theories), tied to /repo by the correspondence check: harness/ runs the real implementation, writes each case with the implementation's result as a Coq term, coqc evaluates the model on the same case and compares",
    "the harness crate, its generators and canonicalisation; rustc/cargo; target x86_64 little-endian, 64-bit usize",
    "no extraction is used (model evaluated inside Coq)",
]

PROPS = {
    "C04": dict(
        harness="c04", model_fn="c04_model", corr_is_property=True,
        corr_name="CorrC04.c04_check: enc_compact/len_compact/dec_compact vs Compact<uN>::encode/compact_len/decode",
        trusted_base=[
            "modelled, not verified: the integer primitives the code calls (leading_zeros, shifts, casts `as uN`, to_le_bytes/from_le_bytes) as N arithmetic mod 2^w; PrefixInput as one read of the remaining bytes; ArrayVecWrapper (capacity asserts not modelled, exercised by the correspondence)",
        ],
        assumptions=["the model CompactImpl.v transcribes src/compact.rs arm by arm; agreement is sampled (exhaustive for short strings / u8 / u16 in thorough), the theorems about the model are unbounded"],
    ),
}
