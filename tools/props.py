"""Per-property configuration of the check driver."""

COMMON_TRUSTED = [
    "Coq 8.16.1 kernel (coqc; coqchk in the thorough tier); vm_compute is used to evaluate the model on the correspondence cases and in Example non-vacuity checks; no native_compute",
    "axioms: none (every pinned theorem prints 'Closed under the global context'; audit grep for Admitted/admit/Axiom/Parameter/Conjecture/Variable/Hypothesis/guard-checking switches on every run)",
    "hand-written Gallina model of the code (coq/theories), tied to /repo by the correspondence check: harness/ runs the real implementation, writes each case with the implementation's result as a Coq term, coqc evaluates the model on the same case and compares",
    "the harness crate, its generators and canonicalisation; rustc/cargo; target x86_64 little-endian, 64-bit usize",
    "no extraction is used (model evaluated inside Coq)",
]

PROPS = {
    "C04": dict(
        harness="c04", model_fn="c04_model", corr_is_property=True,
        corr_name="CorrC04.c04_check: enc_compact/len_compact/dec_compact vs Compact<uN>::encode/compact_len/decode",
        trusted_base=[
            "modelled, not verified: the integer primitives the code calls (leading_zeros, shifts, casts `as uN`, to_le_bytes/from_le_bytes) as N arithmetic mod 2^w; PrefixInput as one read of the remaining bytes; ArrayVecWrapper (capacity asserts not modelled, exercised by the correspondence)",
        ],
        assumptions=["the model CompactImpl.v transcribes src/compact.rs arm by arm; agreement is sampled (exhaustive for short strings / u8 / u16 in thorough), the theorems about the model are unbounded"],
    ),
}

GEN_TRUSTED = [
    "modelled, not verified: rustc's type checking (ill-typed values are EIll in the model), std collections (VecDeque::as_slices concatenates to iteration order; BTreeMap/BTreeSet::from_iter sorts by Ord and keeps the last of equal keys; BinaryHeap from a Vec keeps the multiset), String::from_utf8 (Utf8.v), to_le_bytes/from_le_bytes, bitvec chunks/view_bits/truncate, bytes::Bytes; size_of values are supplied by rustc through the harness descriptor and universally quantified in the theorems",
    "inputs are modelled by their content and by whether remaining_len() is Some: &[u8] and BytesCursor = (bytes, known), IoReader over any reader (read_exact loops over short reads) and unknown-length inputs = (bytes, unknown); this identification is exercised by the correspondence (slice, IoReader with 1/3/4097-byte short reads, unknown-length Input, decode_from_bytes), not proved",
    "descriptor conventions (Codec.v header): tuples/structs as right-nested pairs, Box/Rc/Arc as TBox, references transparent; signed integers and floats as raw little-endian bits; BTree keys restricted to types whose Ord is the structural order of val (unsigned integers, bool, Option, tuples, sequences, strings)",
]

def _gen(name, corr_is_property, extra_assumptions=()):
    return dict(harness=name, model_fn="g_model", corr_is_property=corr_is_property,
                corr_name="CorrGen.g_check: enc_impl / dec / run (stackmon) / allocation trace of the model vs Encode::encode, Decode::decode over &[u8]/unknown-length inputs, CountedInput/MemTrackingInput/depth-limit stacks and a recording Input, on the registry types",
                trusted_base=GEN_TRUSTED, harness_timeout=2400,
                assumptions=["the model Codec.v transcribes src/codec.rs, src/compact.rs, src/bit_vec.rs and the derive expansion; agreement with the working tree is sampled on every run (registry of ~190 concrete types, seeded boundary-biased values and mutated byte strings); the theorems about the model are unbounded"] + list(extra_assumptions))

PROPS.update({
    "C05": dict(_gen("c05", True, ["the derive macros' token generation is not modelled: the model is of the semantics of the emitted code (layout of the descriptor), tied by compiling and running generated programs"]),
                custom=__import__("c05").run, harness_timeout=3000),
    "C17": dict(harness="c17", model_fn="c17_model", corr_is_property=True, custom=__import__("c17").run, harness_timeout=3000,
        corr_name="CorrC17.c17_check: rustc + derive macros accept/reject of generated definitions vs Derive.derive_accepts / compact_as_accepts",
        trusted_base=["rustc's own checks (duplicate Rust discriminants etc.) are kept out of the way by the generator, so a rejection is the macro's; the attribution of a compiler error to a definition uses the diagnostic's line spans; unexpected verdicts are re-checked by compiling the definition alone"],
        assumptions=["that rustc compiles every definition the model accepts is observed on the generated programs (valid twins), not proved; field types in the generated programs support the derived traits"]),
    "C10": dict(harness="c10", model_fn=None, corr_is_property=False, harness_timeout=1200,
        corr_name="Ledger.ledger_check: number of elements constructed / dropped by the real decode vs the ledger model, per (slots, failure position, kind)",
        trusted_base=["the ledger model abstracts Rust's ownership: a value is dropped when its owner goes out of scope on the error path or during unwinding; Vec, Box, LinkedList, BTreeMap drop their contents when dropped (std, trusted); MaybeUninit never drops its content"],
        assumptions=["memory safety inside the unsafe blocks (use after free, reads of uninitialised memory) is a runtime behaviour the Gallina model cannot exhibit; the counting allocator checks that live heap bytes return to the baseline (a double free of the system allocator would abort the harness)"]),
    "C13": dict(harness="c13", model_fn="c13_model", corr_is_property=False, harness_timeout=1200,
        corr_name="CorrC13.c13_check: Mel.mel / cel / CodecMore.fixed_size vs MaxEncodedLen::max_encoded_len(), ConstEncodedLen, Decode::encoded_fixed_size() of every registry type",
        trusted_base=["the reported constants are observed from the implementation on every run (tables by observation), the theorems are about the formulas; a type whose reported constant differs from the model's formula is no longer covered by the soundness theorem"] ,
        assumptions=["the formulas in Mel.v transcribe src/max_encoded_len.rs, src/const_encoded_len.rs and the derive; the derive formula is the repaired one (fields in their selected representation)"]),
    "C15": dict(harness="c15", model_fn="c15_model", corr_is_property=True, harness_timeout=1200,
        corr_name="CorrC15.c15_check: Append.append vs <Vec<T>/VecDeque<T> as EncodeAppend>::append_or_new",
        trusted_base=["modelled, not verified: ExactSizeIterator::len of the item iterator is the item count n (a usize); the items' encodings concatenate to p (each item is encoded by its own Encode impl - C01); Vec::copy_from_slice panics on a length mismatch (modelled as APanic, proved unreachable)"],
        assumptions=["the model Append.v transcribes append_or_new_impl branch by branch (in-place prefix rewrite / reallocation); agreement is sampled on every run, the theorems are unbounded"]),
    "C01": _gen("c01", True),
    "C02": _gen("c02", False, ["RangeInclusive's exhausted flag is not part of the model value: the implementation-side oracle exhibits it on every run (known finding F5)"]),
    "C03": _gen("c03", True, ["recursive user types are modelled by Rec.rdec with a recursion budget (NoFuel = native stack exhaustion); plain decode exhausting the stack is exhibited on every run in a child process (known finding F7)"]),
    "C07": _gen("c07", False),
    "C08": _gen("c08", False),
    "C11": _gen("c11", False, ["native stack usage is modelled as a recursion budget of frames (Rec.rdec); the size of a frame is a runtime quantity: the harness runs 10^5..10^6-deep input on a 256 KiB stack in a child process"]),
    "C12": _gen("c12", False),
    "C14": _gen("c14", False),
    "C19": _gen("c19", False),
    "C18": _gen("c18", False),
    "C09": _gen("c09", False, ["heap use is measured with a counting global allocator (peak of live bytes during one decode); the model counts reservations (HReal); for B-trees the model charges one node per element (an upper envelope of std's node-by-node growth)"]),
    "C20": dict(_gen("c20", False), custom=__import__("c20").run, harness_timeout=3000),
    "C06": _gen("c06", False),
    "C16": dict(_gen("c16", False), pre=__import__("c16_inventory").hook),
})
