"""C05: generated type definitions over the derive attribute grammar, compiled against /repo
together with the generic engine of the harness; their encodings / decodings are compared
with the model's encoding of the descriptor the generator derives from the definition
(fields in declaration order, each in its selected representation, skipped fields absent,
variant index byte = effective index).  Skipped variants are probed in child processes."""
import json, os, random, shutil, subprocess
import derive_gen as G

MINW = {"u8": 1, "u16": 2, "u32": 4, "u64": 8, "u128": 16, "bool": 1, "Vec<u8>": 1, "Option<u16>": 1, "String": 1, "(u8, u16)": 3,
        "[u8; 3]": 3, "Vec<u32>": 1, "Box<u16>": 2, "()": 0, "OneTag": 1}

CARGO_TOML = """[package]
name = "gen05"
version = "0.1.0"
edition = "2021"

[workspace]

[dependencies]
parity-scale-codec = { path = "%s", default-features = false, features = ["derive", "bit-vec", "bytes", "generic-array", "max-encoded-len", "std"] }
bitvec = { version = "1", default-features = false, features = ["alloc"] }
bytes = { version = "1", default-features = false }
generic-array = "0.14.7"

[profile.release]
opt-level = 1
overflow-checks = true
debug-assertions = true
codegen-units = 16
incremental = true
"""

MAIN_RS = r'''#![allow(dead_code, unused_imports, non_camel_case_types, unused_variables)]
#[path = "H/alloc.rs"]
mod alloc;
#[path = "H/common.rs"]
mod common;
#[path = "H/gen.rs"]
mod gen;
#[path = "H/inputs.rs"]
mod inputs;
#[path = "H/registry.rs"]
mod registry;
#[path = "H/universe.rs"]
mod universe;
mod types;

#[global_allocator]
static GLOBAL: alloc::Counting = alloc::Counting;

use common::*;
use gen::{run_type, Cx, Mode};
use types::*;

fn main() {
	let args: Vec<String> = std::env::args().collect();
	if args.len() > 2 && args[1] == "probe" {
		// encode one value that sits in a skipped variant; prints the hex of the encoding
		let k: usize = args[2].parse().unwrap();
		println!("PROBE {}", types::probe(k));
		return;
	}
	let a = Args::parse(&args[1..]);
	quiet_panics();
	let mut cx = Cx {
		mode: Mode::C05,
		rng: Rng::new(a.seed ^ 0x05),
		thorough: a.thorough,
		cases: Cases::new("Require Import Scale.Bytes Scale.Hex Scale.Codec Scale.CorrGen.", "gcase", "g_check"),
		oracle: Oracle::new(),
		stats: Stats::new(),
		only: a.only.as_ref().map(|l| l.split('\t').map(|s| s.to_string()).collect()),
		ntypes: 0,
	};
	{
		let cx = &mut cx;
		types::for_gen_types!(run_type, cx);
	}
	cx.stats.add("generated_types", cx.ntypes as u64);
	cx.cases.write(&a.out, "c05", a.shards);
	cx.oracle.write(&a.out);
	cx.stats.write(&a.out, cx.cases.len(), cx.cases.nontrivial, cx.cases.dups, cx.oracle.checks, "see the runner");
}
'''


# a type to be `encoded_as` that is not the compact form: it encodes like the wrapped integer
PLAIN_RS = '''pub struct Plain<T>(pub T);
impl<T: Encode> Encode for Plain<T> {
	fn encode_to<W: parity_scale_codec::Output + ?Sized>(&self, d: &mut W) { self.0.encode_to(d) }
}
impl<T: Decode> Decode for Plain<T> {
	fn decode<I: parity_scale_codec::Input>(i: &mut I) -> Result<Self, parity_scale_codec::Error> { Ok(Plain(T::decode(i)?)) }
}
impl<T: DecodeWithMemTracking> DecodeWithMemTracking for Plain<T> {}
pub struct PlainRef<'a, T>(pub &'a T);
impl<'a, T: Encode> Encode for PlainRef<'a, T> {
	fn encode_to<W: parity_scale_codec::Output + ?Sized>(&self, d: &mut W) { self.0.encode_to(d) }
}
impl<'a, T> From<&'a T> for PlainRef<'a, T> { fn from(x: &'a T) -> Self { PlainRef(x) } }
impl<'a, T: Encode + 'a> parity_scale_codec::EncodeAsRef<'a, T> for Plain<T> { type RefType = PlainRef<'a, T>; }
macro_rules! plain_into { ($($t:ty),*) => {$( impl From<Plain<$t>> for $t { fn from(p: Plain<$t>) -> $t { p.0 } } )*}; }
plain_into!(u8, u16, u32, u64, u128);
/// zero-sized in memory, one byte on the wire
#[derive(Encode, Decode, DecodeWithMemTracking, Debug, PartialEq, Clone, Default)]
pub enum OneTag {
	#[default]
	#[codec(index = 7)]
	Only,
}
impl Uni for OneTag {
	fn desc() -> String { "(TEnum (VsCons 7 TUnit VsNil))".to_string() }
	fn gen(_: &mut Rng, _: u32) -> Self { OneTag::Only }
	fn val(&self) -> String { "(VVar 0 VUnit)".to_string() }
	fn same(&self, o: &Self) -> bool { self == o }
	fn min_wire() -> usize { 1 }
}'''


def rust_default(ty):
    return "Default::default()"


def gen_struct_def(r, name):
    shape = r.choice(["tuple", "named", "named", "unit"])
    fields = [] if shape == "unit" else [G.gen_field(r, plain_wrapper=True) for _ in range(r.randint(1, 4))]
    return dict(kind="struct", name=name, shape=shape, fields=fields, transparent=False)


def gen_enum_def(r, name):
    n = r.choice([1, 2, 3, 4, 5])
    vs = []
    for k in range(n):
        v = {"name": "V%d" % k, "skip": r.random() < 0.2, "index": None, "disc": None, "fields": [], "shape": "unit", "rev": r.choice([0, 1]), "lit": r.choice([0, 0, 1, 2, 3, 4])}
        src = r.choice(["pos", "pos", "attr", "disc"])
        if src == "attr":
            v["index"] = r.choice([0, 1, 2, 3, 7, 9, 100, 200, 255])
        elif src == "disc":
            # explicit discriminants also on variants with fields (the enum then gets a primitive repr)
            v["disc"] = r.choice([4, 5, 6, 8, 11, 40, 41, 42, 250])
        if r.random() < 0.65:
            v["shape"] = r.choice(["tuple", "named"])
            v["fields"] = [G.gen_field(r, plain_wrapper=True) for _ in range(r.randint(1, 3))]
        vs.append(v)
    return dict(kind="enum", name=name, variants=vs)


def c_enum_defs(r, name):
    """unit-only enums with explicit discriminants"""
    n = r.choice([2, 3, 4])
    vs, used = [], set()
    for k in range(n):
        v = {"name": "V%d" % k, "skip": r.random() < 0.15, "index": None, "disc": None, "fields": [], "shape": "unit"}
        c = r.choice(["disc", "disc", "pos", "attr"])
        if c == "disc":
            v["disc"] = r.choice([x for x in [0, 1, 2, 3, 5, 9, 77, 255] if x not in used] or [11])
            if r.random() < 0.35:
                # both: the attribute is the index on the wire, the discriminant is not
                v["index"] = r.choice([30, 31, 32, 33, 34, 35])
        elif c == "attr":
            v["index"] = r.choice([20, 21, 22, 23, 24])
        vs.append(v)
        used = set(G.rust_discriminants(vs))
    return dict(kind="enum", name=name, variants=vs)


def definitions(seed, thorough):
    r = random.Random(seed * 104729 + 5)
    defs = []
    n = 120 if thorough else 36
    tries = 0
    while len(defs) < n and tries < 10 * n:
        tries += 1
        name = "Gen%d" % len(defs)
        k = r.random()
        d = gen_struct_def(r, name) if k < 0.4 else (gen_enum_def(r, name) if k < 0.85 else c_enum_defs(r, name))
        if d["kind"] == "enum":
            if not G.valid_rust_enum(d["variants"]):
                continue
            ok, _ = G.enum_accepts(d["variants"])
            if not ok:
                continue
        defs.append(d)
    # fixed shapes the statement names
    def f(t, attr="plain"):
        return {"ty": next(x for x in G.FIELD_TYPES if x[0] == t), "attr": attr, "conflict": None}
    def unit(nm, skip=False, index=None, disc=None):
        return {"name": nm, "skip": skip, "index": index, "disc": disc, "fields": [], "shape": "unit"}
    fixed = [
        dict(kind="struct", name="FxSingle", shape="tuple", fields=[f("u32")], transparent=False),          # single-field forwarder
        dict(kind="struct", name="FxSingleSk", shape="named", fields=[f("u8", "skip"), f("u64", "compact"), f("u16", "skip")], transparent=False),
        dict(kind="struct", name="FxSingleSk2", shape="named", fields=[f("u32"), f("u64", "skip")], transparent=False),            # forwarder next to a skipped field that occupies memory
        dict(kind="struct", name="FxAllSk", shape="named", fields=[f("u8", "skip"), f("u16", "skip")], transparent=False),
        dict(kind="struct", name="FxTr", shape="tuple", fields=[f("u32")], transparent=True),
        dict(kind="struct", name="FxTrC", shape="tuple", fields=[f("u64", "compact")], transparent=True),
        # a transparent newtype around a type that is zero-sized in memory but not on the wire
        dict(kind="struct", name="FxTrU", shape="tuple", fields=[{"ty": ("OneTag", "(TEnum (VsCons 7 TUnit VsNil))", None), "attr": "plain", "conflict": None}], transparent=True),
        dict(kind="struct", name="FxTagged", shape="named", fields=[f("u16"), {"ty": ("OneTag", "(TEnum (VsCons 7 TUnit VsNil))", None), "attr": "plain", "conflict": None}, f("u8")], transparent=False),
        dict(kind="enum", name="FxAllSkipped", variants=[unit("A", skip=True), unit("B", skip=True)]),
        dict(kind="enum", name="FxOneSkipped", variants=[unit("A", skip=True), unit("B"), unit("C", index=0)] if False else [unit("A", skip=True), unit("B"), unit("C", index=5)]),
        dict(kind="enum", name="FxEmpty", variants=[]),
        # the largest enum the format allows: every one of its 256 variants must decode
        dict(kind="enum", name="Fx256", variants=[unit("V%d" % i) for i in range(256)]),
        # index attribute and explicit discriminant on one variant: the attribute wins
        dict(kind="enum", name="FxAttrDisc", variants=[unit("A", index=9, disc=7), unit("B", disc=3), unit("C")]),
        dict(kind="enum", name="FxAttrDisc2", variants=[unit("A", disc=1), unit("B", index=1, disc=0)] if False else [unit("A", disc=4), unit("B", index=1, disc=0)]),
        dict(kind="enum", name="FxSkipMid", variants=[unit("A"), {"name": "S", "skip": True, "index": None, "disc": None, "shape": "tuple", "fields": [f("u32")]}, {"name": "C", "skip": False, "index": None, "disc": None, "shape": "named", "fields": [f("u16", "compact"), f("Vec<u8>")]}]),
    ]
    return defs + fixed


def ty_coq(d):
    return G.struct_ty_coq(d["fields"]) if d["kind"] == "struct" else G.enum_ty_coq(d["variants"])


def minw(d):
    if d["kind"] == "struct":
        return sum((1 if f["attr"] in ("compact", "encoded_as") else MINW[f["ty"][0]]) for f in d["fields"] if f["attr"] != "skip")  # as_plain: the type's own width
    return 1


def val_expr(f, access):
    if f["attr"] in ("compact", "encoded_as"):
        return 'format!("(VN {})", %s)' % access
    return "(%s).val()" % access


def render(d):
    derives = "Encode, Decode, DecodeWithMemTracking, Debug, PartialEq, Clone"
    L = []
    name = d["name"]
    if d["kind"] == "struct":
        L += G.render_struct(name, d["shape"], d["fields"], derives, d["transparent"])
        fs = d["fields"]
        acc = (lambda i: "self.%d" % i) if d["shape"] == "tuple" else (lambda i: "self.f%d" % i)
        gens = []
        for i, fl in enumerate(fs):
            e = "Default::default()" if fl["attr"] == "skip" else "<%s as Uni>::gen(r, d + 1)" % fl["ty"][0]
            gens.append(e if d["shape"] == "tuple" else "f%d: %s" % (i, e))
        ctor = name if d["shape"] == "unit" else (name + "(" + ", ".join(gens) + ")" if d["shape"] == "tuple" else name + " { " + ", ".join(gens) + " }")
        vals = [val_expr(fl, acc(i)) for i, fl in enumerate(fs) if fl["attr"] != "skip"]
        val = 'nest("VPair", "VUnit", &[%s])' % ", ".join(vals)
    else:
        vs = d["variants"]
        L += G.render_enum(name, vs, derives)
        live = [v for v in vs if not v["skip"]]
        arms_gen, arms_val = [], []
        for k, v in enumerate(live):
            gens = []
            for i, fl in enumerate(v["fields"]):
                e = "Default::default()" if fl["attr"] == "skip" else "<%s as Uni>::gen(r, d + 1)" % fl["ty"][0]
                gens.append(e if v["shape"] == "tuple" else "f%d: %s" % (i, e))
            body = "" if v["shape"] == "unit" else ("(" + ", ".join(gens) + ")" if v["shape"] == "tuple" else " { " + ", ".join(gens) + " }")
            arms_gen.append("%d => %s::%s%s," % (k, name, v["name"], body))
        for v in vs:
            binds = ["x%d" % i for i in range(len(v["fields"]))]
            pat = "" if v["shape"] == "unit" else ("(" + ", ".join(binds) + ")" if v["shape"] == "tuple" else " { " + ", ".join("f%d: x%d" % (i, i) for i in range(len(binds))) + " }")
            if v["skip"]:
                arms_val.append('%s::%s%s => "(VVar 9999 VUnit)".to_string(),' % (name, v["name"], pat.replace("x", "_x")))
            else:
                k = live.index(v)
                vals = [val_expr(fl, "*x%d" % i) if fl["attr"] in ("compact", "encoded_as") else "x%d.val()" % i for i, fl in enumerate(v["fields"]) if fl["attr"] != "skip"]
                unused = [i for i, fl in enumerate(v["fields"]) if fl["attr"] == "skip"]
                p2 = pat
                for i in unused:
                    p2 = p2.replace("x%d" % i, "_x%d" % i)
                arms_val.append('%s::%s%s => format!("(VVar %d {})", nest("VPair", "VUnit", &[%s])),' % (name, v["name"], p2, k, ", ".join(vals)))
        if live:
            ctor = "match r.below(%d) { %s _ => unreachable!() }" % (len(live), " ".join(arms_gen))
        else:
            ctor = "unreachable!()"
        val = "match self { %s }" % " ".join(arms_val) if vs else "unreachable!()"
    L.append("impl Uni for %s {" % name)
    L.append('\tfn desc() -> String { "%s".to_string() }' % ty_coq(d))
    L.append("\tfn gen(r: &mut Rng, d: u32) -> Self { %s }" % ctor)
    L.append("\tfn val(&self) -> String { %s }" % val)
    L.append("\tfn same(&self, o: &Self) -> bool { self == o }")
    L.append("\tfn min_wire() -> usize { %d }" % minw(d))
    L.append("}")
    return L


def probes(defs):
    """(definition, variant) pairs: a value in a skipped variant"""
    out = []
    for d in defs:
        if d["kind"] != "enum":
            continue
        for v in d["variants"]:
            if v["skip"]:
                binds = ["Default::default()" for _ in v["fields"]]
                body = "" if v["shape"] == "unit" else ("(" + ", ".join(binds) + ")" if v["shape"] == "tuple" else " { " + ", ".join("f%d: Default::default()" % i for i in range(len(binds))) + " }")
                out.append((d["name"], v["name"], "%s::%s%s" % (d["name"], v["name"], body)))
    return out


def run(g, cfg, pid, tier, seed, work, problems):
    ROOT, CACHE, REPO = g["ROOT"], g["CACHE"], g["REPO"]
    sh = g["sh"]
    defs = definitions(seed, tier == "thorough")
    crate = os.path.join(CACHE, "gen05")
    os.makedirs(os.path.join(crate, "src"), exist_ok=True)
    os.makedirs(os.path.join(crate, ".cargo"), exist_ok=True)
    open(os.path.join(crate, "Cargo.toml"), "w").write(CARGO_TOML % REPO)
    open(os.path.join(crate, ".cargo", "config.toml"), "w").write("[net]\noffline = true\n")
    lock = os.path.join(ROOT, "harness", "Cargo.lock")
    if os.path.exists(lock):
        shutil.copy(lock, os.path.join(crate, "Cargo.lock"))
    open(os.path.join(crate, "src", "main.rs"), "w").write(MAIN_RS.replace("H/", os.path.join(ROOT, "harness", "src") + "/"))
    T = ["use crate::common::*;", "use crate::universe::{nest, Uni};", "use parity_scale_codec::{Decode, DecodeWithMemTracking, Encode};", "", PLAIN_RS, ""]
    for d in defs:
        T += render(d) + [""]
    nonempty = [d for d in defs if not (d["kind"] == "enum" and not [v for v in d["variants"] if not v["skip"]])]
    names = [d["name"] for d in nonempty]
    extra = ["Box<FxTrU>", "[FxTrU; 2]", "(Box<FxTrU>, u8)", "Vec<FxTagged>", "Vec<FxSingleSk2>", "[FxSingleSk2; 3]", "Box<FxTr>", "[FxTr; 2]", "Box<FxTrC>", "[FxTrC; 3]", "Vec<FxSingle>", "Option<FxSkipMid>", "Vec<%s>" % names[0], "Box<%s>" % names[1]]
    T.append("macro_rules! for_gen_types { ($f:ident, $cx:expr) => { $( $f::<$t>($cx, stringify!($t)); )* }; }")
    T[-1] = "macro_rules! for_gen_types { ($f:ident, $cx:expr) => { %s }; }" % " ".join("$f::<%s>($cx, \"%s\");" % (n, n) for n in names + extra)
    T.append("pub(crate) use for_gen_types;")
    pr = probes(defs)
    T.append("pub fn probe(k: usize) -> String {")
    T.append("\tmatch k {")
    for i, (dn, vn, expr) in enumerate(pr):
        T.append("\t\t%d => hex(&(%s).encode())," % (i, expr))
    T.append("\t\t_ => \"none\".to_string(),")
    T.append("\t}")
    T.append("}")
    open(os.path.join(crate, "src", "types.rs"), "w").write("\n".join(T) + "\n")
    env = dict(g["ENV"], CARGO_TARGET_DIR=os.path.join(CACHE, "target-gen05"))
    with g["Lock"]("cargo05"):
        rc, out = sh(["cargo", "build", "--release", "--offline"], timeout=3000, cwd=crate, env=env)
    if rc != 0:
        problems.append(("build", "the generated C05 crate does not build against /repo (valid definitions must compile): " + out[-2500:]))
        json.dump(dict(evaluations=0, distinct_nontrivial=0), open(os.path.join(work, "stats.json"), "w"))
        return {}
    binp = os.path.join(env["CARGO_TARGET_DIR"], "release", "gen05")
    rc, out = sh([binp, "--seed", str(seed), "--tier", tier, "--out", work], timeout=1500)
    if rc != 0:
        problems.append(("build", "the generated C05 harness crashed: " + out[-1500:]))
    # skipped variants: encoding yields no bytes and terminates (own process: a divergence must not take the check down)
    oracle_extra = []
    for i, (dn, vn, expr) in enumerate(pr):
        try:
            p = subprocess.run([binp, "probe", str(i)], stdout=subprocess.PIPE, stderr=subprocess.PIPE, timeout=20)
            o = p.stdout.decode()
            if p.returncode != 0:
                oracle_extra.append(("skipped-variant-encode-does-not-terminate", "%s::%s (%s): encode() of a value in a skipped variant crashed with status %d (%s)" % (dn, vn, expr, p.returncode, p.stderr.decode()[-160:].replace("\n", " "))))
            elif o.strip() != "PROBE":
                oracle_extra.append(("skipped-variant-encodes-bytes", "%s::%s: %s" % (dn, vn, o.strip())))
        except subprocess.TimeoutExpired:
            oracle_extra.append(("skipped-variant-encode-does-not-terminate", "%s::%s (%s): encode() did not return within 20 s" % (dn, vn, expr)))
    with open(os.path.join(work, "oracle.tsv"), "a") as f:
        for c, d_ in oracle_extra:
            f.write("%s\t%s\n" % (c, d_))
    try:
        stats = json.load(open(os.path.join(work, "stats.json")))
    except Exception:
        stats = dict(evaluations=0, distinct_nontrivial=0)
    stats["rule"] = ("seeded type definitions over the attribute grammar (unit / tuple / named structs; enums with unit, tuple and named variants; fields plain / compact / encoded_as the compact type / encoded_as a non-compact wrapper / skip over 14 field types; attributes on a variant as separate attributes in both orders; variants with index attributes, explicit discriminants (also on variants with fields), index literals in decimal / hex / binary / octal / suffixed spelling, both at once, implicit positions, skip) plus fixed shapes (single non-skipped field, all fields skipped, repr(transparent) with and without compact and around a zero-sized type with a wire byte, all variants skipped, empty enum, skipped variant in the middle), also nested in Vec / Box / arrays / Option; per type: seeded values -> encode vs the model's encoding of the descriptor derived from the definition, decode of the encoding + suffix, three mutations, and every possible first byte; every value in a skipped variant is encoded in a child process (must print no bytes and exit). non-trivial = non-empty input")
    stats["oracle_checks"] = int(stats.get("oracle_checks", 0)) + len(pr)
    stats.setdefault("distribution", {})["definitions"] = len(defs)
    stats["distribution"]["skipped_variant_probes"] = len(pr)
    stats["samples"] = (stats.get("samples") or [])[:6] + [" ".join(G.render_enum(d["name"], d["variants"], "Encode, Decode") if d["kind"] == "enum" else G.render_struct(d["name"], d["shape"], d["fields"], "Encode, Decode"))[:200] + "  =>  " + ty_coq(d)[:160] for d in defs[:4]]
    json.dump(stats, open(os.path.join(work, "stats.json"), "w"))
    return stats
